//! C20 — scalar functions, CAST and arithmetic match their definitions
//! (exhaustive input enumeration over per-type boundary domains).
//!
//! Every name of the dispatch tables in src/sql/functions/{string,numeric,datetime,system}.rs
//! (parsed from the source text at compile time so none is missed), CASE, CAST and the
//! arithmetic operators are evaluated through `SELECT f(literals)`; the reference
//! definitions below are transcribed from the README one-liners + the MySQL manual.
//! All subject code runs in a forked child (address-space + CPU limits): an abort,
//! an unbounded allocation or a hang kills only the child and becomes a verdict.
use checks::sqlh::{self, Res, TestDb};
use refmodel::val::V;
use std::collections::{BTreeMap, BTreeSet};
use std::io::Write;
use std::path::Path;
use vcore::{json, Check, Ctx, Reporter, Spec, Value};

struct C20;

// ------------------------------------------------------------------ values / expectations
#[derive(Clone, Debug, PartialEq)]
enum RV {
    Null,
    Int(i64),
    Float(f64),
    Text(String),
    Bool(bool),
    Other(String),
}
use RV::*;

#[derive(Clone, Debug)]
enum Alt {
    /// SQL NULL
    N,
    /// the statement must fail with an error
    E,
    /// this value (numbers compare by numeric value: 3 = 3.0, TRUE = 1)
    Val(RV),
    /// a number within 1e-9 relative (1e-12 absolute) of this one
    Approx(f64),
    /// a text that parses to exactly this float (float formatting is not pinned down)
    FloatText(f64),
    /// named predicate on the observed value
    Pred(&'static str),
    /// anything except a panic / abort / hang
    Any,
}
use Alt::*;

fn t(s: &str) -> Alt {
    Val(Text(s.to_string()))
}
fn i(n: i64) -> Alt {
    Val(Int(n))
}

#[derive(Clone, Debug)]
enum Obs {
    Value(RV),
    Error(String),
    Panic(String),
    Died(String),
}

fn num_eq(a: &RV, b: &RV) -> bool {
    fn as_i(v: &RV) -> Option<i64> {
        match v {
            Int(n) => Some(*n),
            Bool(b) => Some(*b as i64),
            _ => None,
        }
    }
    match (a, b) {
        (Text(x), Text(y)) => x == y,
        (Float(x), Float(y)) => x == y || (x.is_nan() && y.is_nan()),
        (Float(f), o) | (o, Float(f)) => match as_i(o) {
            Some(n) => f.fract() == 0.0 && f.abs() < 9.2e18 && (*f as i64) == n,
            None => false,
        },
        (x, y) => match (as_i(x), as_i(y)) {
            (Some(p), Some(q)) => p == q,
            _ => x == y,
        },
    }
}

fn pred(name: &str, v: &RV) -> bool {
    let now = std::time::SystemTime::now().duration_since(std::time::UNIX_EPOCH).map(|d| d.as_secs() as i64).unwrap_or(0);
    let near_today = |date: &str| match cal::parse_dt(date) {
        Some(cal::DT { date: Some((y, m, d)), .. }) => (cal::days_from_civil(y, m, d) - now / 86400).abs() <= 1,
        _ => false,
    };
    match (name, v) {
        ("datetime-now", Text(s)) => s.len() == 19 && matches!(cal::parse_dt(s), Some(cal::DT { date: Some(_), time: Some(_) })) && near_today(s),
        ("date-now", Text(s)) => s.len() == 10 && near_today(s),
        ("time-now", Text(s)) => s.len() == 8 && matches!(cal::parse_dt(s), Some(cal::DT { date: None, time: Some(_) })),
        ("nonempty-text", Text(s)) => !s.is_empty(),
        ("text-or-null", Text(_)) | ("text-or-null", Null) => true,
        ("unit-interval", Float(f)) => *f >= 0.0 && *f < 1.0,
        ("nonneg-int", Int(n)) => *n >= 0,
        ("nonnull", x) => *x != Null,
        _ => false,
    }
}

fn alt_matches(a: &Alt, o: &Obs) -> bool {
    match (a, o) {
        (Any, Obs::Value(_)) | (Any, Obs::Error(_)) => true,
        (E, Obs::Error(_)) => true,
        (N, Obs::Value(Null)) => true,
        (Val(w), Obs::Value(g)) => *g != Null && num_eq(w, g),
        (Approx(x), Obs::Value(g)) => {
            let gv = match g {
                Int(n) => *n as f64,
                Float(f) => *f,
                _ => return false,
            };
            gv == *x || (gv - x).abs() <= 1e-9 * x.abs() + 1e-12
        }
        (FloatText(x), Obs::Value(Text(s))) => s.trim().parse::<f64>().map(|p| p == *x || (p.is_nan() && x.is_nan())).unwrap_or(false),
        (Pred(p), Obs::Value(g)) => pred(p, g),
        _ => false,
    }
}
fn accepted(want: &[Alt], o: &Obs) -> bool {
    want.iter().any(|a| alt_matches(a, o))
}
fn what_class(want: &[Alt], o: &Obs) -> &'static str {
    let has_val = want.iter().any(|a| matches!(a, Val(_) | Approx(_) | FloatText(_) | Pred(_)));
    let has_null = want.iter().any(|a| matches!(a, N));
    match o {
        Obs::Panic(_) => "panic",
        Obs::Died(_) => "abort",
        Obs::Error(_) => "unexpected-error",
        Obs::Value(Null) => {
            if has_val {
                "unexpected-null"
            } else {
                "error-expected"
            }
        }
        Obs::Value(_) => {
            if has_val {
                "wrong-value"
            } else if has_null {
                "null-expected"
            } else {
                "error-expected"
            }
        }
    }
}
fn show_rv(v: &RV) -> String {
    match v {
        Null => "NULL".into(),
        Int(n) => n.to_string(),
        Float(f) => format!("{f:?}"),
        Text(s) => format!("'{}'", vcore::util::clip(s, 120)),
        Bool(b) => b.to_string(),
        Other(s) => vcore::util::clip(s, 120),
    }
}
fn show_want(w: &[Alt]) -> String {
    w.iter()
        .map(|a| match a {
            N => "NULL".to_string(),
            E => "error".to_string(),
            Val(v) => show_rv(v),
            Approx(x) => format!("~{x:?}"),
            FloatText(x) => format!("text of {x:?}"),
            Pred(p) => format!("<{p}>"),
            Any => "<anything but a crash>".to_string(),
        })
        .collect::<Vec<_>>()
        .join(" | ")
}
fn show_obs(o: &Obs) -> String {
    match o {
        Obs::Value(v) => show_rv(v),
        Obs::Error(e) => format!("Err({})", vcore::util::clip(e, 200)),
        Obs::Panic(p) => format!("PANIC({})", vcore::util::clip(p, 200)),
        Obs::Died(h) => format!("process died: {h}"),
    }
}

#[derive(Clone, Debug)]
struct Case {
    f: String,
    sql: String,
    cls: String,
    want: Vec<Alt>,
    nontrivial: bool,
}

// ------------------------------------------------------------------ isolated evaluation
mod iso {
    use super::*;

    fn v_to_rv(v: &V) -> RV {
        match v {
            V::Null => Null,
            V::Bool(b) => Bool(*b),
            V::Int(n) => Int(*n),
            V::Float(f) => Float(*f),
            V::Text(s) => Text(s.clone()),
            V::Blob(b) => Other(format!("blob:{}", vcore::util::hex(b))),
            V::Other(s) => Other(s.clone()),
        }
    }
    fn enc(i: usize, o: &Obs, batch_differs: bool) -> String {
        let (k, v) = match o {
            Obs::Value(Null) => ("n", String::new()),
            Obs::Value(Int(n)) => ("i", n.to_string()),
            Obs::Value(Float(f)) => ("f", f.to_bits().to_string()),
            Obs::Value(Text(s)) => ("s", s.clone()),
            Obs::Value(Bool(b)) => ("b", (*b as u8).to_string()),
            Obs::Value(Other(s)) => ("o", s.clone()),
            Obs::Error(e) => ("e", e.clone()),
            Obs::Panic(p) => ("p", p.clone()),
            Obs::Died(h) => ("d", h.clone()),
        };
        json!({"i": i, "k": k, "v": v, "bd": batch_differs}).to_string()
    }
    fn dec(line: &str) -> Option<(usize, Obs, bool)> {
        let j: Value = serde_json::from_str(line).ok()?;
        let i = j["i"].as_u64()? as usize;
        let v = j["v"].as_str()?.to_string();
        let o = match j["k"].as_str()? {
            "n" => Obs::Value(Null),
            "i" => Obs::Value(Int(v.parse().ok()?)),
            "f" => Obs::Value(Float(f64::from_bits(v.parse().ok()?))),
            "s" => Obs::Value(Text(v)),
            "b" => Obs::Value(Bool(v == "1")),
            "o" => Obs::Value(Other(v)),
            "e" => Obs::Error(v),
            "p" => Obs::Panic(v),
            "d" => Obs::Died(v),
            _ => return None,
        };
        Some((i, o, j["bd"].as_bool().unwrap_or(false)))
    }

    const BATCH: usize = 32;
    const MODE_BATCH: i64 = 1;
    const MODE_SINGLE: i64 = 2;

    struct Child<'a> {
        cases: &'a [Case],
        db: Option<TestDb>,
        scratch: &'a Path,
        gen: usize,
        dbn: usize,
        page: *mut i64,
        out: std::fs::File,
    }
    impl<'a> Child<'a> {
        fn arm(&self, mode: i64, idx: usize) {
            unsafe {
                *self.page = mode;
                *self.page.add(1) = idx as i64;
                let cpu = libc::itimerval { it_interval: libc::timeval { tv_sec: 0, tv_usec: 0 }, it_value: libc::timeval { tv_sec: 20, tv_usec: 0 } };
                libc::setitimer(libc::ITIMER_PROF, &cpu, std::ptr::null_mut());
                let wall = libc::itimerval { it_interval: libc::timeval { tv_sec: 0, tv_usec: 0 }, it_value: libc::timeval { tv_sec: 600, tv_usec: 0 } };
                libc::setitimer(libc::ITIMER_REAL, &wall, std::ptr::null_mut());
            }
        }
        fn db(&mut self) -> &TestDb {
            if self.db.is_none() {
                self.dbn += 1;
                let name = format!("c20db_{}_{}", self.gen, self.dbn);
                match TestDb::create(self.scratch, &name) {
                    Ok(d) => self.db = Some(d),
                    Err(e) => {
                        eprintln!("C20 child: cannot create database: {e}");
                        unsafe { libc::_exit(3) }
                    }
                }
            }
            self.db.as_ref().unwrap()
        }
        fn exec(&mut self, sql: &str) -> Res {
            let r = self.db().exec(sql);
            if r.is_panic() {
                // a panic may leave the handle in any state: continue on a fresh database
                let old = self.db.take();
                let _ = vcore::catch(move || drop(old));
            }
            r
        }
        fn emit(&mut self, i: usize, o: &Obs, bd: bool) {
            let mut l = enc(i, o, bd);
            l.push('\n');
            let _ = self.out.write_all(l.as_bytes());
        }
        fn single(&mut self, i: usize) -> Obs {
            self.arm(MODE_SINGLE, i);
            let sql = format!("SELECT {}", self.cases[i].sql);
            match self.exec(&sql) {
                Res::Rows(rows) if rows.len() == 1 && rows[0].len() == 1 => Obs::Value(v_to_rv(&rows[0][0])),
                Res::Rows(rows) => Obs::Error(format!("result shape {} rows x {} columns", rows.len(), rows.first().map(|r| r.len()).unwrap_or(0))),
                Res::Err(e) => Obs::Error(e),
                Res::Panic(p) => Obs::Panic(p),
                o => Obs::Error(format!("not a row result: {}", o.show())),
            }
        }
        fn run(&mut self, start: usize, single_until: usize) {
            let n = self.cases.len();
            let mut i = start;
            while i < n {
                if i < single_until {
                    let o = self.single(i);
                    self.emit(i, &o, false);
                    i += 1;
                    continue;
                }
                let end = n.min((i / BATCH + 1) * BATCH);
                self.arm(MODE_BATCH, i);
                let sql = format!("SELECT {}", self.cases[i..end].iter().map(|c| c.sql.as_str()).collect::<Vec<_>>().join(", "));
                match self.exec(&sql) {
                    Res::Rows(rows) if rows.len() == 1 && rows[0].len() == end - i => {
                        for j in i..end {
                            let o = Obs::Value(v_to_rv(&rows[0][j - i]));
                            if accepted(&self.cases[j].want, &o) {
                                self.emit(j, &o, false);
                            } else {
                                // confirm alone: the verdict is always about the single-expression SELECT
                                let o2 = self.single(j);
                                let differs = format!("{o:?}") != format!("{o2:?}");
                                self.emit(j, &o2, differs);
                            }
                        }
                    }
                    _ => {
                        for j in i..end {
                            let o = self.single(j);
                            self.emit(j, &o, false);
                        }
                    }
                }
                i = end;
            }
        }
    }

    pub struct Stats {
        pub children: u64,
        pub deaths: u64,
        pub batch_single_disagreements: u64,
    }

    /// Evaluate every case; one forked child at a time, restarted after each death.
    pub fn run(scratch: &Path, cases: &[Case]) -> (Vec<Obs>, Stats) {
        let n = cases.len();
        let mut st = Stats { children: 0, deaths: 0, batch_single_disagreements: 0 };
        let mut obs: Vec<Option<Obs>> = vec![None; n];
        if n == 0 {
            return (Vec::new(), st);
        }
        let res_path = scratch.join("c20_results.jsonl");
        let _ = std::fs::remove_file(&res_path);
        let page = unsafe { libc::mmap(std::ptr::null_mut(), 4096, libc::PROT_READ | libc::PROT_WRITE, libc::MAP_SHARED | libc::MAP_ANONYMOUS, -1, 0) } as *mut i64;
        if page as isize == -1 {
            vcore::machinery("C20: mmap of the progress page failed");
        }
        let mut start = 0usize;
        let mut single_until = 0usize;
        let mut read_off = 0u64;
        let mut gen = 0usize;
        while start < n {
            gen += 1;
            st.children += 1;
            unsafe {
                *page = 0;
                *page.add(1) = start as i64;
            }
            let pid = unsafe { libc::fork() };
            if pid < 0 {
                vcore::machinery("C20: fork failed");
            }
            if pid == 0 {
                unsafe {
                    let lim = libc::rlimit { rlim_cur: 320 << 20, rlim_max: 320 << 20 };
                    libc::setrlimit(libc::RLIMIT_AS, &lim);
                    let nocore = libc::rlimit { rlim_cur: 0, rlim_max: 0 };
                    libc::setrlimit(libc::RLIMIT_CORE, &nocore);
                }
                let out = std::fs::OpenOptions::new().create(true).append(true).open(&res_path);
                let out = match out {
                    Ok(f) => f,
                    Err(_) => unsafe { libc::_exit(4) },
                };
                let mut ch = Child { cases, db: None, scratch, gen, dbn: 0, page, out };
                ch.run(start, single_until);
                let db = ch.db.take();
                let _ = vcore::catch(move || drop(db));
                unsafe { libc::_exit(0) }
            }
            let mut status: libc::c_int = 0;
            loop {
                let r = unsafe { libc::waitpid(pid, &mut status, 0) };
                if r == pid {
                    break;
                }
                if r < 0 && std::io::Error::last_os_error().raw_os_error() != Some(libc::EINTR) {
                    vcore::machinery("C20: waitpid failed");
                }
            }
            // collect what the child wrote
            if let Ok(bytes) = std::fs::read(&res_path) {
                let new = &bytes[(read_off as usize).min(bytes.len())..];
                let text = String::from_utf8_lossy(new);
                let mut consumed = 0usize;
                for line in text.split_inclusive('\n') {
                    if !line.ends_with('\n') {
                        break; // torn last line of a dead child
                    }
                    consumed += line.len();
                    if let Some((i, o, bd)) = dec(line.trim_end()) {
                        if i < n {
                            obs[i] = Some(o);
                            if bd {
                                st.batch_single_disagreements += 1;
                            }
                        }
                    }
                }
                if consumed < new.len() {
                    // drop the torn tail so the next child appends on a clean line
                    if let Ok(f) = std::fs::OpenOptions::new().write(true).open(&res_path) {
                        let _ = f.set_len(read_off + consumed as u64);
                    }
                }
                read_off += consumed as u64;
            }
            if libc::WIFEXITED(status) && libc::WEXITSTATUS(status) == 0 {
                break;
            }
            if libc::WIFEXITED(status) {
                vcore::machinery(&format!("C20: evaluation child exited with status {}", libc::WEXITSTATUS(status)));
            }
            st.deaths += 1;
            let sig = libc::WTERMSIG(status);
            let how = match sig {
                libc::SIGABRT => "abort(SIGABRT)".to_string(),
                libc::SIGPROF => "hang(20s-cpu)".to_string(),
                libc::SIGALRM => "hang(600s-wall)".to_string(),
                libc::SIGSEGV => "SIGSEGV".to_string(),
                libc::SIGKILL => "SIGKILL".to_string(),
                s => format!("signal{s}"),
            };
            let (mode, idx) = unsafe { (*page, *page.add(1) as usize) };
            if mode == MODE_SINGLE {
                obs[idx] = Some(Obs::Died(how));
                start = idx + 1;
                single_until = single_until.max(n.min((idx / BATCH + 1) * BATCH));
            } else {
                // died inside a batch (or before the first statement): redo that batch one by one
                start = idx;
                single_until = n.min((idx / BATCH + 1) * BATCH);
                if mode == 0 && st.deaths > 3 && st.children == st.deaths {
                    vcore::machinery(&format!("C20: evaluation child dies before running anything ({how})"));
                }
            }
        }
        unsafe {
            libc::munmap(page as *mut libc::c_void, 4096);
        }
        let out = obs.into_iter().enumerate().map(|(i, o)| o.unwrap_or_else(|| vcore::machinery(&format!("C20: no result recorded for case {i}")))).collect();
        (out, st)
    }
}

// ------------------------------------------------------------------ reference calendar
mod cal {
    pub fn leap(y: i64) -> bool {
        (y % 4 == 0 && y % 100 != 0) || y % 400 == 0
    }
    pub fn dim(y: i64, m: u32) -> u32 {
        match m {
            1 | 3 | 5 | 7 | 8 | 10 | 12 => 31,
            4 | 6 | 9 | 11 => 30,
            2 => 28 + leap(y) as u32,
            _ => 0,
        }
    }
    /// days since 1970-01-01 (proleptic Gregorian)
    pub fn days_from_civil(y: i64, m: u32, d: u32) -> i64 {
        let y = if m <= 2 { y - 1 } else { y };
        let era = if y >= 0 { y } else { y - 399 } / 400;
        let yoe = y - era * 400;
        let mp = (m as i64 + 9) % 12;
        let doy = (153 * mp + 2) / 5 + d as i64 - 1;
        let doe = yoe * 365 + yoe / 4 - yoe / 100 + doy;
        era * 146097 + doe - 719468
    }
    pub fn civil_from_days(z: i64) -> (i64, u32, u32) {
        let z = z + 719468;
        let era = if z >= 0 { z } else { z - 146096 } / 146097;
        let doe = z - era * 146097;
        let yoe = (doe - doe / 1460 + doe / 36524 - doe / 146096) / 365;
        let y = yoe + era * 400;
        let doy = doe - (365 * yoe + yoe / 4 - yoe / 100);
        let mp = (5 * doy + 2) / 153;
        let d = (doy - (153 * mp + 2) / 5 + 1) as u32;
        let m = if mp < 10 { mp + 3 } else { mp - 9 } as u32;
        (if m <= 2 { y + 1 } else { y }, m, d)
    }
    pub const MIN_DAY: i64 = -719162; // 0001-01-01
    pub const MAX_DAY: i64 = 2932896; // 9999-12-31
    /// 0 = Sunday
    pub fn weekday(days: i64) -> u32 {
        ((days % 7 + 11) % 7) as u32 // 1970-01-01 was a Thursday (4)
    }
    pub fn doy(y: i64, m: u32, d: u32) -> u32 {
        (1..m).map(|k| dim(y, k)).sum::<u32>() + d
    }
    pub fn fmt_date(y: i64, m: u32, d: u32) -> String {
        format!("{y:04}-{m:02}-{d:02}")
    }
    #[derive(Clone, Copy, Debug, PartialEq)]
    pub struct DT {
        pub date: Option<(i64, u32, u32)>,
        pub time: Option<(u32, u32, u32, u32)>,
    }
    fn p_date(s: &str) -> Option<(i64, u32, u32)> {
        let p: Vec<&str> = s.split('-').collect();
        if p.len() != 3 || p[0].len() != 4 || p[1].len() != 2 || p[2].len() != 2 || !p.iter().all(|x| x.bytes().all(|b| b.is_ascii_digit())) {
            return None;
        }
        let (y, m, d) = (p[0].parse().ok()?, p[1].parse().ok()?, p[2].parse().ok()?);
        if y < 1 || !(1..=12).contains(&m) || d < 1 || d > dim(y, m) {
            return None;
        }
        Some((y, m, d))
    }
    fn p_time(s: &str) -> Option<(u32, u32, u32, u32)> {
        let (hms, frac) = match s.split_once('.') {
            Some((a, b)) => (a, Some(b)),
            None => (s, None),
        };
        let p: Vec<&str> = hms.split(':').collect();
        if p.len() != 3 || !p.iter().all(|x| x.len() == 2 && x.bytes().all(|b| b.is_ascii_digit())) {
            return None;
        }
        let (h, m, sec): (u32, u32, u32) = (p[0].parse().ok()?, p[1].parse().ok()?, p[2].parse().ok()?);
        if h > 23 || m > 59 || sec > 59 {
            return None;
        }
        let us = match frac {
            None => 0,
            Some(f) if !f.is_empty() && f.len() <= 6 && f.bytes().all(|b| b.is_ascii_digit()) => format!("{f:0<6}").parse().ok()?,
            _ => return None,
        };
        Some((h, m, sec, us))
    }
    /// 'YYYY-MM-DD', 'YYYY-MM-DD HH:MM:SS[.f]' or 'HH:MM:SS[.f]' with valid fields
    pub fn parse_dt(s: &str) -> Option<DT> {
        if let Some((d, tm)) = s.split_once(' ') {
            return Some(DT { date: Some(p_date(d)?), time: Some(p_time(tm)?) });
        }
        if s.contains('-') {
            return Some(DT { date: Some(p_date(s)?), time: None });
        }
        Some(DT { date: None, time: Some(p_time(s)?) })
    }
    // ---- MySQL calc_week (sql-common/my_time.cc), transcribed
    fn daynr(y: i64, m: u32, d: u32) -> i64 {
        days_from_civil(y, m, d) + 719528
    }
    fn calc_weekday(daynr: i64, sunday_first: bool) -> i64 {
        (daynr + 5 + sunday_first as i64) % 7
    }
    fn days_in_year(y: i64) -> i64 {
        365 + leap(y) as i64
    }
    /// (week, year) for WEEK(date, mode) / YEARWEEK(date, mode)
    pub fn mysql_week(y: i64, m: u32, d: u32, mode: u32, force_year: bool) -> (i64, i64) {
        let mut beh = mode & 7;
        if beh & 1 == 0 {
            beh ^= 4;
        }
        if force_year {
            beh |= 2;
        }
        let monday_first = beh & 1 != 0;
        let mut week_year = beh & 2 != 0;
        let first_weekday = beh & 4 != 0;
        let dn = daynr(y, m, d);
        let mut first = daynr(y, 1, 1);
        let mut wd = calc_weekday(first, !monday_first);
        let mut year = y;
        if m == 1 && (d as i64) <= 7 - wd {
            if !week_year && ((first_weekday && wd != 0) || (!first_weekday && wd >= 4)) {
                return (0, year);
            }
            week_year = true;
            year -= 1;
            let days = days_in_year(year);
            first -= days;
            wd = (wd + 53 * 7 - days) % 7;
        }
        let days = if (first_weekday && wd != 0) || (!first_weekday && wd >= 4) { dn - (first + (7 - wd)) } else { dn - (first - wd) };
        if week_year && days >= 52 * 7 {
            wd = (wd + days_in_year(year)) % 7;
            if (!first_weekday && wd < 4) || (first_weekday && wd == 0) {
                return (1, year + 1);
            }
        }
        (days / 7 + 1, year)
    }
    /// ISO-8601 week number, independent derivation (Thursday rule)
    pub fn iso_week(y: i64, m: u32, d: u32) -> i64 {
        let days = days_from_civil(y, m, d);
        let wd_mon0 = ((weekday(days) + 6) % 7) as i64; // 0 = Monday
        let thursday = days - wd_mon0 + 3;
        let (ty, _, _) = civil_from_days(thursday);
        (thursday - days_from_civil(ty, 1, 1)) / 7 + 1
    }
    pub fn self_test() -> Result<(), String> {
        let chk = |c: bool, m: &str| if c { Ok(()) } else { Err(m.to_string()) };
        chk(days_from_civil(1970, 1, 1) == 0 && days_from_civil(1, 1, 1) == MIN_DAY && days_from_civil(9999, 12, 31) == MAX_DAY, "epoch")?;
        chk(civil_from_days(MIN_DAY) == (1, 1, 1) && civil_from_days(19782) == (2024, 2, 29), "civil_from_days")?;
        chk(weekday(0) == 4 && weekday(days_from_civil(2024, 2, 29)) == 4 && weekday(days_from_civil(2000, 1, 1)) == 6, "weekday")?;
        chk(mysql_week(2008, 2, 20, 0, false).0 == 7 && mysql_week(2008, 2, 20, 1, false).0 == 8 && mysql_week(2008, 12, 31, 1, false).0 == 53, "WEEK manual examples")?;
        chk(mysql_week(2000, 1, 1, 0, false).0 == 0 && mysql_week(1987, 1, 1, 0, true) == (52, 1986), "WEEK/YEARWEEK manual examples")?;
        for (y, m, d) in [(2008, 2, 20), (2005, 1, 1), (2005, 1, 2), (2008, 12, 29), (2010, 1, 3), (2020, 12, 31), (2021, 1, 4), (1, 1, 1), (9999, 12, 31)] {
            chk(mysql_week(y, m, d, 3, false).0 == iso_week(y, m, d), "mode 3 = ISO week")?;
        }
        Ok(())
    }
}

// ------------------------------------------------------------------ argument domains
#[derive(Clone, Debug)]
struct A {
    sql: String,
    cls: String,
    v: RV,
}
fn a_null() -> A {
    A { sql: "NULL".into(), cls: "null".into(), v: Null }
}
fn a_str(cls: &str, s: &str) -> A {
    A { sql: format!("'{}'", s.replace('\'', "''")), cls: cls.into(), v: Text(s.to_string()) }
}
fn a_int(cls: &str, n: i64) -> A {
    let sql = if n == i64::MIN {
        "(-9223372036854775807 - 1)".to_string()
    } else if n < 0 {
        format!("({n})")
    } else {
        n.to_string()
    };
    A { sql, cls: cls.into(), v: Int(n) }
}
fn a_flt(cls: &str, f: f64) -> A {
    let sql = if f.is_nan() {
        "CAST('NaN' AS REAL)".to_string()
    } else if f.is_infinite() {
        if f > 0.0 { "1e999".to_string() } else { "(-1e999)".to_string() }
    } else {
        let body = if f.abs() >= 1e15 || (f != 0.0 && f.abs() < 1e-4) { format!("{:e}", f.abs()) } else { format!("{:?}", f.abs()) };
        if f.is_sign_negative() { format!("(-{body})") } else { body }
    };
    A { sql, cls: cls.into(), v: Float(f) }
}
fn with_null(mut v: Vec<A>) -> Vec<A> {
    v.push(a_null());
    v
}
fn long300() -> String {
    "abcdefghij".repeat(30)
}
fn strs(quick: bool) -> Vec<A> {
    let mut v = vec![
        a_str("empty", ""),
        a_str("ascii", "Hello World"),
        a_str("ascii-ws", "  ab c  "),
        a_str("ascii-list", "a,b,,c"),
        a_str("utf8-2byte", "h\u{e9}llo w\u{f6}rld \u{f1}"),
        a_str("utf8-3byte", "\u{65e5}\u{672c}\u{8a9e}\u{30c6}\u{30ad}\u{30b9}\u{30c8}"),
        a_str("utf8-4byte", "a\u{1f600}b\u{1d11e}c"),
        a_str("combining", "e\u{301}a\u{308}x"),
        a_str("long300", &long300()),
        a_int("int", 120),
    ];
    if !quick {
        v.push(a_str("mixed", "A\u{f1}o \u{65e5}\u{672c} \u{1f600} e\u{301}!"));
        v.push(a_str("ascii-1", "x"));
        v.push(a_int("int-neg", -7));
    }
    v
}
fn ints(quick: bool) -> Vec<A> {
    let mut v = vec![
        a_int("int-0", 0),
        a_int("int-1", 1),
        a_int("int-neg1", -1),
        a_int("int-2p31", 1 << 31),
        a_int("int-neg2p31", -(1 << 31)),
        a_int("int-2p53", 1 << 53),
        a_int("int-neg2p53", -(1 << 53)),
        a_int("int-max", i64::MAX),
        a_int("int-min", i64::MIN),
    ];
    if !quick {
        v.extend([a_int("int-2", 2), a_int("int-neg2", -2), a_int("int-3", 3), a_int("int-10", 10), a_int("int-15", 15), a_int("int-neg15", -15), a_int("int-2p31m1", (1 << 31) - 1), a_int("int-2p32", 1 << 32), a_int("int-2p62", 1 << 62), a_int("int-maxm1", i64::MAX - 1), a_int("int-minp1", i64::MIN + 1)]);
    }
    v
}
fn floats(quick: bool) -> Vec<A> {
    let mut v = vec![
        a_flt("f-0", 0.0),
        a_flt("f-neg0", -0.0),
        a_flt("f-0.5", 0.5),
        a_flt("f-1.5", 1.5),
        a_flt("f-2.5", 2.5),
        a_flt("f-neg2.5", -2.5),
        a_flt("f-1e308", 1e308),
        a_flt("f-nan", f64::NAN),
        a_flt("f-inf", f64::INFINITY),
    ];
    if !quick {
        v.extend([a_flt("f-neg0.5", -0.5), a_flt("f-neg1.5", -1.5), a_flt("f-3", 3.0), a_flt("f-neg1e308", -1e308), a_flt("f-neginf", f64::NEG_INFINITY), a_flt("f-1e15", 1e15), a_flt("f-0.25", 0.25)]);
    }
    v
}
fn nums(quick: bool) -> Vec<A> {
    let mut v = ints(quick);
    v.extend(floats(quick));
    v
}
fn charlen(v: &RV) -> usize {
    tx(v).map(|s| s.chars().count()).unwrap_or(0)
}
/// positions / lengths relative to a string of `len` characters
fn poss(len: usize, quick: bool) -> Vec<A> {
    let l = len as i64;
    let mut cand = vec![("pos=-1", -1), ("pos=0", 0), ("pos=1", 1), ("pos=len", l), ("pos=len+1", l + 1)];
    if !quick {
        cand.extend([("pos=2", 2), ("pos=len-1", l - 1), ("pos=-len", -l), ("pos=-len-1", -l - 1)]);
    }
    let mut out: Vec<A> = Vec::new();
    for (c, n) in cand {
        if !out.iter().any(|a| a.v == Int(n)) {
            out.push(a_int(c, n));
        }
    }
    out.push(a_null());
    out
}
/// MySQL's implicit conversion of an argument to a string
fn tx(v: &RV) -> Option<String> {
    match v {
        Text(s) => Some(s.clone()),
        Int(n) => Some(n.to_string()),
        _ => None,
    }
}
fn nf(v: &RV) -> Option<f64> {
    match v {
        Int(n) => Some(*n as f64),
        Float(f) => Some(*f),
        _ => None,
    }
}

// ------------------------------------------------------------------ case generator
struct Gen {
    cases: Vec<Case>,
    quick: bool,
    pruned: u64,
}
impl Gen {
    fn add(&mut self, f: &str, sql: String, cls: String, want: Vec<Alt>, nontrivial: bool) {
        let cls = cls.replace(' ', "_").replace('/', "|");
        self.cases.push(Case { f: f.to_string(), sql, cls, want, nontrivial });
    }
    fn call(&mut self, f: &str, args: &[&A], want: Vec<Alt>) {
        let sql = format!("{}({})", f, args.iter().map(|a| a.sql.as_str()).collect::<Vec<_>>().join(", "));
        let cls = format!("({})", args.iter().map(|a| a.cls.as_str()).collect::<Vec<_>>().join(","));
        let nt = args.iter().any(|a| a.v != Null);
        self.add(f, sql, cls, want, nt);
    }
    /// call under several names (aliases of one dispatch arm)
    fn calls(&mut self, names: &[&str], args: &[&A], want: Vec<Alt>) {
        for n in names {
            self.call(n, args, want.clone());
        }
    }
}
fn any_null(args: &[&A]) -> bool {
    args.iter().any(|a| a.v == Null)
}

// ------------------------------------------------------------------ string references
fn up(s: &str) -> String {
    s.chars()
        .map(|c| match c {
            'a'..='z' => c.to_ascii_uppercase(),
            '\u{e9}' => '\u{c9}',
            '\u{f6}' => '\u{d6}',
            '\u{f1}' => '\u{d1}',
            _ => c,
        })
        .collect()
}
fn low(s: &str) -> String {
    s.chars()
        .map(|c| match c {
            'A'..='Z' => c.to_ascii_lowercase(),
            '\u{c9}' => '\u{e9}',
            '\u{d6}' => '\u{f6}',
            '\u{d1}' => '\u{f1}',
            _ => c,
        })
        .collect()
}
fn substr(s: &str, pos: i64, len: Option<i64>) -> String {
    let c: Vec<char> = s.chars().collect();
    let l = c.len() as i64;
    if pos == 0 {
        return String::new();
    }
    let start = if pos > 0 { pos - 1 } else { l + pos };
    if start < 0 || start >= l {
        return String::new();
    }
    let n = match len {
        None => l - start,
        Some(k) if k < 1 => return String::new(),
        Some(k) => k.min(l - start),
    };
    c[start as usize..(start + n) as usize].iter().collect()
}
fn locate(sub: &str, s: &str, pos: i64) -> i64 {
    let c: Vec<char> = s.chars().collect();
    let m: Vec<char> = sub.chars().collect();
    let l = c.len() as i64;
    if pos < 1 {
        return 0;
    }
    let st = pos - 1;
    if st > l {
        return 0;
    }
    if m.is_empty() {
        return st + 1;
    }
    let mut k = st as usize;
    while k + m.len() <= c.len() {
        if c[k..k + m.len()] == m[..] {
            return k as i64 + 1;
        }
        k += 1;
    }
    0
}
fn replace_ref(s: &str, from: &str, to: &str) -> String {
    if from.is_empty() {
        return s.to_string();
    }
    let mut out = String::new();
    let mut rest = s;
    while let Some(p) = rest.find(from) {
        out.push_str(&rest[..p]);
        out.push_str(to);
        rest = &rest[p + from.len()..];
    }
    out.push_str(rest);
    out
}
fn substring_index(s: &str, delim: &str, count: i64) -> String {
    if delim.is_empty() || count == 0 {
        return String::new();
    }
    let parts: Vec<&str> = s.split(delim).collect();
    if count > 0 {
        let k = (count as usize).min(parts.len());
        parts[..k].join(delim)
    } else {
        let k = (count.unsigned_abs() as usize).min(parts.len());
        parts[parts.len() - k..].join(delim)
    }
}
fn pad_ref(s: &str, n: i64, pad: &str, left: bool) -> Vec<Alt> {
    if n < 0 {
        return vec![N];
    }
    let c: Vec<char> = s.chars().collect();
    let n = n as usize;
    if c.len() >= n {
        return vec![t(&c[..n].iter().collect::<String>())];
    }
    let p: Vec<char> = pad.chars().collect();
    if p.is_empty() {
        // MySQL 5.7 answers NULL, 8.0 the empty string; returning str unchanged is a third common reading
        return vec![N, t(""), t(s)];
    }
    let fill: String = (0..n - c.len()).map(|k| p[k % p.len()]).collect();
    vec![t(&if left { format!("{fill}{s}") } else { format!("{s}{fill}") })]
}
fn insert_ref(s: &str, pos: i64, len: i64, new: &str) -> Vec<Alt> {
    let c: Vec<char> = s.chars().collect();
    let l = c.len() as i64;
    if pos < 1 || pos > l + 1 {
        return vec![t(s)];
    }
    let head: String = c[..(pos - 1) as usize].iter().collect();
    let full = if len < 0 || pos - 1 + len >= l { format!("{head}{new}") } else { format!("{head}{new}{}", c[(pos - 1 + len) as usize..].iter().collect::<String>()) };
    if pos == l + 1 {
        // "pos not within the length of the string" — the manual and the server code disagree for pos = len+1
        return vec![t(s), t(&full)];
    }
    vec![t(&full)]
}
fn strcmp_ref(a: &str, b: &str) -> Vec<Alt> {
    if a == b {
        return vec![i(0)];
    }
    let sign = |o: std::cmp::Ordering| match o {
        std::cmp::Ordering::Less => -1,
        std::cmp::Ordering::Equal => 0,
        std::cmp::Ordering::Greater => 1,
    };
    let ca: Vec<char> = a.chars().collect();
    let cb: Vec<char> = b.chars().collect();
    let k = ca.iter().zip(&cb).position(|(x, y)| x != y);
    match k {
        None => vec![i(sign(ca.len().cmp(&cb.len())))], // one is a prefix of the other
        Some(k) if ca[k].is_ascii_alphanumeric() && cb[k].is_ascii_alphanumeric() => {
            let bin = sign(ca.cmp(&cb));
            let ci = sign(low(a).chars().collect::<Vec<_>>().cmp(&low(b).chars().collect::<Vec<_>>()));
            let mut v = vec![i(bin)];
            if ci != bin {
                v.push(i(ci)); // collation (case-insensitive vs binary) is not pinned down
            }
            v
        }
        Some(_) => vec![i(-1), i(1)], // order of punctuation / non-ASCII depends on the collation
    }
}
fn group3(digits: &str) -> String {
    let b: Vec<char> = digits.chars().collect();
    let mut out = String::new();
    for (k, ch) in b.iter().enumerate() {
        if k > 0 && (b.len() - k) % 3 == 0 {
            out.push(',');
        }
        out.push(*ch);
    }
    out
}
/// round num/den to an integer; mode 0 = half away from zero, 1 = half to even, 2 = truncate
fn round_div(num: i128, den: i128, mode: u8) -> i128 {
    let q = num / den;
    let r = num % den;
    if r == 0 || mode == 2 {
        return q;
    }
    let twice = 2 * r.abs();
    let up = match twice.cmp(&den.abs()) {
        std::cmp::Ordering::Greater => true,
        std::cmp::Ordering::Less => false,
        std::cmp::Ordering::Equal => mode == 0 || q % 2 != 0,
    };
    if up {
        q + if (num < 0) != (den < 0) { -1 } else { 1 }
    } else {
        q
    }
}
/// exact rational of a domain number: (numerator, denominator 1 or 8) when it is a multiple of 0.125 below 1e15
fn rational(v: &RV) -> Option<(i128, i128)> {
    match v {
        Int(n) => Some((*n as i128, 1)),
        Float(f) if f.is_finite() && f.abs() < 1e15 && (f * 8.0).fract() == 0.0 => Some(((f * 8.0) as i128, 8)),
        _ => None,
    }
}
fn format_ref(x: &RV, d: i64) -> Vec<Alt> {
    let d = d.max(0).min(30) as u32;
    let Some((num, den)) = rational(x) else { return vec![Any] };
    let scale = 10i128.pow(d);
    let mut out = Vec::new();
    for mode in [0u8, 1] {
        let v = round_div(num * scale, den, mode); // value * 10^d
        let neg = v < 0;
        let digits = v.abs().to_string();
        let digits = format!("{digits:0>width$}", width = d as usize + 1);
        let (ip, fp) = digits.split_at(digits.len() - d as usize);
        let body = if d > 0 { format!("{}.{}", group3(ip), fp) } else { group3(ip) };
        let s = if neg { format!("-{body}") } else { body.clone() };
        out.push(t(&s));
        if !neg && (num < 0 || matches!(x, Float(f) if f.is_sign_negative())) {
            out.push(t(&format!("-{body}"))); // sign of a negative value that rounds to zero
        }
    }
    out
}

fn gen_strings(g: &mut Gen) {
    let q = g.quick;
    let sd = with_null(strs(q));
    for s in &sd {
        let sv = tx(&s.v);
        let one = |f: &dyn Fn(&str) -> Vec<Alt>| match &sv {
            None => vec![N],
            Some(x) => f(x),
        };
        g.call("ASCII", &[s], one(&|x| match x.chars().next() {
            None => vec![i(0)],
            Some(c) if c.is_ascii() => vec![i(c as i64)],
            Some(c) => vec![i(x.as_bytes()[0] as i64), i(c as i64)], // MySQL: first byte; "code of first char": code point
        }));
        g.calls(&["CHAR_LENGTH", "CHARACTER_LENGTH"], &[s], one(&|x| vec![i(x.chars().count() as i64)]));
        g.calls(&["LENGTH", "LEN", "OCTET_LENGTH"], &[s], one(&|x| vec![i(x.len() as i64)]));
        g.calls(&["UPPER", "UCASE"], &[s], one(&|x| vec![t(&up(x))]));
        g.calls(&["LOWER", "LCASE"], &[s], one(&|x| vec![t(&low(x))]));
        g.call("LTRIM", &[s], one(&|x| vec![t(x.trim_start_matches(' '))]));
        g.call("RTRIM", &[s], one(&|x| vec![t(x.trim_end_matches(' '))]));
        g.call("TRIM", &[s], one(&|x| vec![t(x.trim_matches(' '))]));
        g.call("REVERSE", &[s], one(&|x| vec![t(&x.chars().rev().collect::<String>())]));
        let l = charlen(&s.v);
        for n in &poss(l, q) {
            let nn = if let Int(k) = n.v { Some(k) } else { None };
            let w = |f: &dyn Fn(&str, i64) -> Vec<Alt>| match (&sv, nn) {
                (Some(x), Some(k)) => f(x, k),
                _ => vec![N],
            };
            g.call("LEFT", &[s, n], w(&|x, k| vec![t(&x.chars().take(k.max(0) as usize).collect::<String>())]));
            g.call("RIGHT", &[s, n], w(&|x, k| {
                let c: Vec<char> = x.chars().collect();
                let k = (k.max(0) as usize).min(c.len());
                vec![t(&c[c.len() - k..].iter().collect::<String>())]
            }));
            g.calls(&["SUBSTR", "SUBSTRING", "MID"], &[s, n], w(&|x, k| vec![t(&substr(x, k, None))]));
            for m in &poss(l, q) {
                let mm = if let Int(k) = m.v { Some(k) } else { None };
                let w3 = match (&sv, nn, mm) {
                    (Some(x), Some(p), Some(k)) => vec![t(&substr(x, p, Some(k)))],
                    _ => vec![N],
                };
                g.calls(&["SUBSTR", "SUBSTRING", "MID"], &[s, n, m], w3);
                for new in [a_str("ascii-1", "#"), a_str("utf8-3byte", "\u{65e5}\u{672c}"), a_null()] {
                    let w4 = match (&sv, nn, mm, tx(&new.v)) {
                        (Some(x), Some(p), Some(k), Some(nw)) => insert_ref(x, p, k, &nw),
                        _ => vec![N],
                    };
                    g.call("INSERT", &[s, n, m, &new], w4);
                }
            }
            // padding
            for pad in [a_str("ascii-1", "*"), a_str("ascii", "xy"), a_str("utf8-3byte", "\u{65e5}\u{672c}"), a_str("empty", ""), a_null()] {
                let wl = |left: bool| match (&sv, nn, tx(&pad.v)) {
                    (Some(x), Some(k), Some(p)) => pad_ref(x, k, &p, left),
                    _ => vec![N],
                };
                g.call("LPAD", &[s, n, &pad], wl(true));
                // RPAD with a negative length grows its result without bound (KF-C20 rpad): one
                // representative per pad is kept, the rest of that construct is pruned
                let hazard = matches!(nn, Some(k) if k < 0) && sv.is_some() && tx(&pad.v).map(|p| !p.is_empty()).unwrap_or(false);
                if hazard && !(s.cls == "ascii" && pad.cls == "ascii-1") && !(!q && s.cls == "utf8-3byte" && pad.cls == "utf8-3byte") {
                    g.pruned += 1;
                } else {
                    g.call("RPAD", &[s, n, &pad], wl(false));
                }
            }
        }
        // repetition counts
        for n in [a_int("n=-1", -1), a_int("n=0", 0), a_int("n=1", 1), a_int("n=3", 3), a_null()] {
            let w = match (&sv, &n.v) {
                (Some(x), Int(k)) => vec![t(&x.repeat((*k).max(0) as usize))],
                _ => vec![N],
            };
            g.call("REPEAT", &[s, &n], w);
        }
        // needles derived from the haystack (exact-case substrings, an absent one, a longer one)
        let mut needles: Vec<A> = vec![a_str("needle-empty", ""), a_str("needle-absent", "zq"), a_null()];
        if let Some(x) = &sv {
            let c: Vec<char> = x.chars().collect();
            if !c.is_empty() {
                needles.push(a_str("needle-first", &c[..1].iter().collect::<String>()));
                needles.push(a_str("needle-last", &c[c.len() - 1..].iter().collect::<String>()));
                needles.push(a_str("needle-whole", x));
                needles.push(a_str("needle-longer", &format!("{x}x")));
                if c.len() >= 4 {
                    let m = c.len() / 2;
                    needles.push(a_str("needle-mid2", &c[m..m + 2].iter().collect::<String>()));
                }
            }
        }
        for nd in &needles {
            let nv = tx(&nd.v);
            let two = |f: &dyn Fn(&str, &str) -> Vec<Alt>| match (&sv, &nv) {
                (Some(x), Some(y)) => f(x, y),
                _ => vec![N],
            };
            g.call("INSTR", &[s, nd], two(&|x, y| vec![i(locate(y, x, 1))]));
            g.calls(&["LOCATE", "POSITION"], &[nd, s], two(&|x, y| vec![i(locate(y, x, 1))]));
            for p in &poss(l, q) {
                let w = match (&sv, &nv, &p.v) {
                    (Some(x), Some(y), Int(k)) => vec![i(locate(y, x, *k))],
                    _ => vec![N],
                };
                g.call("LOCATE", &[nd, s, p], w);
            }
            for to in [a_str("ascii", "<>"), a_str("empty", ""), a_str("utf8-4byte", "\u{1f600}"), a_null()] {
                let w = match (&sv, &nv, tx(&to.v)) {
                    (Some(x), Some(y), Some(z)) => vec![t(&replace_ref(x, y, &z))],
                    _ => vec![N],
                };
                g.call("REPLACE", &[s, nd, &to], w);
            }
            for cnt in [a_int("n=-1", -1), a_int("n=0", 0), a_int("n=1", 1), a_int("n=2", 2), a_int("n=99", 99), a_null()] {
                let w = match (&sv, &nv, &cnt.v) {
                    (Some(x), Some(y), Int(k)) => vec![t(&substring_index(x, y, *k))],
                    _ => vec![N],
                };
                g.call("SUBSTRING_INDEX", &[s, nd, &cnt], w);
            }
            g.call("STRCMP", &[s, nd], two(&|x, y| strcmp_ref(x, y)));
            g.call("STRCMP", &[nd, s], two(&|x, y| strcmp_ref(y, x)));
            // FIND_IN_SET(needle, list = s)
            g.call("FIND_IN_SET", &[nd, s], two(&|x, y| {
                if x.is_empty() || y.contains(',') {
                    return vec![i(0)];
                }
                vec![i(x.split(',').position(|e| e == y).map(|p| p as i64 + 1).unwrap_or(0))]
            }));
            // FIELD(needle, s, 'zq', needle)
            let other = a_str("ascii", "zq#");
            let w = match &nv {
                None => vec![i(0)], // "If str is NULL, the return value is 0"
                Some(y) => vec![i(if sv.as_deref() == Some(y.as_str()) { 1 } else { 3 })],
            };
            g.call("FIELD", &[nd, s, &other, nd], w);
            g.call("FIELD", &[nd, s], match (&nv, &sv) {
                (Some(y), Some(x)) if x == y => vec![i(1)],
                _ => vec![i(0)],
            });
        }
        // concatenation
        g.call("CONCAT", &[s], one(&|x| vec![t(x)]));
        for b in &sd {
            let bv = tx(&b.v);
            g.call("CONCAT", &[s, b], match (&sv, &bv) {
                (Some(x), Some(y)) => vec![t(&format!("{x}{y}"))],
                _ => vec![N],
            });
            g.call("STRCMP", &[s, b], match (&sv, &bv) {
                (Some(x), Some(y)) => strcmp_ref(x, y),
                _ => vec![N],
            });
            for sep in [a_str("ascii-1", ","), a_str("empty", ""), a_str("utf8-3byte", "\u{30fb}"), a_null()] {
                let w = match tx(&sep.v) {
                    None => vec![N],
                    Some(sp) => vec![t(&[&sv, &bv].iter().filter_map(|x| x.as_ref().map(|s| s.as_str())).collect::<Vec<_>>().join(&sp))],
                };
                g.call("CONCAT_WS", &[&sep, s, b], w);
            }
            if !q || s.cls == "ascii" || b.cls == "null" {
                let c = a_str("ascii-1", "!");
                g.call("CONCAT", &[s, b, &c], match (&sv, &bv) {
                    (Some(x), Some(y)) => vec![t(&format!("{x}{y}!"))],
                    _ => vec![N],
                });
            }
        }
    }
    for n in [a_int("n=-1", -1), a_int("n=0", 0), a_int("n=1", 1), a_int("n=5", 5), a_int("n=300", 300), a_null()] {
        let w = match &n.v {
            Int(k) => vec![t(&" ".repeat((*k).max(0) as usize))],
            _ => vec![N],
        };
        g.call("SPACE", &[&n], w);
    }
    g.call("CONCAT_WS", &[&a_str("ascii-1", ",")], vec![t(""), E]);
    // FORMAT(x, d)
    for x in &with_null(nums(q)) {
        for d in [a_int("d=-1", -1), a_int("d=0", 0), a_int("d=1", 1), a_int("d=2", 2), a_null()] {
            let w = match (&x.v, &d.v) {
                (Null, _) | (_, Null) => vec![N],
                (xv, Int(k)) => format_ref(xv, *k),
                _ => vec![Any],
            };
            g.call("FORMAT", &[x, &d], w);
        }
    }
    for (x, d, want) in [(a_flt("f-12332.25", 12332.25), 1, vec!["12,332.3", "12,332.2"]), (a_int("int-1234567", 1234567), 0, vec!["1,234,567"]), (a_int("int-neg1234567", -1234567), 2, vec!["-1,234,567.00"]), (a_int("int-999", 999), 0, vec!["999"])] {
        g.call("FORMAT", &[&x, &a_int(&format!("d={d}"), d)], want.iter().map(|s| t(s)).collect());
    }
}

// ------------------------------------------------------------------ numeric references
/// result of a floating computation: NaN is unconstrained, an overflow to inf may also be an error
fn fres(r: f64, inputs_finite: bool) -> Vec<Alt> {
    if r.is_nan() {
        vec![Any]
    } else if r.is_infinite() {
        if inputs_finite {
            vec![Val(Float(r)), E, N]
        } else {
            vec![Any]
        }
    } else {
        vec![Approx(r)]
    }
}
fn finite(v: &RV) -> bool {
    match v {
        Float(f) => f.is_finite(),
        _ => true,
    }
}
/// ROUND / TRUNCATE reference; mode 2 = truncate, otherwise both half modes are accepted
fn round_ref(x: &RV, d: i64, trunc: bool) -> Vec<Alt> {
    let modes: &[u8] = if trunc { &[2] } else { &[0, 1] };
    match x {
        Null => return vec![N],
        Float(f) if f.is_nan() || f.is_infinite() => return vec![Any],
        _ => {}
    }
    let Some((num, den)) = rational(x) else {
        // huge float (1e308 / 1e15): already integral, the value itself (or an out-of-range error)
        return match x {
            Float(f) => vec![Approx(*f), E],
            _ => vec![Any],
        };
    };
    let mut out = Vec::new();
    for &m in modes {
        let val: (i128, i128) = if d >= 0 {
            let s = 10i128.pow(d.min(18) as u32);
            (round_div(num * s, den, m), s) // value = .0 / .1
        } else {
            let p = 10i128.pow((-d).min(30) as u32);
            (round_div(num, den * p, m) * p, 1)
        };
        if val.1 == 1 || val.0 % val.1 == 0 {
            let iv = val.0 / val.1;
            if iv >= i64::MIN as i128 && iv <= i64::MAX as i128 {
                out.push(i(iv as i64));
            } else {
                out.push(E);
                out.push(Approx(iv as f64));
            }
        } else {
            out.push(Approx(val.0 as f64 / val.1 as f64));
        }
    }
    out
}
fn ceil_floor_ref(x: &RV, up: bool) -> Vec<Alt> {
    match x {
        Null => vec![N],
        Int(n) => vec![i(*n)],
        Float(f) if !f.is_finite() => vec![Any],
        Float(f) => {
            let v = if up { f.ceil() } else { f.floor() };
            if v.abs() < 9.2e18 {
                vec![i(v as i64)]
            } else {
                vec![Approx(v), E] // outside BIGINT: the double itself (MySQL) or an out-of-range error
            }
        }
        _ => vec![Any],
    }
}
fn minmax_ref(args: &[&A], greatest: bool) -> Vec<Alt> {
    if any_null(args) {
        return vec![N]; // MySQL: NULL if any argument is NULL
    }
    if args.iter().all(|a| matches!(a.v, Int(_))) {
        let it = args.iter().map(|a| if let Int(n) = a.v { n } else { 0 });
        return vec![i(if greatest { it.max().unwrap() } else { it.min().unwrap() })];
    }
    if args.iter().all(|a| matches!(a.v, Text(_))) {
        let it = args.iter().filter_map(|a| tx(&a.v));
        return vec![t(&if greatest { it.max().unwrap() } else { it.min().unwrap() })];
    }
    let fs: Vec<f64> = args.iter().filter_map(|a| nf(&a.v)).collect();
    if fs.len() != args.len() || fs.iter().any(|f| f.is_nan()) {
        return vec![Any];
    }
    let best = fs.iter().copied().fold(if greatest { f64::NEG_INFINITY } else { f64::INFINITY }, |m, x| if greatest { m.max(x) } else { m.min(x) });
    let mut out = vec![Approx(best)];
    if best.is_infinite() {
        out.push(Val(Float(best)));
    }
    for a in args {
        if let Int(n) = a.v {
            if (n as f64) == best {
                out.push(i(n)); // the exact integer argument is an equally good answer
            }
        }
    }
    out
}

fn gen_numeric(g: &mut Gen) {
    let q = g.quick;
    let nd = with_null(nums(q));
    for x in &nd {
        let xf = nf(&x.v);
        let fin = finite(&x.v);
        let f1 = |f: &dyn Fn(f64) -> Vec<Alt>| match xf {
            None => vec![N],
            Some(v) => f(v),
        };
        g.call("ABS", &[x], match &x.v {
            Null => vec![N],
            Int(i64::MIN) => vec![E],
            Int(n) => vec![i(n.abs())],
            Float(f) if f.is_nan() => vec![Any],
            Float(f) => vec![Val(Float(f.abs()))],
            _ => vec![Any],
        });
        g.call("SIGN", &[x], match &x.v {
            Null => vec![N],
            Int(n) => vec![i(n.signum())],
            Float(f) if f.is_nan() => vec![Any],
            Float(f) => vec![i(if *f > 0.0 { 1 } else if *f < 0.0 { -1 } else { 0 })],
            _ => vec![Any],
        });
        g.calls(&["CEIL", "CEILING"], &[x], ceil_floor_ref(&x.v, true));
        g.call("FLOOR", &[x], ceil_floor_ref(&x.v, false));
        g.call("ROUND", &[x], round_ref(&x.v, 0, false));
        g.call("TRUNC", &[x], round_ref(&x.v, 0, true));
        for d in [a_int("d=-1", -1), a_int("d=0", 0), a_int("d=1", 1), a_int("d=2", 2), a_null()] {
            let w = |tr: bool| match (&x.v, &d.v) {
                (Null, _) | (_, Null) => vec![N],
                (xv, Int(k)) => round_ref(xv, *k, tr),
                _ => vec![Any],
            };
            g.call("ROUND", &[x, &d], w(false));
            g.calls(&["TRUNCATE", "TRUNC"], &[x, &d], w(true));
        }
        g.call("SQRT", &[x], f1(&|v| if v < 0.0 { vec![N, E] } else { fres(v.sqrt(), fin) }));
        g.call("EXP", &[x], f1(&|v| fres(v.exp(), fin)));
        let logf = |f: fn(f64) -> f64| f1(&|v| if v.is_nan() { vec![Any] } else if v <= 0.0 { vec![N, E] } else { fres(f(v), fin) });
        g.calls(&["LN", "LOG"], &[x], logf(f64::ln));
        g.call("LOG2", &[x], logf(f64::log2));
        g.call("LOG10", &[x], logf(f64::log10));
        g.call("SIN", &[x], f1(&|v| fres(v.sin(), fin)));
        g.call("COS", &[x], f1(&|v| fres(v.cos(), fin)));
        g.call("TAN", &[x], f1(&|v| fres(v.tan(), fin)));
        g.call("ATAN", &[x], f1(&|v| fres(v.atan(), fin)));
        g.call("ASIN", &[x], f1(&|v| if v.is_nan() { vec![Any] } else if !(-1.0..=1.0).contains(&v) { vec![N, E] } else { fres(v.asin(), fin) }));
        g.call("ACOS", &[x], f1(&|v| if v.is_nan() { vec![Any] } else if !(-1.0..=1.0).contains(&v) { vec![N, E] } else { fres(v.acos(), fin) }));
        g.call("COT", &[x], f1(&|v| if v == 0.0 { vec![N, E] } else { fres(1.0 / v.tan(), fin) }));
        g.call("DEGREES", &[x], f1(&|v| fres(v * (180.0 / std::f64::consts::PI), fin)));
        g.call("RADIANS", &[x], f1(&|v| fres(v * (std::f64::consts::PI / 180.0), fin)));
        // BIN (integers only: conversion of fractions is not pinned down)
        if let Int(n) = x.v {
            g.call("BIN", &[x], vec![t(&format!("{:b}", n as u64))]);
            g.calls(&["RAND", "RANDOM"], &[x], vec![Pred("unit-interval")]);
            let sql = format!("RAND({0}) = RAND({0})", x.sql);
            g.add("RAND", sql, format!("({0})=({0})", x.cls), vec![i(1)], true);
        }
        if x.v == Null {
            g.call("BIN", &[x], vec![N]);
        }
        for y in &nd {
            let yf = nf(&y.v);
            let fin2 = fin && finite(&y.v);
            let two = |f: &dyn Fn(f64, f64) -> Vec<Alt>| match (xf, yf) {
                (Some(a), Some(b)) => f(a, b),
                _ => vec![N],
            };
            // MOD: exact on integers, fmod otherwise; divisor 0 -> NULL
            g.call("MOD", &[x, y], match (&x.v, &y.v) {
                (Null, _) | (_, Null) => vec![N],
                (_, Int(0)) => vec![N, E],
                (_, Float(b)) if *b == 0.0 => vec![N, E],
                (Int(a), Int(b)) => vec![i(if *b == -1 { 0 } else { a % b })],
                _ => fres(xf.unwrap() % yf.unwrap(), fin2),
            });
            if let (Int(_) | Null, Int(_) | Null) = (&x.v, &y.v) {
                g.call("DIV", &[x, y], match (&x.v, &y.v) {
                    (Int(_), Int(0)) => vec![N, E],
                    (Int(i64::MIN), Int(-1)) => vec![E],
                    (Int(a), Int(b)) => vec![i(a / b)],
                    _ => vec![N],
                });
            }
            g.calls(&["POW", "POWER"], &[x, y], two(&|a, b| {
                let r = a.powf(b);
                let mut w = fres(r, fin2);
                if a == 0.0 && b < 0.0 {
                    w = vec![Val(Float(f64::INFINITY)), Val(Float(f64::NEG_INFINITY)), E, N];
                }
                w
            }));
            g.call("ATAN2", &[x, y], two(&|a, b| fres(a.atan2(b), fin2)));
            g.call("LOG", &[x, y], two(&|b, v| {
                if b.is_nan() || v.is_nan() {
                    vec![Any]
                } else if b <= 0.0 || b == 1.0 || v <= 0.0 {
                    vec![N, E]
                } else {
                    let r = v.ln() / b.ln();
                    if r.is_finite() { vec![Approx(r)] } else { vec![Any] }
                }
            }));
            g.call("GREATEST", &[x, y], minmax_ref(&[x, y], true));
            g.call("LEAST", &[x, y], minmax_ref(&[x, y], false));
            if !q {
                let z = a_int("int-1", 1);
                g.call("GREATEST", &[x, y, &z], minmax_ref(&[x, y, &z], true));
                g.call("LEAST", &[x, y, &z], minmax_ref(&[x, y, &z], false));
            }
        }
    }
    g.call("PI", &[], vec![Approx(std::f64::consts::PI)]);
    g.calls(&["RAND", "RANDOM"], &[], vec![Pred("unit-interval")]);
    for s in [["abc", "abd", "b"], ["b", "abd", "abc"], ["abc", "abc", "ab"]] {
        let a: Vec<A> = s.iter().map(|x| a_str("ascii", x)).collect();
        g.call("GREATEST", &[&a[0], &a[1], &a[2]], minmax_ref(&[&a[0], &a[1], &a[2]], true));
        g.call("LEAST", &[&a[0], &a[1], &a[2]], minmax_ref(&[&a[0], &a[1], &a[2]], false));
    }
    g.call("GREATEST", &[&a_int("int-1", 1)], vec![i(1), E]);
    g.call("LEAST", &[&a_int("int-1", 1)], vec![i(1), E]);
    // extra rounding probes away from the half-multiples of the main domain
    for (x, d, want) in [(a_flt("f-1.29", 1.29), 1, 1.3), (a_flt("f-neg1.29", -1.29), 1, -1.3), (a_flt("f-123.456", 123.456), 2, 123.46), (a_flt("f-123.456", 123.456), -2, 100.0), (a_int("int-15", 15), -1, 20.0), (a_int("int-neg15", -15), -1, -20.0), (a_int("int-149", 149), -2, 100.0)] {
        let mut w = vec![Approx(want)];
        if x.cls == "int-15" || x.cls == "int-neg15" {
            w.push(Approx(want)); // both half modes agree on 20 (odd quotient)
        }
        g.call("ROUND", &[&x, &a_int(&format!("d={d}"), d)], w);
    }
    for (x, d, want) in [(a_flt("f-1.29", 1.29), 1, 1.2), (a_flt("f-neg1.29", -1.29), 1, -1.2), (a_flt("f-123.456", 123.456), -2, 100.0), (a_int("int-199", 199), -2, 100.0), (a_int("int-neg199", -199), -1, -190.0)] {
        g.calls(&["TRUNCATE", "TRUNC"], &[&x, &a_int(&format!("d={d}"), d)], vec![Approx(want)]);
    }
    // CONV (manual examples + base limits)
    let conv = |g: &mut Gen, n: A, from: i64, to: i64, want: Vec<Alt>| {
        g.call("CONV", &[&n, &a_int(&format!("base={from}"), from), &a_int(&format!("base={to}"), to)], want);
    };
    conv(g, a_str("hex-a", "a"), 16, 2, vec![t("1010")]);
    conv(g, a_str("b18-6E", "6E"), 18, 8, vec![t("172")]);
    conv(g, a_int("int-neg17", -17), 10, -18, vec![t("-H")]);
    conv(g, a_int("int-255", 255), 10, 16, vec![t("FF")]);
    conv(g, a_str("hex-ff", "ff"), 16, 10, vec![t("255")]);
    conv(g, a_int("int-neg1", -1), 10, 16, vec![t("FFFFFFFFFFFFFFFF")]);
    conv(g, a_int("int-0", 0), 10, 2, vec![t("0")]);
    conv(g, a_str("dec-10", "10"), 1, 10, vec![N]);
    conv(g, a_str("dec-10", "10"), 10, 37, vec![N]);
    conv(g, a_str("invalid-digits", "zz"), 10, 10, vec![t("0")]);
    conv(g, a_null(), 10, 2, vec![N]);
    g.call("CONV", &[&a_int("int-255", 255), &a_null(), &a_int("base=16", 16)], vec![N]);
    g.call("CONV", &[&a_int("int-255", 255), &a_int("base=10", 10), &a_null()], vec![N]);
}

// ------------------------------------------------------------------ arithmetic operators
fn arith_ref(op: char, a: &RV, b: &RV) -> Vec<Alt> {
    match (a, b) {
        (Null, _) | (_, Null) => vec![N],
        (Int(x), Int(y)) => {
            let (x, y) = (*x, *y);
            let ck = |r: Option<i64>| r.map(|v| vec![i(v)]).unwrap_or(vec![E]);
            match op {
                '+' => ck(x.checked_add(y)),
                '-' => ck(x.checked_sub(y)),
                '*' => ck(x.checked_mul(y)),
                '/' if y == 0 => vec![N, E],
                '%' if y == 0 => vec![N, E],
                '/' => match x.checked_div(y) {
                    // integer division (PostgreSQL/SQLite) or exact quotient (MySQL) are both common
                    Some(qv) => vec![i(qv), Approx(x as f64 / y as f64)],
                    None => vec![E, Approx(x as f64 / y as f64)],
                },
                _ => vec![i(if y == -1 { 0 } else { x % y })],
            }
        }
        _ => {
            let (x, y) = (nf(a).unwrap(), nf(b).unwrap());
            if (op == '/' || op == '%') && y == 0.0 {
                return vec![N, E];
            }
            let r = match op {
                '+' => x + y,
                '-' => x - y,
                '*' => x * y,
                '/' => x / y,
                _ => x % y,
            };
            fres(r, x.is_finite() && y.is_finite())
        }
    }
}
fn gen_arith(g: &mut Gen) {
    let nd = with_null(nums(g.quick));
    for x in &nd {
        let w = match &x.v {
            Null => vec![N],
            Int(i64::MIN) => vec![E],
            Int(n) => vec![i(-n)],
            Float(f) if f.is_nan() => vec![Any],
            Float(f) => vec![Val(Float(-f))],
            _ => vec![Any],
        };
        g.add("op:neg", format!("-({})", x.sql), format!("({})", x.cls), w, x.v != Null);
        for y in &nd {
            for (op, name) in [('+', "op:+"), ('-', "op:-"), ('*', "op:mul"), ('/', "op:div"), ('%', "op:%")] {
                g.add(name, format!("{} {} {}", x.sql, op, y.sql), format!("({},{})", x.cls, y.cls), arith_ref(op, &x.v, &y.v), x.v != Null || y.v != Null);
            }
        }
    }
}

// ------------------------------------------------------------------ date / time references
const DAY_NAMES: [&str; 7] = ["Sunday", "Monday", "Tuesday", "Wednesday", "Thursday", "Friday", "Saturday"];
const MONTH_NAMES: [&str; 12] = ["January", "February", "March", "April", "May", "June", "July", "August", "September", "October", "November", "December"];

fn a_dt(s: &str) -> A {
    let kind = match cal::parse_dt(s) {
        Some(cal::DT { date: Some(_), time: Some(_) }) => "datetime",
        Some(cal::DT { date: Some(_), time: None }) => "date",
        Some(cal::DT { date: None, .. }) => "time",
        None => "invalid",
    };
    A { sql: format!("'{s}'"), cls: format!("{kind}={}", s.replace(' ', "T")), v: Text(s.to_string()) }
}
fn boundary_dates(quick: bool) -> Vec<A> {
    let mut v: Vec<&str> = vec!["0001-01-01", "1582-10-15", "1899-12-31", "1900-02-28", "1900-03-01", "1969-12-31", "1970-01-01", "1999-12-31", "2000-02-29", "2000-03-01", "2023-02-28", "2024-02-29", "2024-12-31", "2038-01-19", "9999-12-31"];
    if !quick {
        v.extend(["0004-02-29", "0100-03-01", "1000-01-01", "1600-02-29", "1700-03-01", "1752-09-14", "2000-01-01", "2001-01-01", "2004-12-31", "2005-01-01", "2005-01-02", "2008-12-29", "2010-01-03", "2020-12-31", "2021-01-03", "2021-01-04", "2100-02-28", "2100-03-01", "2400-02-29", "9999-01-01"]);
    }
    v.into_iter().map(a_dt).collect()
}
fn boundary_datetimes() -> Vec<A> {
    ["2024-02-29 00:00:00", "2024-02-29 23:59:59", "1999-12-31 12:30:45", "0001-01-01 00:00:01", "9999-12-31 23:59:59", "2024-02-29 23:59:59.999999", "2000-01-01 09:05:07.5"].into_iter().map(a_dt).collect()
}
fn boundary_times() -> Vec<A> {
    ["00:00:00", "00:00:01", "12:30:45", "23:59:59", "09:05:07", "12:30:45.123456", "12:30:45.5"].into_iter().map(a_dt).collect()
}
fn invalid_dates() -> Vec<A> {
    ["2023-02-30", "2024-13-01", "2024-00-10", "abc", ""].into_iter().map(a_dt).collect()
}
fn hms(secs: i64) -> String {
    let s = secs.abs();
    format!("{}{:02}:{:02}:{:02}", if secs < 0 { "-" } else { "" }, s / 3600, s % 3600 / 60, s % 60)
}
fn fmt_datetime(days: i64, secs: i64) -> String {
    let (y, m, d) = cal::civil_from_days(days);
    format!("{} {:02}:{:02}:{:02}", cal::fmt_date(y, m, d), secs / 3600, secs % 3600 / 60, secs % 60)
}
fn ordinal(d: u32) -> &'static str {
    match (d % 100, d % 10) {
        (11..=13, _) => "th",
        (_, 1) => "st",
        (_, 2) => "nd",
        (_, 3) => "rd",
        _ => "th",
    }
}
/// MySQL DATE_FORMAT
fn date_format_ref(dt: &cal::DT, fmt: &str) -> String {
    let (y, m, d) = dt.date.unwrap_or((0, 0, 0));
    let (h, mi, s, us) = dt.time.unwrap_or((0, 0, 0, 0));
    let days = cal::days_from_civil(y.max(1), m.max(1), d.max(1));
    let wd = cal::weekday(days) as usize;
    let h12 = if h % 12 == 0 { 12 } else { h % 12 };
    let ampm = if h < 12 { "AM" } else { "PM" };
    let wk = |mode: u32| cal::mysql_week(y, m, d, mode, false).0;
    let wky = |mode: u32| cal::mysql_week(y, m, d, mode, true);
    let mut out = String::new();
    let mut it = fmt.chars();
    while let Some(c) = it.next() {
        if c != '%' {
            out.push(c);
            continue;
        }
        let Some(sp) = it.next() else {
            out.push('%');
            break;
        };
        match sp {
            'a' => out.push_str(&DAY_NAMES[wd][..3]),
            'b' => out.push_str(&MONTH_NAMES[m as usize - 1][..3]),
            'c' => out.push_str(&m.to_string()),
            'D' => out.push_str(&format!("{d}{}", ordinal(d))),
            'd' => out.push_str(&format!("{d:02}")),
            'e' => out.push_str(&d.to_string()),
            'f' => out.push_str(&format!("{us:06}")),
            'H' => out.push_str(&format!("{h:02}")),
            'h' | 'I' => out.push_str(&format!("{h12:02}")),
            'i' => out.push_str(&format!("{mi:02}")),
            'j' => out.push_str(&format!("{:03}", cal::doy(y, m, d))),
            'k' => out.push_str(&h.to_string()),
            'l' => out.push_str(&h12.to_string()),
            'M' => out.push_str(MONTH_NAMES[m as usize - 1]),
            'm' => out.push_str(&format!("{m:02}")),
            'p' => out.push_str(ampm),
            'r' => out.push_str(&format!("{h12:02}:{mi:02}:{s:02} {ampm}")),
            'S' | 's' => out.push_str(&format!("{s:02}")),
            'T' => out.push_str(&format!("{h:02}:{mi:02}:{s:02}")),
            'U' => out.push_str(&format!("{:02}", wk(0))),
            'u' => out.push_str(&format!("{:02}", wk(1))),
            'V' => out.push_str(&format!("{:02}", wky(2).0)),
            'v' => out.push_str(&format!("{:02}", wky(3).0)),
            'W' => out.push_str(DAY_NAMES[wd]),
            'w' => out.push_str(&wd.to_string()),
            'X' => out.push_str(&format!("{:04}", wky(2).1)),
            'x' => out.push_str(&format!("{:04}", wky(3).1)),
            'Y' => out.push_str(&format!("{y:04}")),
            'y' => out.push_str(&format!("{:02}", y % 100)),
            other => out.push(other),
        }
    }
    out
}

fn gen_dates(g: &mut Gen) {
    let q = g.quick;
    let dates = boundary_dates(q);
    let dts = boundary_datetimes();
    let times = boundary_times();
    let invalid = invalid_dates();
    let null = a_null();
    let rej = || vec![N, E];
    // ---- the six calendar functions are enumerated over every date by C41: here only NULL propagation
    for f in ["TO_DAYS", "FROM_DAYS", "DAYOFWEEK", "DAYOFYEAR", "LAST_DAY"] {
        g.call(f, &[&null], vec![N]);
    }
    g.call("DATEDIFF", &[&null, &dates[0]], vec![N]);
    g.call("DATEDIFF", &[&dates[0], &null], vec![N]);
    // ---- now
    for f in ["NOW", "CURRENT_TIMESTAMP", "LOCALTIME", "LOCALTIMESTAMP", "SYSDATE"] {
        g.call(f, &[], vec![Pred("datetime-now")]);
    }
    for f in ["CURDATE", "CURRENT_DATE"] {
        g.call(f, &[], vec![Pred("date-now")]);
    }
    for f in ["CURTIME", "CURRENT_TIME"] {
        g.call(f, &[], vec![Pred("time-now")]);
    }
    for (kw, p) in [("CURRENT_TIMESTAMP", "datetime-now"), ("CURRENT_DATE", "date-now"), ("CURRENT_TIME", "time-now")] {
        g.add(&format!("{kw}[keyword]"), kw.to_string(), "(no-parens)".into(), vec![Pred(p)], true);
    }
    // ---- extraction from dates / datetimes / times
    let mut inputs: Vec<A> = dates.clone();
    inputs.extend(dts.clone());
    inputs.extend(times.clone());
    inputs.extend(invalid.clone());
    inputs.push(null.clone());
    for x in &inputs {
        let p = tx(&x.v).and_then(|s| cal::parse_dt(&s));
        let isnull = x.v == Null;
        let on_date = |f: &dyn Fn(i64, u32, u32) -> Vec<Alt>| {
            if isnull {
                vec![N]
            } else {
                match p {
                    Some(cal::DT { date: Some((y, m, d)), .. }) => f(y, m, d),
                    Some(_) => vec![Any], // a bare time where a date is expected: not pinned down
                    None => rej(),
                }
            }
        };
        let on_time = |f: &dyn Fn(u32, u32, u32, u32) -> Vec<Alt>| {
            if isnull {
                vec![N]
            } else {
                match p {
                    Some(cal::DT { time: Some((h, m, s, us)), .. }) => f(h, m, s, us),
                    Some(_) => vec![Any], // a bare date read as a TIME value: not pinned down
                    None => vec![Any],    // MySQL reads garbage as a TIME in several ways
                }
            }
        };
        g.call("DATE", &[x], on_date(&|y, m, d| vec![t(&cal::fmt_date(y, m, d))]));
        g.call("YEAR", &[x], on_date(&|y, _, _| vec![i(y)]));
        g.call("MONTH", &[x], on_date(&|_, m, _| vec![i(m as i64)]));
        g.calls(&["DAY", "DAYOFMONTH"], &[x], on_date(&|_, _, d| vec![i(d as i64)]));
        g.call("QUARTER", &[x], on_date(&|_, m, _| vec![i((m as i64 + 2) / 3)]));
        g.call("DAYNAME", &[x], on_date(&|y, m, d| vec![t(DAY_NAMES[cal::weekday(cal::days_from_civil(y, m, d)) as usize])]));
        g.call("MONTHNAME", &[x], on_date(&|_, m, _| vec![t(MONTH_NAMES[m as usize - 1])]));
        g.call("WEEKDAY", &[x], on_date(&|y, m, d| vec![i(((cal::weekday(cal::days_from_civil(y, m, d)) + 6) % 7) as i64)]));
        // WEEK: the default mode is a server setting; any of the eight documented modes is accepted
        g.call("WEEK", &[x], on_date(&|y, m, d| {
            let s: BTreeSet<i64> = (0..8).map(|md| cal::mysql_week(y, m, d, md, false).0).collect();
            s.into_iter().map(i).collect()
        }));
        g.call("WEEKOFYEAR", &[x], on_date(&|y, m, d| vec![i(cal::iso_week(y, m, d))]));
        g.call("YEARWEEK", &[x], on_date(&|y, m, d| {
            let s: BTreeSet<i64> = (0..8).map(|md| { let (w, yy) = cal::mysql_week(y, m, d, md, true); yy * 100 + w }).collect();
            s.into_iter().map(i).collect()
        }));
        g.call("HOUR", &[x], on_time(&|h, _, _, _| vec![i(h as i64)]));
        g.call("MINUTE", &[x], on_time(&|_, m, _, _| vec![i(m as i64)]));
        g.call("SECOND", &[x], on_time(&|_, _, s, _| vec![i(s as i64)]));
        g.call("MICROSECOND", &[x], on_time(&|_, _, _, us| vec![i(us as i64)]));
        g.call("TIME_TO_SEC", &[x], on_time(&|h, m, s, _| vec![i((h * 3600 + m * 60 + s) as i64)]));
        g.call("TIME", &[x], on_time(&|h, m, s, us| {
            let base = format!("{h:02}:{m:02}:{s:02}");
            if us == 0 { vec![t(&base)] } else { vec![t(&format!("{base}.{us:06}")), t(&format!("{base}.{}", format!("{us:06}").trim_end_matches('0')))] }
        }));
        // TIMESTAMP(x)
        g.call("TIMESTAMP", &[x], if isnull { vec![N] } else {
            match p {
                Some(cal::DT { date: Some((y, m, d)), time }) => {
                    let (h, mi, s, us) = time.unwrap_or((0, 0, 0, 0));
                    let base = format!("{} {h:02}:{mi:02}:{s:02}", cal::fmt_date(y, m, d));
                    if us == 0 { vec![t(&base)] } else { vec![t(&format!("{base}.{us:06}")), t(&format!("{base}.{}", format!("{us:06}").trim_end_matches('0')))] }
                }
                Some(_) => vec![Any],
                None => rej(),
            }
        });
        // DATE_FORMAT / TIME_FORMAT / STRFTIME
        let fmts: Vec<&str> = if q { vec!["%Y-%m-%d", "%y", "%c", "%e", "%D", "%j", "%M", "%b", "%W", "%a", "%w", "%H:%i:%s", "%T", "%r", "%h", "%l", "%k", "%p", "%f", "%%", "%U", "%v", "plain", ""] } else { vec!["%Y", "%y", "%m", "%c", "%d", "%e", "%D", "%j", "%M", "%b", "%W", "%a", "%w", "%H", "%k", "%h", "%I", "%l", "%i", "%s", "%S", "%p", "%T", "%r", "%f", "%%", "%U", "%u", "%V", "%v", "%X", "%x", "%Y-%m-%d %H:%i:%s", "x%Yx", "%q", "plain", ""] };
        for f in fmts {
            let fa = A { sql: format!("'{f}'"), cls: format!("fmt={f}"), v: Text(f.to_string()) };
            let want = if isnull { vec![N] } else {
                match p {
                    Some(dtv @ cal::DT { date: Some(_), .. }) => vec![t(&date_format_ref(&dtv, f))],
                    Some(_) => vec![Any],
                    None => rej(),
                }
            };
            g.call("DATE_FORMAT", &[x, &fa], want.clone());
            // second pass in the argument order the implementation's own module doc uses, so that
            // every specifier is still explored behind the swapped-arguments defect
            g.add("DATE_FORMAT[fmt-first]", format!("DATE_FORMAT({}, {})", fa.sql, x.sql), format!("({},{})", fa.cls, x.cls), want.clone(), !isnull);
            g.add("STRFTIME", format!("STRFTIME({}, {})", fa.sql, x.sql), format!("({},{})", fa.cls, x.cls), if isnull { vec![N] } else { vec![Any] }, !isnull);
            let time_only = ["%H", "%k", "%h", "%I", "%l", "%i", "%s", "%S", "%p", "%T", "%r", "%f", "%H:%i:%s", "%%", "plain", ""].contains(&f);
            if time_only {
                let wt = if isnull { vec![N] } else {
                    match p {
                        Some(cal::DT { time: Some(tm), .. }) => vec![t(&date_format_ref(&cal::DT { date: None, time: Some(tm) }, f))],
                        _ => vec![Any],
                    }
                };
                g.call("TIME_FORMAT", &[x, &fa], wt.clone());
                g.add("TIME_FORMAT[fmt-first]", format!("TIME_FORMAT({}, {})", fa.sql, x.sql), format!("({},{})", fa.cls, x.cls), wt, !isnull);
            }
        }
    }
    g.call("DATE_FORMAT", &[&dates[0], &null], vec![N]);
    g.call("TIME_FORMAT", &[&times[0], &null], vec![N]);
    // ---- date arithmetic (dates only; invalid dates belong to C41)
    let mut ns = vec![a_int("n=0", 0), a_int("n=1", 1), a_int("n=-1", -1), a_int("n=365", 365), a_int("n=2p31", 1 << 31), a_int("n=int-max", i64::MAX), a_null()];
    if !q {
        ns.extend([a_int("n=-366", -366), a_int("n=146097", 146097), a_int("n=int-min", i64::MIN), a_int("n=3652424", 3652424)]);
    }
    let mut dn = dates.clone();
    dn.push(null.clone());
    for x in &dn {
        let base = tx(&x.v).and_then(|s| cal::parse_dt(&s)).and_then(|p| p.date).map(|(y, m, d)| cal::days_from_civil(y, m, d));
        for n in &ns {
            for (names, sign) in [(["DATE_ADD", "ADDDATE"], 1i128), (["DATE_SUB", "SUBDATE"], -1i128)] {
                let w = match (base, &n.v) {
                    (Some(b), Int(k)) => {
                        let r = b as i128 + sign * *k as i128;
                        if r >= cal::MIN_DAY as i128 && r <= cal::MAX_DAY as i128 {
                            let (y, m, d) = cal::civil_from_days(r as i64);
                            vec![t(&cal::fmt_date(y, m, d))]
                        } else if r < cal::MIN_DAY as i128 && r >= cal::days_from_civil(0, 1, 1) as i128 {
                            // year 0000: outside the documented range, but MySQL answers with the proleptic date
                            let (y, m, d) = cal::civil_from_days(r as i64);
                            vec![N, E, t(&cal::fmt_date(y, m, d))]
                        } else {
                            vec![N, E] // outside 0000-01-01..9999-12-31
                        }
                    }
                    _ => vec![N],
                };
                g.calls(&names, &[x, n], w);
            }
        }
    }
    // ---- time arithmetic
    let mut tn = times[..5].to_vec();
    tn.push(null.clone());
    let secs_of = |a: &A| tx(&a.v).and_then(|s| cal::parse_dt(&s)).and_then(|p| p.time).map(|(h, m, s, _)| (h * 3600 + m * 60 + s) as i64);
    for a in &tn {
        for b in &tn {
            let (sa, sb) = (secs_of(a), secs_of(b));
            g.call("ADDTIME", &[a, b], match (sa, sb) { (Some(x), Some(y)) => vec![t(&hms(x + y))], _ => vec![N] });
            g.call("SUBTIME", &[a, b], match (sa, sb) { (Some(x), Some(y)) => vec![t(&hms(x - y))], _ => vec![N] });
            g.call("TIMEDIFF", &[a, b], match (sa, sb) { (Some(x), Some(y)) => vec![t(&hms(x - y))], _ => vec![N] });
        }
    }
    let full = |a: &A| tx(&a.v).and_then(|s| cal::parse_dt(&s)).and_then(|p| match (p.date, p.time) {
        (Some((y, m, d)), Some((h, mi, s, _))) => Some((cal::days_from_civil(y, m, d), (h * 3600 + mi * 60 + s) as i64)),
        _ => None,
    });
    for a in &dts[..5] {
        for b in &tn {
            let w = |sign: i64| match (full(a), secs_of(b)) {
                (Some((d, s)), Some(y)) => {
                    let tot = d * 86400 + s + sign * y;
                    let (nd, ns2) = (tot.div_euclid(86400), tot.rem_euclid(86400));
                    if nd > cal::MAX_DAY || nd < cal::days_from_civil(0, 1, 1) { vec![N, E] } else if nd < cal::MIN_DAY { vec![N, E, t(&fmt_datetime(nd, ns2))] } else { vec![t(&fmt_datetime(nd, ns2))] }
                }
                _ => vec![N],
            };
            g.call("ADDTIME", &[a, b], w(1));
            g.call("SUBTIME", &[a, b], w(-1));
            g.call("TIMESTAMP", &[a, b], w(1));
        }
        for b in &dts[..5] {
            let w = match (full(a), full(b)) {
                (Some((d1, s1)), Some((d2, s2))) => {
                    let diff = (d1 - d2) * 86400 + s1 - s2;
                    if diff.abs() > 3020399 { vec![t(&hms(3020399 * diff.signum())), t(&hms(diff)), N, E] } else { vec![t(&hms(diff))] }
                }
                _ => vec![N],
            };
            g.call("TIMEDIFF", &[a, b], w);
        }
    }
    g.call("TIMESTAMP", &[&dates[11], &times[2]], vec![t("2024-02-29 12:30:45")]);
    // ---- SEC_TO_TIME / MAKETIME / MAKEDATE / PERIOD_*
    for n in with_null([0i64, 1, 59, 60, 3599, 3600, 86399, 86400, -1, -3600, 3020399, 1 << 31, i64::MAX, i64::MIN].iter().map(|k| a_int(&format!("n={k}"), *k)).collect()) {
        let w = match &n.v {
            Int(k) if k.unsigned_abs() <= 3020399 => vec![t(&hms(*k))],
            Int(_) => vec![Any], // beyond the TIME range: clamp / error / plain arithmetic are all plausible
            _ => vec![N],
        };
        g.call("SEC_TO_TIME", &[&n], w);
    }
    let hs = with_null(vec![a_int("h=0", 0), a_int("h=12", 12), a_int("h=23", 23), a_int("h=100", 100)]);
    let ms = with_null(vec![a_int("m=0", 0), a_int("m=59", 59), a_int("m=60", 60), a_int("m=-1", -1)]);
    for h in &hs {
        for m in &ms {
            for s in &ms {
                let w = match (&h.v, &m.v, &s.v) {
                    (Int(a), Int(b), Int(c)) => if (0..60).contains(b) && (0..60).contains(c) { vec![t(&format!("{a:02}:{b:02}:{c:02}"))] } else { vec![N] },
                    _ => vec![N],
                };
                g.call("MAKETIME", &[h, m, s], w);
            }
        }
    }
    let ys = with_null(vec![a_int("y=1900", 1900), a_int("y=2000", 2000), a_int("y=2023", 2023), a_int("y=2024", 2024), a_int("y=9999", 9999)]);
    let ds = with_null([-1i64, 0, 1, 59, 60, 365, 366, 367, 1 << 31, i64::MAX].iter().map(|k| a_int(&format!("doy={k}"), *k)).collect());
    for y in &ys {
        for d in &ds {
            let w = match (&y.v, &d.v) {
                (Int(yy), Int(k)) => {
                    if *k < 1 { vec![N] } else {
                        let r = cal::days_from_civil(*yy, 1, 1) as i128 + *k as i128 - 1;
                        if r > cal::MAX_DAY as i128 { vec![N] } else { let (a, b, c) = cal::civil_from_days(r as i64); vec![t(&cal::fmt_date(a, b, c))] }
                    }
                }
                _ => vec![N],
            };
            g.call("MAKEDATE", &[y, d], w);
        }
    }
    let ps = with_null(vec![a_int("p=200801", 200801), a_int("p=202412", 202412), a_int("p=199912", 199912), a_int("p=100001", 100001)]);
    let pn = with_null(vec![a_int("n=0", 0), a_int("n=1", 1), a_int("n=2", 2), a_int("n=-1", -1), a_int("n=12", 12), a_int("n=-13", -13)]);
    for p in &ps {
        for n in &pn {
            let w = match (&p.v, &n.v) {
                (Int(pp), Int(k)) => { let mo = (pp / 100) * 12 + pp % 100 - 1 + k; vec![i(mo.div_euclid(12) * 100 + mo.rem_euclid(12) + 1)] }
                _ => vec![N],
            };
            g.call("PERIOD_ADD", &[p, n], w);
        }
        for p2 in &ps {
            let w = match (&p.v, &p2.v) {
                (Int(a), Int(b)) => vec![i((a / 100 * 12 + a % 100) - (b / 100 * 12 + b % 100))],
                _ => vec![N],
            };
            g.call("PERIOD_DIFF", &[p, p2], w);
        }
    }
    // ---- STR_TO_DATE
    for (s, f, want) in [
        ("2024-01-15", "%Y-%m-%d", vec![t("2024-01-15")]),
        ("15/01/2024", "%d/%m/%Y", vec![t("2024-01-15")]),
        ("01,5,2013", "%d,%m,%Y", vec![t("2013-05-01")]),
        ("May 1, 2013", "%M %d,%Y", vec![t("2013-05-01")]),
        ("2024-01-15 10:20:30", "%Y-%m-%d %H:%i:%s", vec![t("2024-01-15 10:20:30")]),
        ("abc", "%Y-%m-%d", vec![N, E]),
        ("2023-02-30", "%Y-%m-%d", vec![N, E]),
    ] {
        let sa = A { sql: format!("'{s}'"), cls: format!("str={}", s.replace(' ', "T").replace('/', "|")), v: Text(s.into()) };
        let fa = A { sql: format!("'{f}'"), cls: format!("fmt={}", f.replace(' ', "T").replace('/', "|")), v: Text(f.into()) };
        g.call("STR_TO_DATE", &[&sa, &fa], want);
    }
    g.call("STR_TO_DATE", &[&null, &a_str("fmt=%Y", "%Y")], vec![N]);
    g.call("STR_TO_DATE", &[&a_str("str=2024", "2024"), &null], vec![N]);
}

// ------------------------------------------------------------------ system / control flow / CASE / CAST
fn truthy(v: &RV) -> Option<bool> {
    match v {
        Null => None,
        Int(n) => Some(*n != 0),
        Float(f) => Some(*f != 0.0),
        Bool(b) => Some(*b),
        _ => None,
    }
}
fn sql_eq(a: &RV, b: &RV) -> Option<bool> {
    if *a == Null || *b == Null {
        return None;
    }
    Some(num_eq(a, b))
}
fn gen_system(g: &mut Gen) {
    let q = g.quick;
    g.call("VERSION", &[], vec![Pred("nonempty-text")]);
    for f in ["DATABASE", "CURRENT_DATABASE"] {
        g.call(f, &[], vec![Pred("text-or-null")]);
    }
    for f in ["USER", "CURRENT_USER", "SESSION_USER", "SYSTEM_USER"] {
        g.call(f, &[], vec![Pred("nonempty-text")]);
    }
    g.call("CONNECTION_ID", &[], vec![Pred("nonneg-int")]);
    g.call("LAST_INSERT_ID", &[], vec![i(0)]);
    // values of every type class
    let mut vals: Vec<A> = vec![a_int("int-0", 0), a_int("int-1", 1), a_int("int-neg1", -1), a_int("int-max", i64::MAX), a_flt("f-0", 0.0), a_flt("f-2.5", 2.5), a_flt("f-1", 1.0), a_str("empty", ""), a_str("ascii", "abc"), a_str("utf8-3byte", "\u{65e5}\u{672c}"), a_null()];
    if !q {
        vals.extend([a_int("int-min", i64::MIN), a_flt("f-neg0", -0.0), a_flt("f-1e308", 1e308), a_str("long300", &long300())]);
    }
    let same = |a: &A| match &a.v {
        Null => vec![N],
        v => vec![Val(v.clone())],
    };
    for a in &vals {
        g.call("TYPEOF", &[a], match &a.v {
            Null => vec![t("null"), t("NULL")],
            Int(_) => vec![t("integer"), t("int"), t("bigint"), t("INTEGER"), t("BIGINT"), t("INT")],
            Float(_) => vec![t("real"), t("float"), t("double"), t("REAL"), t("FLOAT"), t("DOUBLE")],
            _ => vec![t("text"), t("TEXT"), t("varchar"), t("VARCHAR")],
        });
        g.call("ISNULL", &[a], vec![i((a.v == Null) as i64)]);
        g.call("COALESCE", &[a], same(a));
        for b in &vals {
            g.calls(&["IFNULL", "NVL"], &[a, b], if a.v == Null { same(b) } else { same(a) });
            g.call("COALESCE", &[a, b], if a.v == Null { same(b) } else { same(a) });
            g.call("NULLIF", &[a, b], match sql_eq(&a.v, &b.v) {
                Some(true) => vec![N],
                _ => same(a),
            });
            g.call("COALESCE", &[&a_null(), a, b], if a.v == Null { same(b) } else { same(a) });
            // simple CASE: NULL never matches, not even NULL
            let w = match sql_eq(&a.v, &b.v) {
                Some(true) => vec![t("hit")],
                _ => vec![t("miss")],
            };
            g.add("CASE", format!("CASE {} WHEN {} THEN 'hit' ELSE 'miss' END", a.sql, b.sql), format!("(simple:{},when:{})", a.cls, b.cls), w, true);
            let w = match sql_eq(&a.v, &b.v) {
                Some(true) => vec![i(1)],
                _ => vec![N],
            };
            g.add("CASE", format!("CASE {} WHEN {} THEN 1 END", a.sql, b.sql), format!("(simple:{},when:{},no-else)", a.cls, b.cls), w, true);
        }
    }
    // conditions
    let mut conds: Vec<A> = vec![a_int("int-1", 1), a_int("int-0", 0), a_int("int-neg1", -1), a_int("int-2", 2), a_flt("f-0", 0.0), a_flt("f-0.5", 0.5), a_null()];
    conds.push(A { sql: "1 = 1".into(), cls: "cmp-true".into(), v: Bool(true) });
    conds.push(A { sql: "1 = 2".into(), cls: "cmp-false".into(), v: Bool(false) });
    conds.push(A { sql: "NULL = 1".into(), cls: "cmp-null".into(), v: Null });
    conds.push(A { sql: "2 > 1".into(), cls: "cmp-true".into(), v: Bool(true) });
    let branches = [a_int("int-1", 1), a_str("ascii", "x"), a_flt("f-2.5", 2.5), a_null()];
    for c in &conds {
        for a in &branches {
            for b in &branches {
                let pick = if truthy(&c.v) == Some(true) { a } else { b };
                g.calls(&["IF", "IIF"], &[c, a, b], same(pick));
                g.add("CASE", format!("CASE WHEN {} THEN {} ELSE {} END", c.sql, a.sql, b.sql), format!("(when:{},{},{})", c.cls, a.cls, b.cls), same(pick), true);
            }
            let w = if truthy(&c.v) == Some(true) { same(a) } else { vec![N] };
            g.add("CASE", format!("CASE WHEN {} THEN {} END", c.sql, a.sql), format!("(when:{},{},no-else)", c.cls, a.cls), w, true);
        }
        for c2 in &conds {
            let w = if truthy(&c.v) == Some(true) { t("first") } else if truthy(&c2.v) == Some(true) { t("second") } else { t("else") };
            g.add("CASE", format!("CASE WHEN {} THEN 'first' WHEN {} THEN 'second' ELSE 'else' END", c.sql, c2.sql), format!("(when:{},when:{})", c.cls, c2.cls), vec![w], true);
        }
    }
}

fn gen_cast(g: &mut Gen) {
    let q = g.quick;
    let mut src: Vec<A> = with_null(nums(q));
    for (c, s) in [("text-0", "0"), ("text-neg1", "-1"), ("text-int-max", "9223372036854775807"), ("text-int-min", "-9223372036854775808"), ("text-int-max+1", "9223372036854775808"), ("text-1.5", "1.5"), ("text-neg2.5", "-2.5"), ("text-1e308", "1e308"), ("text-padded-12", " 12 "), ("text-12abc", "12abc"), ("text-abc", "abc"), ("text-empty", ""), ("text-true", "true"), ("text-false", "false"), ("text-t", "t"), ("text-f", "f"), ("text-yes", "yes"), ("text-no", "no"), ("text-on", "on"), ("text-off", "off"), ("text-1", "1"), ("text-TRUE", "TRUE"), ("text-long300", ""), ("text-utf8", "h\u{e9}llo \u{65e5}\u{672c}")] {
        src.push(if c == "text-long300" { a_str(c, &long300()) } else { a_str(c, s) });
    }
    src.push(A { sql: "TRUE".into(), cls: "bool-true".into(), v: Bool(true) });
    src.push(A { sql: "FALSE".into(), cls: "bool-false".into(), v: Bool(false) });
    src.push(a_flt("f-0.125", 0.125));
    src.push(a_int("int-127", 127));
    src.push(a_int("int-128", 128));
    src.push(a_int("int-32767", 32767));
    src.push(a_int("int-32768", 32768));
    let int_types: [(&str, i128, i128); 4] = [("INTEGER", i64::MIN as i128, i64::MAX as i128), ("BIGINT", i64::MIN as i128, i64::MAX as i128), ("SMALLINT", -32768, 32767), ("TINYINT", -128, 255)];
    for x in &src {
        let as_text = tx(&x.v).filter(|_| matches!(x.v, Text(_)));
        // ---- integer targets
        for (ty, lo, hi) in int_types {
            let in_range = |n: i128| -> Vec<Alt> {
                if n >= lo && n <= hi {
                    vec![i(n as i64)]
                } else if ty == "INTEGER" && n >= i64::MIN as i128 && n <= i64::MAX as i128 {
                    vec![i(n as i64), E, N] // INTEGER is 32-bit in most systems, 64-bit in SQLite/TurDB storage
                } else {
                    vec![E, N]
                }
            };
            let w = match &x.v {
                Null => vec![N],
                Int(n) => {
                    let mut w = in_range(*n as i128);
                    if ty == "INTEGER" && (*n > i32::MAX as i64 || *n < i32::MIN as i64) { w.extend([E, N]); }
                    w
                }
                Bool(b) => vec![i(*b as i64)],
                Float(f) if f.is_nan() => vec![E, N, i(0)],
                Float(f) => {
                    if f.abs() >= 9.3e18 {
                        // out of range: error, or saturation with a warning (MySQL)
                        vec![E, N, i(if *f > 0.0 { i64::MAX } else { i64::MIN })]
                    } else {
                        // truncation (SQLite), half away (MySQL), half even (PostgreSQL)
                        let (num, den) = rational(&x.v).unwrap_or(((*f as i128), 1));
                        let mut w = Vec::new();
                        for m in [2u8, 0, 1] { w.extend(in_range(round_div(num, den, m))); }
                        w
                    }
                }
                Text(s) => match s.parse::<i128>() {
                    Ok(n) if n >= i64::MIN as i128 && n <= i64::MAX as i128 => in_range(n),
                    Ok(_) => vec![E, N, i(i64::MAX)],
                    Err(_) => vec![Any], // leading-number prefix (MySQL/SQLite), error (PostgreSQL) or NULL: not pinned down
                },
                _ => vec![Any],
            };
            g.add("CAST", format!("CAST({} AS {ty})", x.sql), format!("({} AS {ty})", x.cls), w, x.v != Null);
        }
        // ---- floating targets
        for ty in ["REAL", "DOUBLE PRECISION", "FLOAT"] {
            let w = match &x.v {
                Null => vec![N],
                Int(n) => vec![Approx(*n as f64)],
                Bool(b) => vec![Approx(*b as i64 as f64), E],
                Float(f) if f.is_nan() => vec![Any],
                Float(f) => vec![Val(Float(*f))],
                Text(s) => match s.parse::<f64>() {
                    Ok(f) if s.trim() == s && !s.is_empty() && s.bytes().all(|b| b.is_ascii_digit() || b"+-.eE".contains(&b)) => vec![Val(Float(f))],
                    _ => vec![Any],
                },
                _ => vec![Any],
            };
            g.add("CAST", format!("CAST({} AS {ty})", x.sql), format!("({} AS {})", x.cls, ty.replace(' ', "-")), w, x.v != Null);
        }
        // ---- DECIMAL(10,2) / NUMERIC(10,2): two fractional digits
        for ty in ["DECIMAL(10,2)", "NUMERIC(10,2)"] {
            let w = match &x.v {
                Null => vec![N],
                Float(f) if !f.is_finite() => vec![Any],
                v @ (Int(_) | Float(_)) => match rational(v) {
                    Some((num, den)) if (num / den).abs() < 100_000_000 => {
                        let mut w = Vec::new();
                        for m in [0u8, 1] { w.push(Approx(round_div(num * 100, den, m) as f64 / 100.0)); }
                        w
                    }
                    Some((num, _)) => vec![E, N, Approx(if num < 0 { -99999999.99 } else { 99999999.99 })], // does not fit precision 10: error, or MySQL's clamp
                    None => vec![E, N, Approx(if nf(v).unwrap_or(0.0) < 0.0 { -99999999.99 } else { 99999999.99 })],
                },
                Text(s) => match s.parse::<f64>() {
                    Ok(f) if s.trim() == s && f.abs() < 1e8 && (f * 4.0).fract() == 0.0 => vec![Approx((f * 100.0).round() / 100.0)],
                    _ => vec![Any],
                },
                _ => vec![Any],
            };
            g.add("CAST", format!("CAST({} AS {ty})", x.sql), format!("({} AS {ty})", x.cls), w, x.v != Null);
        }
        // ---- text targets
        for (ty, limit) in [("TEXT", None), ("VARCHAR(10)", Some(10usize)), ("CHAR(3)", Some(3usize))] {
            let clipt = |s: &str| match limit {
                Some(k) => s.chars().take(k).collect::<String>(),
                None => s.to_string(),
            };
            let w = match &x.v {
                Null => vec![N],
                Int(n) => {
                    let s = n.to_string();
                    if limit.map(|k| s.len() > k).unwrap_or(false) { vec![t(&clipt(&s)), E] } else { vec![t(&s)] }
                }
                Float(f) if limit.is_none() => vec![FloatText(*f)],
                Float(_) => vec![Any],
                Bool(_) => vec![Pred("nonnull")],
                Text(s) => {
                    let c = clipt(s);
                    if c == *s { vec![t(s)] } else { vec![t(&c), E] } // truncation to n characters, or a "value too long" error
                }
                _ => vec![Any],
            };
            g.add("CAST", format!("CAST({} AS {ty})", x.sql), format!("({} AS {ty})", x.cls), w, x.v != Null);
        }
        // ---- BOOLEAN
        let w = match &x.v {
            Null => vec![N],
            Int(n) => vec![i((*n != 0) as i64)],
            Bool(b) => vec![i(*b as i64)],
            Float(f) if f.is_nan() => vec![Any],
            Float(f) => vec![i((*f != 0.0) as i64)],
            Text(s) => match low(s.trim()).as_str() {
                "true" | "t" | "yes" | "y" | "on" | "1" => vec![i(1)],
                "false" | "f" | "no" | "n" | "off" | "0" => vec![i(0)],
                _ => vec![E, N],
            },
            _ => vec![Any],
        };
        g.add("CAST", format!("CAST({} AS BOOLEAN)", x.sql), format!("({} AS BOOLEAN)", x.cls), w, x.v != Null);
        let _ = as_text;
    }
    // ---- temporal targets (exhaustive date/time conversion is C41's): valid text is accepted, NULL stays NULL
    for (ty, ok, days) in [("DATE", "2024-02-29", Some(19782i64)), ("TIME", "10:11:12", None), ("TIMESTAMP", "2024-02-29 10:11:12", None)] {
        let mut w = vec![Pred("nonnull")];
        if let Some(d) = days { w = vec![i(d), t(ok), Pred("nonnull")]; }
        g.add("CAST", format!("CAST('{ok}' AS {ty})"), format!("(text-valid AS {ty})"), w, true);
        g.add("CAST", format!("CAST(NULL AS {ty})"), format!("(null AS {ty})"), vec![N], false);
    }
}

// ------------------------------------------------------------------ all cases + coverage of the dispatch tables
fn all_cases(quick: bool) -> (Vec<Case>, u64) {
    let mut g = Gen { cases: Vec::new(), quick, pruned: 0 };
    gen_strings(&mut g);
    gen_numeric(&mut g);
    gen_arith(&mut g);
    gen_dates(&mut g);
    gen_system(&mut g);
    gen_cast(&mut g);
    (g.cases, g.pruned)
}

const SRC_STRING: &str = include_str!("/repo/src/sql/functions/string.rs");
const SRC_NUMERIC: &str = include_str!("/repo/src/sql/functions/numeric.rs");
const SRC_DATETIME: &str = include_str!("/repo/src/sql/functions/datetime.rs");
const SRC_SYSTEM: &str = include_str!("/repo/src/sql/functions/system.rs");
const README: &str = include_str!("/repo/README.md");

/// names in the match arms of `pub fn eval_*_function`
fn dispatch_names(src: &str) -> BTreeSet<String> {
    let mut out = BTreeSet::new();
    let Some(start) = src.find("pub fn eval_") else { return out };
    let body = &src[start..];
    let end = body.find("\n}\n").unwrap_or(body.len());
    for line in body[..end].lines() {
        let l = line.trim_start();
        if !l.starts_with('"') && !l.starts_with("| \"") {
            continue;
        }
        let head = l.split("=>").next().unwrap_or("");
        let mut rest = head;
        while let Some(p) = rest.find('"') {
            let r2 = &rest[p + 1..];
            let Some(e) = r2.find('"') else { break };
            out.insert(r2[..e].to_string());
            rest = &r2[e + 1..];
        }
    }
    out
}
/// function names of the README tables between "### SQL Functions" and the next "### " heading
fn readme_names() -> BTreeSet<String> {
    let mut out = BTreeSet::new();
    let Some(s) = README.find("### SQL Functions") else { return out };
    let sec = &README[s + 5..];
    let e = sec.find("\n### ").unwrap_or(sec.len());
    for line in sec[..e].lines().filter(|l| l.starts_with("| `")) {
        let first = line.split('|').nth(1).unwrap_or("");
        let mut rest = first;
        while let Some(p) = rest.find('`') {
            let r2 = &rest[p + 1..];
            let Some(q) = r2.find('`') else { break };
            let item = &r2[..q];
            let name: String = item.chars().take_while(|c| c.is_ascii_alphanumeric() || *c == '_').collect();
            if !name.is_empty() {
                out.insert(if item.contains('(') || name == "CASE" { name } else { format!("{name}[keyword]") });
            }
            rest = &r2[q + 1..];
        }
    }
    out
}

fn judge_and_report(cases: &[Case], obs: &[Obs], rep: &mut Reporter) {
    for (c, o) in cases.iter().zip(obs) {
        rep.case(vcore::util::hash_of(&(&c.f, &c.sql)), c.nontrivial);
        let kind = match o {
            Obs::Value(Null) => "null",
            Obs::Value(Int(_)) | Obs::Value(Bool(_)) => "int",
            Obs::Value(Float(_)) => "float",
            Obs::Value(Text(_)) => "text",
            Obs::Value(Other(_)) => "other",
            Obs::Error(_) => "error",
            Obs::Panic(_) => "panic",
            Obs::Died(_) => "died",
        };
        rep.outcome(&format!("{}:{kind}", c.f));
        rep.count(&format!("cases:{}", c.f), 1);
        if c.want.iter().all(|a| matches!(a, Any)) {
            rep.count("cases_only_crash_freedom_demanded", 1);
        }
        if accepted(&c.want, o) {
            continue;
        }
        let what = what_class(&c.want, o);
        rep.count(&format!("violations:{what}"), 1);
        rep.violation(
            "C20",
            "definition",
            &format!("C20/{}/{}/{}", c.f, c.cls, what),
            || json!({"f": c.f, "sql": c.sql, "cls": c.cls}),
            &format!("SELECT {} => {}", vcore::util::clip(&c.sql, 300), show_want(&c.want)),
            &show_obs(o),
        );
    }
}

impl Check for C20 {
    fn specs(&self) -> Vec<Spec> {
        let mut s = Spec::new(
            "C20",
            "exploration",
            "a case is one expression `f(literal arguments)` evaluated as `SELECT expr` (32 per statement, re-run alone when the statement fails or a value is not accepted; the verdict is always the single-expression run). f ranges over every name in the four dispatch tables of src/sql/functions (read from the source text; every README-table name is covered), CASE (simple/searched), CAST to 13 target types and + - * / % / unary minus. Arguments: full cross products of per-parameter domains — strings {'', ASCII, padded, comma list, 2-/3-/4-byte UTF-8, combining marks, 300 chars, an integer, NULL}; needles derived from each haystack; positions/lengths {-1,0,1,len,len+1,NULL}; integers {0,+-1,+-2^31,+-2^53,i64::MIN,i64::MAX}; floats {+-0.0,0.5,1.5,2.5,-2.5,1e308,NaN,inf}; 15 boundary dates (40 in thorough), 7 datetimes, 7 times, 5 invalid dates; thorough enlarges every domain (more strings, positions 2,len-1,-len,-len-1, 11 more integers, 7 more floats, 3-argument GREATEST/LEAST, 37 format specifiers). Distinct = distinct (function, SQL text); non-trivial = at least one non-NULL argument.",
        );
        s.assumptions = &[
            "reference definitions: README one-liner + MySQL 8.0 manual for the same name, written in this file; accepted variants where those do not pin a detail down: ROUND/FORMAT/CAST-to-DECIMAL half away from zero or half to even; CAST float->int truncation, half away or half even; int/int division truncating or exact; WEEK/YEARWEEK any of the 8 MySQL modes; float->text any text that parses back to the same double; float overflow inf or error; NaN results unconstrained; STRCMP binary or case-insensitive order (punctuation/non-ASCII: any non-zero sign); ASCII() of a non-ASCII character first byte or code point; LPAD/RPAD with empty pad NULL, '' or str; INSERT at pos=len+1 appends or returns str; TYPEOF any usual spelling; domain errors (SQRT(-1), LN(0), x/0, invalid dates) NULL or error",
            "numbers compare by value (3 = 3.0, TRUE = 1); floating results within 1e-9 relative",
            "TO_DAYS/FROM_DAYS/DAYOFWEEK/DAYOFYEAR/LAST_DAY/DATEDIFF values are C41's (every date 0001..9999); here only their NULL propagation",
            "NOW()/CURDATE()/CURTIME() are checked for format and for being within one day of the harness clock",
            "an evaluation child has a 320 MiB address space and 20 s CPU per statement: exceeding them is reported as abort/hang of that expression",
        ];
        s.cap_quick_s = 100;
        s.cap_thorough_s = 1500;
        vec![s]
    }

    fn run(&self, ctx: &Ctx, rep: &mut Reporter) {
        std::env::set_var("RUST_BACKTRACE", "0");
        if let Err(e) = cal::self_test() {
            vcore::machinery(&format!("C20: reference calendar self-test failed: {e}"));
        }
        let (cases, pruned) = all_cases(ctx.quick());
        // completeness against the dispatch tables and the README
        let covered: BTreeSet<String> = cases.iter().map(|c| c.f.split('[').next().unwrap_or("").to_string()).chain(cases.iter().map(|c| c.f.clone())).collect();
        let mut disp = BTreeSet::new();
        for src in [SRC_STRING, SRC_NUMERIC, SRC_DATETIME, SRC_SYSTEM] {
            disp.extend(dispatch_names(src));
        }
        let missing: Vec<&String> = disp.iter().filter(|n| !covered.contains(*n)).collect();
        let rd = readme_names();
        let missing_rd: Vec<&String> = rd.iter().filter(|n| !covered.contains(*n)).collect();
        if disp.len() < 100 || rd.len() < 80 {
            vcore::machinery(&format!("C20: could not read the dispatch tables / README ({} / {} names)", disp.len(), rd.len()));
        }
        if !missing.is_empty() || !missing_rd.is_empty() {
            vcore::machinery(&format!("C20: functions without cases: dispatch {missing:?} README {missing_rd:?}"));
        }
        if ctx.worker == 0 {
            rep.count("dispatch_table_names", disp.len() as u64);
            rep.count("readme_table_names", rd.len() as u64);
            rep.count("functions_and_operators_enumerated", cases.iter().map(|c| &c.f).collect::<BTreeSet<_>>().len() as u64);
            rep.pruned(pruned);
        }
        rep.bound("cases_total", json!(cases.len()));
        rep.expect_nonzero("violations:panic");
        rep.expect_nonzero("cases:op:+");
        rep.sample(|| json!({"f": "SUBSTR", "sql": "SUBSTR('a\u{1f600}b\u{1d11e}c', 5, 6)", "cls": "(utf8-4byte,pos=len,pos=len+1)"}));
        rep.sample(|| json!({"f": "op:mul", "sql": "9223372036854775807 * (-1)", "cls": "(int-max,int-neg1)"}));
        // this worker's slice: whole batches of 32 consecutive cases
        let mine: Vec<Case> = cases.iter().enumerate().filter(|(k, _)| ctx.mine((*k / 32) as u64)).map(|(_, c)| c.clone()).collect();
        let (obs, st) = iso::run(&ctx.scratch, &mine);
        rep.count("evaluation_children", st.children);
        rep.count("evaluation_child_deaths", st.deaths);
        rep.count("batch_vs_single_disagreements", st.batch_single_disagreements);
        judge_and_report(&mine, &obs, rep);
        let mut per: BTreeMap<&str, u64> = BTreeMap::new();
        for c in &mine {
            *per.entry(c.f.as_str()).or_insert(0) += 1;
        }
        let _ = per;
    }

    fn replay(&self, ctx: &Ctx, case: &Value, rep: &mut Reporter) {
        std::env::set_var("RUST_BACKTRACE", "0");
        let (cases, _) = all_cases(ctx.quick());
        let (f, sql) = (case["f"].as_str().unwrap_or(""), case["sql"].as_str().unwrap_or(""));
        let Some(c) = cases.iter().find(|c| c.f == f && c.sql == sql) else {
            vcore::machinery(&format!("C20: case not in the {} enumeration: {f} / {sql}", if ctx.quick() { "quick" } else { "thorough" }));
        };
        let one = vec![c.clone()];
        let (obs, _) = iso::run(&ctx.scratch, &one);
        judge_and_report(&one, &obs, rep);
    }
}

fn main() {
    vcore::main(&C20)
}
