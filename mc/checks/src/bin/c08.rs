//! C08 — uncommitted changes are isolated from other handles (SQLH engine over 2–3 cloned handles,
//! model_checking).
//!
//! The statement quantifies over interleavings of STATEMENTS; one statement is one `execute` call, so all
//! interleavings of two (three) handle scripts = all merges of the scripts, executed sequentially in one
//! thread on cloned handles (`Database::clone`) of one fresh database per merge.
//!
//! Table t(id INT PRIMARY KEY, a INT), start state {1 -> 10} (key 1 present, key 2 absent).  A handle script
//! is every well-formed sequence of <= L statements (BEGIN / COMMIT / ROLLBACK count as statements) over
//! {INSERT 2, UPDATE 1, DELETE 1, [INSERT 1, UPDATE 2, DELETE 2], SELECT * (scan), SELECT .. WHERE id = k
//! (point look-up), BEGIN, COMMIT, ROLLBACK}: autocommit statements and at most one transaction, which may
//! still be open when the script ends (the handle is then dropped = implicit rollback).  Every write writes
//! a value that is unique in the merge (100*(handle+1)+position), so a value that shows up in a read
//! identifies the write it came from.  A handle never addresses a row it deleted itself and a merge is not
//! judged further once an UPDATE / DELETE addresses a tombstoned row (C05 findings, not this property).
//!
//! Oracle = a tiny snapshot-isolation model inside this file: committed store + per-transaction snapshot
//! taken at BEGIN + own writes.  (1) an autocommit read returns the committed store, a read inside a
//! transaction returns its snapshot plus its own writes; any difference is classified by the provenance of
//! the offending value: written by another handle's open (or rolled-back) transaction = dirty-read; committed
//! by someone else after this transaction's BEGIN = non-repeatable-read / phantom (if the transaction read
//! the key before) or snapshot-violation (first read); an older committed value where a newer committed
//! one is due = lost-update.  (2) write statements must report the affected rows / PK error of the
//! writer's own view; `Err` is also accepted whenever another open transaction has written the same key
//! (write-write conflict detected at the write).  (3) when COMMIT returns Ok, no transaction (or
//! autocommit statement) that overlapped it in time and committed earlier may have written one of its rows
//! (= lost update; the implementation chooses the loser, by `Err` at the write or at COMMIT).  After the
//! last statement a fresh handle reads everything once more (committed data visible, rolled-back data
//! gone).  Exploration stops at the first violation of a merge; merges sharing the violating prefix are
//! counted as pruned, all others are executed to the end.
//!
//! Signature: C08/<dirty-read|non-repeatable-read|phantom|snapshot-violation|lost-update|wrong-read|
//! wrong-result>/<writer op kind>/<reader or victim op kind>.
use checks::sqlh::*;
use refmodel::val::V;
use std::collections::{BTreeMap, BTreeSet};
use vcore::{json, Check, Ctx, Reporter, Spec, Value};

// ---------------------------------------------------------------------------
// statements and scripts
// ---------------------------------------------------------------------------
#[derive(Clone, Copy, PartialEq, Eq, Hash, Debug, PartialOrd, Ord)]
enum Op {
    Ins(u8),
    Upd(u8),
    Del(u8),
    Scan,
    Get(u8),
}
impl Op {
    fn is_write(self) -> bool {
        matches!(self, Op::Ins(_) | Op::Upd(_) | Op::Del(_))
    }
    fn key(self) -> Option<i64> {
        match self {
            Op::Ins(k) | Op::Upd(k) | Op::Del(k) | Op::Get(k) => Some(k as i64),
            Op::Scan => None,
        }
    }
    fn word(self) -> &'static str {
        match self {
            Op::Ins(_) => "insert",
            Op::Upd(_) => "update",
            Op::Del(_) => "delete",
            Op::Scan => "scan",
            Op::Get(_) => "get",
        }
    }
}
#[derive(Clone, Copy, PartialEq, Eq, Hash, Debug, PartialOrd, Ord)]
enum St {
    Begin,
    Commit,
    Rollback,
    Op(Op),
}
impl St {
    fn name(self) -> String {
        match self {
            St::Begin => "BEGIN".into(),
            St::Commit => "COMMIT".into(),
            St::Rollback => "ROLLBACK".into(),
            St::Op(Op::Ins(k)) => format!("INS{k}"),
            St::Op(Op::Upd(k)) => format!("UPD{k}"),
            St::Op(Op::Del(k)) => format!("DEL{k}"),
            St::Op(Op::Scan) => "SCAN".into(),
            St::Op(Op::Get(k)) => format!("GET{k}"),
        }
    }
    fn parse(s: &str) -> Option<St> {
        let k = || s[3..].parse::<u8>().ok().filter(|k| (1..=2).contains(k));
        Some(match s {
            "BEGIN" => St::Begin,
            "COMMIT" => St::Commit,
            "ROLLBACK" => St::Rollback,
            "SCAN" => St::Op(Op::Scan),
            _ if s.starts_with("INS") => St::Op(Op::Ins(k()?)),
            _ if s.starts_with("UPD") => St::Op(Op::Upd(k()?)),
            _ if s.starts_with("DEL") => St::Op(Op::Del(k()?)),
            _ if s.starts_with("GET") => St::Op(Op::Get(k()?)),
            _ => return None,
        })
    }
    /// value written by handle h at position j of its script
    fn sql(self, h: usize, j: usize) -> String {
        let v = value_of(h, j);
        match self {
            St::Begin => "BEGIN".into(),
            St::Commit => "COMMIT".into(),
            St::Rollback => "ROLLBACK".into(),
            St::Op(Op::Ins(k)) => format!("INSERT INTO t VALUES ({k}, {v})"),
            St::Op(Op::Upd(k)) => format!("UPDATE t SET a = {v} WHERE id = {k}"),
            St::Op(Op::Del(k)) => format!("DELETE FROM t WHERE id = {k}"),
            St::Op(Op::Scan) => "SELECT * FROM t".into(),
            St::Op(Op::Get(k)) => format!("SELECT * FROM t WHERE id = {k}"),
        }
    }
}
fn value_of(h: usize, j: usize) -> i64 {
    100 * (h as i64 + 1) + j as i64
}
type Script = Vec<St>;
fn script_names(s: &Script) -> Vec<String> {
    s.iter().map(|x| x.name()).collect()
}

/// every well-formed script of <= max_len statements (one statement = one execute call): autocommit data
/// statements and at most one transaction (BEGIN, >= 1 data statements, optionally COMMIT | ROLLBACK —
/// read-only blocks end with COMMIT only).  A script may end with its transaction still open: the handle
/// is then dropped at the end of the merge (implicit rollback).  Fewest statements first.
fn gen_scripts(alphabet: &[Op], max_len: usize) -> Vec<Script> {
    fn rec(alphabet: &[Op], max_len: usize, cur: &mut Script, in_txn: Option<usize>, had_txn: bool, out: &mut Vec<Script>) {
        if !cur.is_empty() && cur.last() != Some(&St::Begin) {
            out.push(cur.clone());
        }
        if cur.len() == max_len {
            return;
        }
        for &o in alphabet {
            cur.push(St::Op(o));
            rec(alphabet, max_len, cur, in_txn, had_txn, out);
            cur.pop();
        }
        match in_txn {
            None => {
                if !had_txn {
                    cur.push(St::Begin);
                    rec(alphabet, max_len, cur, Some(cur.len()), true, out);
                    cur.pop();
                }
            }
            Some(start) => {
                if cur.len() > start {
                    let wrote = cur[start..].iter().any(|x| matches!(x, St::Op(o) if o.is_write()));
                    let ends: &[St] = if wrote { &[St::Commit, St::Rollback] } else { &[St::Commit] };
                    for &e in ends {
                        cur.push(e);
                        rec(alphabet, max_len, cur, None, true, out);
                        cur.pop();
                    }
                }
            }
        }
    }
    let mut out = vec![];
    rec(alphabet, max_len, &mut vec![], None, false, &mut out);
    // a handle never addresses a row it deleted itself (UPDATE / DELETE of a tombstoned row are C05 findings)
    out.retain(|s| {
        let mut dead: BTreeSet<i64> = BTreeSet::new();
        for st in s {
            if let St::Op(op) = st {
                match op {
                    Op::Del(k) | Op::Upd(k) if dead.contains(&(*k as i64)) => return false,
                    Op::Del(k) => {
                        dead.insert(*k as i64);
                    }
                    _ => {}
                }
            }
        }
        true
    });
    out.sort_by(|a, b| (a.len(), a).cmp(&(b.len(), b)));
    out.dedup();
    out
}

// ---------------------------------------------------------------------------
// snapshot-isolation model
// ---------------------------------------------------------------------------
#[derive(Clone, Copy, PartialEq, Eq, Debug)]
enum Status {
    Open,
    Committed,
    RolledBack,
    Auto,
}
#[derive(Clone, Debug)]
struct WriteRec {
    handle: usize,
    op: Op,
    key: i64,
    /// value written (None for DELETE)
    val: Option<i64>,
    status: Status,
}
impl WriteRec {
    fn kind(&self) -> String {
        match self.status {
            Status::Auto => format!("auto-{}", self.op.word()),
            Status::Open => format!("txn-{}(open)", self.op.word()),
            Status::Committed => format!("txn-{}(committed)", self.op.word()),
            Status::RolledBack => format!("txn-{}(rolled-back)", self.op.word()),
        }
    }
}
type View = BTreeMap<i64, i64>;
#[derive(Clone, Debug)]
struct Txn {
    begin_seq: usize,
    view: View,
    keys: BTreeSet<i64>,
    /// what this transaction has already read: key -> value seen (None = absent)
    seen: BTreeMap<i64, Option<i64>>,
    /// indexes into Model::writes
    writes: Vec<usize>,
}
#[derive(Clone, Debug)]
struct Done {
    handle: usize,
    commit_seq: usize,
    keys: BTreeSet<i64>,
    writes: Vec<usize>,
}
#[derive(Clone, Debug)]
struct Model {
    committed: View,
    open: Vec<Option<Txn>>,
    done: Vec<Done>,
    writes: Vec<WriteRec>,
    /// every value a key ever had in the committed store, oldest first (None = absent)
    history: BTreeMap<i64, Vec<Option<i64>>>,
    /// keys whose row currently is a tombstone in the table (deleted by anyone, committed or not): index into writes
    tomb: BTreeMap<i64, usize>,
}
const KEYS: [i64; 2] = [1, 2];
impl Model {
    fn new(handles: usize) -> Model {
        let committed: View = [(1, 10)].into_iter().collect();
        let mut history = BTreeMap::new();
        history.insert(1, vec![Some(10)]);
        history.insert(2, vec![None]);
        Model { committed, open: vec![None; handles], done: vec![], writes: vec![], history, tomb: BTreeMap::new() }
    }
    fn view(&self, h: usize) -> &View {
        match &self.open[h] {
            Some(t) => &t.view,
            None => &self.committed,
        }
    }
    fn set_committed(&mut self, k: i64, v: Option<i64>) {
        match v {
            Some(v) => {
                self.committed.insert(k, v);
            }
            None => {
                self.committed.remove(&k);
            }
        }
        self.history.entry(k).or_default().push(v);
    }
    /// another handle's open transaction holds an uncommitted write on k
    fn foreign_open_write(&self, h: usize, k: i64) -> Option<&WriteRec> {
        self.writes.iter().rev().find(|w| w.handle != h && w.key == k && w.status == Status::Open)
    }
    /// what the table physically contains if nothing is isolated: committed store + every open write in order
    fn dirty_view(&self) -> View {
        let mut v = self.committed.clone();
        for w in self.writes.iter().filter(|w| w.status == Status::Open) {
            match w.val {
                Some(x) => {
                    v.insert(w.key, x);
                }
                None => {
                    v.remove(&w.key);
                }
            }
        }
        v
    }
    fn committed_after(&self, begin_seq: usize, h: usize, k: i64) -> Option<&WriteRec> {
        self.done.iter().rev().filter(|d| d.commit_seq > begin_seq && d.handle != h).flat_map(|d| d.writes.iter().rev()).map(|&i| &self.writes[i]).find(|w| w.key == k)
    }
}

/// result of a write statement in a view: (Some(affected) | None = PK error, effect)
fn write_in(view: &View, op: Op, val: i64) -> (Option<usize>, Option<(i64, Option<i64>)>) {
    let k = op.key().unwrap();
    match op {
        Op::Ins(_) => {
            if view.contains_key(&k) {
                (None, None)
            } else {
                (Some(1), Some((k, Some(val))))
            }
        }
        Op::Upd(_) => {
            if view.contains_key(&k) {
                (Some(1), Some((k, Some(val))))
            } else {
                (Some(0), None)
            }
        }
        Op::Del(_) => {
            if view.contains_key(&k) {
                (Some(1), Some((k, None)))
            } else {
                (Some(0), None)
            }
        }
        _ => (Some(0), None),
    }
}
fn show_view(v: &View, keys: &[i64]) -> String {
    let rows: Vec<String> = keys.iter().filter_map(|k| v.get(k).map(|a| format!("({k},{a})"))).collect();
    format!("[{}]", rows.join(","))
}

// ---------------------------------------------------------------------------
// one merge
// ---------------------------------------------------------------------------
#[derive(Clone, Debug)]
struct Viol {
    anomaly: &'static str,
    writer: String,
    reader: String,
    /// position in the merge (scripts' statements in execution order); merge length = final observation
    step: usize,
    expected: String,
    observed: String,
}
impl Viol {
    fn signature(&self) -> String {
        format!("C08/{}/{}/{}", self.anomaly, self.writer, self.reader)
    }
}
#[derive(Default, Debug)]
struct MergeOut {
    viol: Option<Viol>,
    /// merge stopped without a verdict (COMMIT / ROLLBACK / BEGIN returned Err): (step, why)
    stopped: Option<(usize, String)>,
    statements: u64,
    reads_judged: u64,
    writes_judged: u64,
    commits_judged: u64,
    conflict_errs: u64,
    visible_after_commit: u64,
    invisible_after_rollback: u64,
    own_writes_read: u64,
}

#[derive(Clone, Copy, PartialEq, Eq, Debug)]
enum Plant {
    None,
    /// the harness replaces one COMMIT by ROLLBACK (committed data must be visible afterwards)
    CommitLost,
    /// the harness silently undoes an autocommit UPDATE (sequential consistency of autocommit-only merges)
    AutoLost,
}
impl Plant {
    fn from_ctx(ctx: &Ctx) -> Plant {
        match ctx.opt("plant") {
            Some("commit-lost") => Plant::CommitLost,
            Some("auto-lost") => Plant::AutoLost,
            Some(o) => vcore::machinery(&format!("unknown plant {o}")),
            None => Plant::None,
        }
    }
}

fn rows_of(r: &Res) -> Option<Vec<(i64, i64)>> {
    match r {
        Res::Rows(rows) => {
            let mut v = vec![];
            for row in rows {
                match (row.first(), row.get(1)) {
                    (Some(V::Int(k)), Some(V::Int(a))) => v.push((*k, *a)),
                    _ => return None,
                }
            }
            v.sort();
            Some(v)
        }
        _ => None,
    }
}

/// classify a read that differs from the reader's view
fn classify_read(m: &Model, h: usize, keys: &[i64], expected: &View, observed: &[(i64, i64)]) -> (&'static str, String) {
    let txn = m.open.get(h).and_then(|t| t.as_ref());
    for &k in keys {
        let exp = expected.get(&k).copied();
        let obs: Vec<i64> = observed.iter().filter(|r| r.0 == k).map(|r| r.1).collect();
        if obs.len() <= 1 && obs.first().copied() == exp {
            continue;
        }
        // offending values: observed values that are not expected; or the missing expected row
        let extra: Vec<i64> = obs.iter().copied().filter(|x| Some(*x) != exp).collect();
        if let Some(&x) = extra.first() {
            if let Some(w) = m.writes.iter().rev().find(|w| w.key == k && w.val == Some(x)) {
                match w.status {
                    // uncommitted data of another handle, or data of a rolled-back transaction (anyone's) that is back
                    Status::Open if w.handle != h => return ("dirty-read", w.kind()),
                    Status::RolledBack => return ("dirty-read", w.kind()),
                    Status::Committed | Status::Auto => {
                        if let Some(t) = txn {
                            if m.committed.get(&k) == Some(&x) && w.handle != h {
                                let a = match t.seen.get(&k) {
                                    None => "snapshot-violation",
                                    Some(None) => "phantom",
                                    Some(Some(_)) => "non-repeatable-read",
                                };
                                return (a, w.kind());
                            }
                        }
                        // a committed value that is no longer (or not yet) due
                        if m.history.get(&k).map(|hv| hv.contains(&Some(x))).unwrap_or(false) && m.committed.get(&k) != Some(&x) {
                            let culprit = m.writes.iter().rev().find(|c| c.key == k && c.status == Status::RolledBack).map(|c| c.kind()).unwrap_or_else(|| "unknown".into());
                            return ("lost-update", culprit);
                        }
                    }
                    _ => {}
                }
            } else if x == 10 && k == 1 {
                // the initial value came back
                let culprit = m.writes.iter().rev().find(|c| c.key == k && c.status == Status::RolledBack).map(|c| c.kind()).unwrap_or_else(|| "unknown".into());
                if txn.is_some() && m.committed.get(&k) == Some(&x) {
                    return ("snapshot-violation", culprit);
                }
                return ("lost-update", culprit);
            }
            // a value of the committed history shows up where another one is due and a rollback touched the key:
            // its undo wrote a pre-image over a later write
            if let Some(c) = m.writes.iter().rev().find(|c| c.key == k && c.status == Status::RolledBack) {
                return ("lost-update", c.kind());
            }
            return ("wrong-read", "unknown".into());
        }
        if obs.len() > 1 {
            return ("wrong-read", "duplicate-row".into());
        }
        // expected row is missing
        if let Some(w) = m.writes.iter().rev().find(|w| w.key == k && w.val.is_none() && w.handle != h && matches!(w.status, Status::Open | Status::RolledBack)) {
            return ("dirty-read", w.kind());
        }
        if let Some(t) = txn {
            if !m.committed.contains_key(&k) {
                if let Some(w) = m.committed_after(t.begin_seq, h, k) {
                    let a = if t.seen.contains_key(&k) { "non-repeatable-read" } else { "snapshot-violation" };
                    return (a, w.kind());
                }
            }
        }
        if let Some(w) = m.writes.iter().rev().find(|w| w.key == k && w.status == Status::RolledBack) {
            return ("lost-update", w.kind());
        }
        return ("wrong-read", "unknown".into());
    }
    ("wrong-read", "unknown".into())
}

struct Case<'a> {
    scripts: &'a [Script],
    /// handle index of every step
    order: &'a [u8],
}

fn run_merge(base: &std::path::Path, case: &Case, plant: Plant) -> Result<MergeOut, String> {
    let hn = case.scripts.len();
    let mut out = MergeOut::default();
    let t = TestDb::create(base, "m")?;
    for s in ["CREATE TABLE t(id INT PRIMARY KEY, a INT)", "INSERT INTO t VALUES (1, 10)"] {
        let r = t.exec(s);
        if !r.ok() {
            return Err(format!("set-up failed: {s} -> {}", r.show()));
        }
    }
    let handles: Vec<turdb::Database> = (0..hn).map(|_| t.db().clone()).collect();
    let mut m = Model::new(hn);
    let mut pos = vec![0usize; hn];
    let mut planted = false;
    for (step, &hb) in case.order.iter().enumerate() {
        let h = hb as usize;
        let j = pos[h];
        pos[h] += 1;
        let st = case.scripts[h][j];
        let ctxname = if m.open[h].is_some() { "txn" } else { "auto" };
        let mut sql = st.sql(h, j);
        if plant == Plant::CommitLost && st == St::Commit && !planted && m.open[h].as_ref().map(|t| !t.writes.is_empty()).unwrap_or(false) {
            sql = "ROLLBACK".into();
            planted = true;
        }
        let r = exec(&handles[h], &sql);
        out.statements += 1;
        if plant == Plant::AutoLost && !planted && ctxname == "auto" && matches!(st, St::Op(Op::Upd(1))) && m.committed.contains_key(&1) {
            let _ = exec(&handles[h], "UPDATE t SET a = 10 WHERE id = 1");
            planted = true;
        }
        match st {
            St::Begin => {
                if !r.ok() {
                    out.stopped = Some((step, format!("BEGIN -> {}", r.show())));
                    return Ok(out);
                }
                m.open[h] = Some(Txn { begin_seq: step, view: m.committed.clone(), keys: BTreeSet::new(), seen: BTreeMap::new(), writes: vec![] });
            }
            St::Rollback => {
                if !r.ok() {
                    out.stopped = Some((step, format!("ROLLBACK -> {}", r.show())));
                    return Ok(out);
                }
                if let Some(t) = m.open[h].take() {
                    for i in t.writes {
                        m.writes[i].status = Status::RolledBack;
                        m.tomb.retain(|_, wi| *wi != i);
                    }
                }
            }
            St::Commit => {
                let Some(t) = m.open[h].take() else { return Err("COMMIT outside a transaction in a script".into()) };
                let rival = m.done.iter().filter(|d| d.commit_seq > t.begin_seq && d.handle != h).find_map(|d| d.keys.intersection(&t.keys).next().map(|k| (d.clone(), *k)));
                if !r.ok() {
                    if rival.is_some() {
                        out.conflict_errs += 1;
                    }
                    out.stopped = Some((step, format!("COMMIT -> {}{}", r.show(), if rival.is_some() { " (write-write conflict: legitimate)" } else { "" })));
                    return Ok(out);
                }
                out.commits_judged += 1;
                if let Some((d, k)) = rival {
                    let first = d.writes.iter().map(|&i| &m.writes[i]).rev().find(|w| w.key == k).map(|w| w.kind()).unwrap_or_default();
                    let mine = t.writes.iter().map(|&i| &m.writes[i]).rev().find(|w| w.key == k).map(|w| format!("txn-{}", w.op.word())).unwrap_or_default();
                    out.viol = Some(Viol {
                        anomaly: "lost-update",
                        writer: mine,
                        reader: first.replace("(committed)", ""),
                        step,
                        expected: format!("handle {h}: COMMIT returns Err (or its write to id = {k} did): handle {} wrote the same row and committed at step {} while this transaction (BEGIN at step {}) was open", d.handle, d.commit_seq, t.begin_seq),
                        observed: "COMMIT returned Ok: both concurrent writers of the row committed".into(),
                    });
                    return Ok(out);
                }
                for &i in &t.writes {
                    let w = m.writes[i].clone();
                    m.set_committed(w.key, w.val);
                    m.writes[i].status = Status::Committed;
                }
                m.done.push(Done { handle: h, commit_seq: step, keys: t.keys.clone(), writes: t.writes.clone() });
            }
            St::Op(op) if !op.is_write() => {
                let keys: Vec<i64> = match op {
                    Op::Get(k) => vec![k as i64],
                    _ => KEYS.to_vec(),
                };
                let view = m.view(h).clone();
                let expected: View = view.iter().filter(|(k, _)| keys.contains(k)).map(|(k, v)| (*k, *v)).collect();
                let reader = format!("{ctxname}-{}", op.word());
                out.reads_judged += 1;
                let Some(obs) = rows_of(&r) else {
                    out.viol = Some(Viol { anomaly: "wrong-read", writer: "unknown".into(), reader, step, expected: format!("handle {h}: {sql} = {}", show_view(&expected, &keys)), observed: r.show() });
                    return Ok(out);
                };
                let want: Vec<(i64, i64)> = expected.iter().map(|(k, v)| (*k, *v)).collect();
                if obs != want {
                    let (anomaly, writer) = classify_read(&m, h, &keys, &expected, &obs);
                    out.viol = Some(Viol { anomaly, writer, reader, step, expected: format!("handle {h} ({}): {sql} = {}", if ctxname == "txn" { "snapshot at its BEGIN + own writes" } else { "committed state" }, show_view(&expected, &keys)), observed: r.show() });
                    return Ok(out);
                }
                // vacuity evidence: what this (correct) read proves
                for &k in &keys {
                    if let Some(x) = expected.get(&k) {
                        if let Some(w) = m.writes.iter().find(|w| w.key == k && w.val == Some(*x)) {
                            if w.handle != h && w.status == Status::Committed {
                                out.visible_after_commit += 1;
                            }
                            if w.handle == h && w.status == Status::Open {
                                out.own_writes_read += 1;
                            }
                        }
                    }
                    if m.writes.iter().any(|w| w.key == k && w.status == Status::RolledBack && w.handle != h) {
                        out.invisible_after_rollback += 1;
                    }
                }
                if let Some(t) = m.open[h].as_mut() {
                    for &k in &keys {
                        t.seen.entry(k).or_insert(expected.get(&k).copied());
                    }
                }
            }
            St::Op(op) => {
                let k = op.key().unwrap();
                let val = value_of(h, j);
                let view = m.view(h).clone();
                if matches!(op, Op::Upd(_) | Op::Del(_)) && m.tomb.contains_key(&k) {
                    // UPDATE / DELETE match tombstoned rows (C05 findings): not this property's business
                    out.stopped = Some((step, "statement addresses a tombstoned row (C05 findings): merge not judged further".into()));
                    return Ok(out);
                }
                let (want, effect) = write_in(&view, op, val);
                let got: Option<usize> = match &r {
                    Res::Affected(n, _) => Some(*n),
                    _ => None,
                };
                let reader = format!("{ctxname}-{}", op.word());
                out.writes_judged += 1;
                let show_want = |w: &Option<usize>| match w {
                    Some(n) => format!("Affected({n})"),
                    None => "Err (primary key)".to_string(),
                };
                if r.is_panic() || (r.ok() && got.is_none()) {
                    out.viol = Some(Viol { anomaly: "wrong-result", writer: "unknown".into(), reader, step, expected: format!("handle {h}: {sql} -> {}", show_want(&want)), observed: r.show() });
                    return Ok(out);
                }
                if got != want {
                    let foreign = m.foreign_open_write(h, k).cloned();
                    let late = m.open[h].as_ref().and_then(|t| m.committed_after(t.begin_seq, h, k).cloned());
                    if r.is_err() && (foreign.is_some() || late.is_some()) {
                        // write-write conflict reported at the write: legitimate, statement has no effect
                        out.conflict_errs += 1;
                        continue;
                    }
                    let (dirty_res, _) = write_in(&m.dirty_view(), op, val);
                    let (comm_res, _) = write_in(&m.committed, op, val);
                    let (anomaly, writer) = if dirty_res == got && foreign.is_some() {
                        ("dirty-read", foreign.unwrap().kind())
                    } else if comm_res == got && late.is_some() {
                        ("snapshot-violation", late.unwrap().kind())
                    } else if let Some(w) = m.writes.iter().rev().find(|w| w.key == k && w.handle != h && w.status == Status::RolledBack) {
                        // the row is not what the committed history says after another handle's rollback
                        // (its undo wrote a pre-image over a later committed write)
                        ("lost-update", w.kind())
                    } else {
                        ("wrong-result", "unknown".to_string())
                    };
                    out.viol = Some(Viol { anomaly, writer, reader, step, expected: format!("handle {h} (its view {}): {sql} -> {}", show_view(&view, &KEYS), show_want(&want)), observed: r.show() });
                    return Ok(out);
                }
                if let Some((k, v)) = effect {
                    let status = if m.open[h].is_some() { Status::Open } else { Status::Auto };
                    m.writes.push(WriteRec { handle: h, op, key: k, val: v, status });
                    let wi = m.writes.len() - 1;
                    if v.is_none() {
                        m.tomb.insert(k, wi);
                    }
                    match m.open[h].as_mut() {
                        Some(t) => {
                            match v {
                                Some(x) => {
                                    t.view.insert(k, x);
                                }
                                None => {
                                    t.view.remove(&k);
                                }
                            }
                            t.keys.insert(k);
                            t.writes.push(wi);
                        }
                        None => {
                            m.set_committed(k, v);
                            m.done.push(Done { handle: h, commit_seq: step, keys: [k].into_iter().collect(), writes: vec![wi] });
                        }
                    }
                }
            }
        }
    }
    // scripts that end inside their transaction: the handle is dropped with the transaction open (implicit
    // rollback; its correctness as such is C07's business)
    if let Err(p) = vcore::catch(move || drop(handles)) {
        out.stopped = Some((case.order.len(), format!("dropping the handles panicked: {p}")));
        return Ok(out);
    }
    for h in 0..hn {
        if let Some(t) = m.open[h].take() {
            for i in t.writes {
                m.writes[i].status = Status::RolledBack;
            }
        }
    }
    // final observation through a fresh handle: committed data visible, rolled-back / lost data not
    let fin = t.db().clone();
    let end = case.order.len();
    for (sql, keys) in [("SELECT * FROM t".to_string(), KEYS.to_vec()), ("SELECT * FROM t WHERE id = 1".to_string(), vec![1]), ("SELECT * FROM t WHERE id = 2".to_string(), vec![2])] {
        let r = exec(&fin, &sql);
        out.statements += 1;
        out.reads_judged += 1;
        let expected: View = m.committed.iter().filter(|(k, _)| keys.contains(k)).map(|(k, v)| (*k, *v)).collect();
        let reader = format!("final-{}", if keys.len() > 1 { "scan" } else { "get" });
        let Some(obs) = rows_of(&r) else {
            out.viol = Some(Viol { anomaly: "wrong-read", writer: "unknown".into(), reader, step: end, expected: format!("{sql} = {}", show_view(&expected, &keys)), observed: r.show() });
            return Ok(out);
        };
        let want: Vec<(i64, i64)> = expected.iter().map(|(k, v)| (*k, *v)).collect();
        if obs != want {
            let (anomaly, writer) = classify_read(&m, usize::MAX - 1, &keys, &expected, &obs);
            out.viol = Some(Viol { anomaly, writer, reader, step: end, expected: format!("after all statements (every transaction finished), a fresh handle reads the committed state: {sql} = {}", show_view(&expected, &keys)), observed: r.show() });
            return Ok(out);
        }
        for &k in &keys {
            if let Some(x) = expected.get(&k) {
                if m.writes.iter().any(|w| w.key == k && w.val == Some(*x) && w.status == Status::Committed) {
                    out.visible_after_commit += 1;
                }
            }
            if m.writes.iter().any(|w| w.key == k && w.status == Status::RolledBack) {
                out.invisible_after_rollback += 1;
            }
        }
    }
    drop(fin);
    Ok(out)
}

// ---------------------------------------------------------------------------
// exploration
// ---------------------------------------------------------------------------
fn all_merges(lens: &[usize], f: &mut dyn FnMut(&[u8])) {
    fn rec(lens: &[usize], pos: &mut Vec<usize>, cur: &mut Vec<u8>, total: usize, f: &mut dyn FnMut(&[u8])) {
        if cur.len() == total {
            f(cur);
            return;
        }
        for h in 0..lens.len() {
            if pos[h] < lens[h] {
                pos[h] += 1;
                cur.push(h as u8);
                rec(lens, pos, cur, total, f);
                cur.pop();
                pos[h] -= 1;
            }
        }
    }
    let total = lens.iter().sum();
    rec(lens, &mut vec![0; lens.len()], &mut vec![], total, f);
}

fn case_json(scripts: &[Script], order: &[u8]) -> Value {
    let mut pos = vec![0usize; scripts.len()];
    let mut sql = vec![];
    for &h in order {
        let h = h as usize;
        sql.push(format!("h{h}: {}", scripts[h][pos[h]].sql(h, pos[h])));
        pos[h] += 1;
    }
    json!({"scripts": scripts.iter().map(script_names).collect::<Vec<_>>(), "order": order, "sql": sql})
}

struct Pass {
    name: &'static str,
    handles: usize,
    alphabet: Vec<Op>,
    /// statements per handle script (BEGIN / COMMIT / ROLLBACK count)
    max_len: usize,
    /// bound on the statements of all handles together
    max_total: usize,
    /// longest autocommit-only script combined with a script that runs a transaction
    auto_len_mixed: usize,
    /// longest scripts of a tuple in which no handle runs a transaction
    auto_len_all: usize,
}
impl Pass {
    /// is this tuple of scripts part of the pass?
    fn admits(&self, ss: &[&Script]) -> bool {
        let total: usize = ss.iter().map(|s| s.len()).sum();
        if total > self.max_total {
            return false;
        }
        let txn = |s: &Script| s.contains(&St::Begin);
        let any_txn = ss.iter().any(|s| txn(s));
        ss.iter().all(|s| txn(s) || s.len() <= if any_txn { self.auto_len_mixed } else { self.auto_len_all })
    }
    fn tuples(&self, scripts: &[Script]) -> Vec<Vec<usize>> {
        let n = scripts.len();
        let mut tuples: Vec<Vec<usize>> = vec![];
        if self.handles == 2 {
            for i in 0..n {
                for j in i..n {
                    if self.admits(&[&scripts[i], &scripts[j]]) {
                        tuples.push(vec![i, j]);
                    }
                }
            }
        } else {
            for i in 0..n {
                for j in i..n {
                    for k in j..n {
                        if self.admits(&[&scripts[i], &scripts[j], &scripts[k]]) {
                            tuples.push(vec![i, j, k]);
                        }
                    }
                }
            }
        }
        // fewest statements first
        tuples.sort_by_key(|t| (t.iter().map(|&i| scripts[i].len()).sum::<usize>(), t.clone()));
        tuples
    }
}
fn passes(ctx: &Ctx) -> Vec<Pass> {
    let core = vec![Op::Ins(2), Op::Upd(1), Op::Del(1), Op::Scan];
    let point = vec![Op::Upd(1), Op::Del(1), Op::Get(1)];
    let wide = vec![Op::Ins(2), Op::Upd(1), Op::Del(1), Op::Ins(1), Op::Upd(2), Op::Del(2), Op::Scan, Op::Get(1), Op::Get(2)];
    if ctx.quick() {
        vec![
            Pass { name: "2h-core-len3", handles: 2, alphabet: core, max_len: 3, max_total: 6, auto_len_mixed: 1, auto_len_all: 2 },
            Pass { name: "2h-point-len3", handles: 2, alphabet: point, max_len: 3, max_total: 6, auto_len_mixed: 1, auto_len_all: 1 },
            Pass { name: "2h-wide-len2", handles: 2, alphabet: wide, max_len: 2, max_total: 4, auto_len_mixed: 2, auto_len_all: 1 },
        ]
    } else {
        vec![
            Pass { name: "2h-core-len4", handles: 2, alphabet: core.clone(), max_len: 4, max_total: 7, auto_len_mixed: 3, auto_len_all: 3 },
            Pass { name: "2h-point-len4", handles: 2, alphabet: point, max_len: 4, max_total: 7, auto_len_mixed: 2, auto_len_all: 2 },
            Pass { name: "2h-wide-len3", handles: 2, alphabet: wide, max_len: 3, max_total: 6, auto_len_mixed: 2, auto_len_all: 2 },
            Pass { name: "3h-core-len2", handles: 3, alphabet: core, max_len: 2, max_total: 6, auto_len_mixed: 2, auto_len_all: 2 },
        ]
    }
}

struct C08;

fn record(rep: &mut Reporter, scripts: &[Script], order: &[u8], out: &MergeOut) {
    rep.add_transitions(out.statements);
    rep.add_states(out.statements);
    rep.add_traces_validated(1);
    rep.count("reads_judged", out.reads_judged);
    rep.count("writes_judged", out.writes_judged);
    rep.count("commits_judged", out.commits_judged);
    rep.count("write_conflicts_reported_by_err", out.conflict_errs);
    rep.count("reads_showing_data_committed_by_another_handle", out.visible_after_commit);
    rep.count("reads_after_a_rollback_of_another_handle_not_showing_its_data", out.invisible_after_rollback);
    rep.count("reads_of_own_uncommitted_writes", out.own_writes_read);
    let autocommit_only = scripts.iter().all(|s| !s.contains(&St::Begin));
    if let Some(v) = &out.viol {
        rep.count(&format!("anomaly:{}", v.anomaly), 1);
        rep.outcome(&format!("{}:{}>{}", v.anomaly, v.writer, v.reader));
        rep.violation("C08", v.anomaly, &v.signature(), || case_json(scripts, &order[..(v.step + 1).min(order.len())]), &v.expected, &v.observed);
    } else if let Some((_, why)) = &out.stopped {
        rep.count("merges_stopped_without_verdict", 1);
        rep.outcome(&format!("stopped:{}", vcore::util::clip(why, 60)));
    } else {
        rep.count("merges_fully_conforming", 1);
        if autocommit_only {
            rep.count("autocommit_only_merges_equal_sequential_model", 1);
        } else {
            rep.count("merges_with_transactions_fully_conforming", 1);
        }
        rep.outcome("conforming");
        rep.sample(|| case_json(scripts, order));
    }
}

impl Check for C08 {
    fn specs(&self) -> Vec<Spec> {
        let mut s = Spec::new(
            "C08",
            "model_checking",
            "a case is one merge (interleaving of statements) of the scripts of 2 or 3 cloned handles, executed sequentially in one thread on one fresh database t(id INT PRIMARY KEY, a INT) = {1 -> 10}; handle scripts = every well-formed sequence of <= L statements over {INSERT 2, UPDATE 1, DELETE 1, SELECT * | SELECT WHERE id = k [, INSERT 1, UPDATE 2, DELETE 2], BEGIN, COMMIT, ROLLBACK} (autocommit statements + at most one transaction, possibly left open = dropped handle); passes: 2 handles L=3 (quick) / L=4 (thorough) over the core alphabet with scans, the same with point look-ups, a wide alphabet (both keys, all statement kinds) with L=2 / L=3, and 3 handles with L=2 (thorough); all unordered pairs (triples) of scripts within the stated total-length bound x ALL their merges, shortest first. Oracle: snapshot-isolation model (committed store, per-transaction snapshot + own writes, overlap check at COMMIT, final read through a fresh handle) evaluated on every statement; a merge stops at its first violation and merges sharing that prefix are pruned (counted). Distinct = distinct (scripts, merge order); non-trivial = some handle writes or runs a transaction.",
        );
        s.assumptions = &[
            "one statement = one execute call; statement-level interleavings only (thread-level interleaving inside COMMIT is C37/C38)",
            "Err is accepted for a write (or COMMIT) whenever another open (or later-committed) transaction wrote the same row: the implementation may pick the loser of a write-write conflict; after a failing COMMIT/ROLLBACK/BEGIN the merge is not continued (no verdict)",
            "every write writes a value unique within the merge, so the provenance of every value read is known",
            "COUNT(*) is not observed (its defects after ROLLBACK belong to C07)",
        ];
        s.cap_quick_s = 90;
        s.cap_thorough_s = 1500;
        if let Some(c) = std::env::var("C08_CAP_S").ok().and_then(|v| v.parse().ok()) {
            s.cap_quick_s = c;
            s.cap_thorough_s = c;
        }
        vec![s]
    }

    fn run(&self, ctx: &Ctx, rep: &mut Reporter) {
        for c in ["merges_fully_conforming", "autocommit_only_merges_equal_sequential_model", "merges_with_transactions_fully_conforming", "reads_showing_data_committed_by_another_handle", "reads_after_a_rollback_of_another_handle_not_showing_its_data", "reads_of_own_uncommitted_writes", "commits_judged", "writes_judged", "reads_judged"] {
            rep.expect_nonzero(c);
        }
        let plant = Plant::from_ctx(ctx);
        let only_pass = ctx.opt("pass");
        let mut capped = false;
        // all passes advance together: units (script tuples) of every pass, fewest statements first
        let passes: Vec<Pass> = passes(ctx).into_iter().filter(|p| only_pass.map(|o| o == p.name).unwrap_or(true)).collect();
        let scripts_of: Vec<Vec<Script>> = passes.iter().map(|p| gen_scripts(&p.alphabet, p.max_len)).collect();
        let mut units: Vec<(usize, usize, Vec<usize>)> = vec![];
        for (pi, pass) in passes.iter().enumerate() {
            let scripts = &scripts_of[pi];
            let tuples = pass.tuples(scripts);
            rep.bound(&format!("pass:{}", pass.name), json!({"handles": pass.handles, "alphabet": pass.alphabet.iter().map(|o| St::Op(*o).name()).collect::<Vec<_>>(), "max_statements_per_script": pass.max_len, "max_statements_of_all_handles": pass.max_total, "longest_autocommit_only_script_next_to_a_transaction": pass.auto_len_mixed, "longest_scripts_when_no_handle_runs_a_transaction": pass.auto_len_all, "scripts": scripts.len(), "script_tuples": tuples.len()}));
            for t in tuples {
                units.push((t.iter().map(|&i| scripts[i].len()).sum(), pi, t));
            }
        }
        units.sort();
        let mut total_merges: BTreeMap<&'static str, u64> = BTreeMap::new();
        for (unit, (total, pi, tup)) in units.iter().enumerate() {
            let pass = &passes[*pi];
            let ss: Vec<Script> = tup.iter().map(|&i| scripts_of[*pi][i].clone()).collect();
            let lens: Vec<usize> = ss.iter().map(|s| s.len()).collect();
            if !ctx.mine(unit as u64) || capped {
                continue;
            }
            if ctx.expired() {
                rep.capped(&format!("deadline reached at script tuples with {total} statements in all; all shorter tuples of every pass were completed"));
                capped = true;
                continue;
            }
            let mut skip: Option<Vec<u8>> = None;
            let mut merges = 0u64;
            let nontrivial = ss.iter().any(|s| s.contains(&St::Begin) || s.iter().any(|x| matches!(x, St::Op(o) if o.is_write())));
            all_merges(&lens, &mut |order| {
                merges += 1;
                if let Some(p) = &skip {
                    if order.len() >= p.len() && &order[..p.len()] == p.as_slice() {
                        rep.pruned(1);
                        rep.count("merges_pruned_sharing_a_violating_prefix", 1);
                        return;
                    }
                }
                skip = None;
                let case = Case { scripts: &ss, order };
                match run_merge(&ctx.scratch, &case, plant) {
                    Ok(out) => {
                        rep.case(vcore::util::hash_of(&(pass.name, tup, order)), nontrivial);
                        rep.count(&format!("merges_run:{}", pass.name), 1);
                        rep.count(&format!("merges_run:total_statements={total}"), 1);
                        record(rep, &ss, order, &out);
                        let stop = out.viol.as_ref().map(|v| v.step).or(out.stopped.as_ref().map(|s| s.0));
                        if let Some(step) = stop {
                            if step < order.len() {
                                skip = Some(order[..=step].to_vec());
                            }
                        }
                    }
                    Err(e) => {
                        rep.count("harness_errors", 1);
                        rep.note(&format!("merge could not be run: {}", vcore::util::clip(&e, 160)));
                    }
                }
            });
            *total_merges.entry(pass.name).or_insert(0) += merges;
        }
        for (name, n) in total_merges {
            rep.count(&format!("merges_enumerated:{name}"), n);
        }
    }

    fn replay(&self, ctx: &Ctx, case: &Value, rep: &mut Reporter) {
        let scripts: Option<Vec<Script>> = case["scripts"].as_array().map(|a| a.iter().map(|s| s.as_array().map(|x| x.iter().filter_map(|y| y.as_str().and_then(St::parse)).collect::<Script>()).unwrap_or_default()).collect());
        let order: Option<Vec<u8>> = case["order"].as_array().map(|a| a.iter().filter_map(|x| x.as_u64().map(|v| v as u8)).collect());
        let (Some(scripts), Some(order)) = (scripts, order) else {
            rep.note("replay: case does not parse");
            return;
        };
        // a recorded case holds the violating prefix of the merge: run exactly these steps
        let mut cut: Vec<Script> = vec![vec![]; scripts.len()];
        let mut pos = vec![0usize; scripts.len()];
        for &h in &order {
            let h = h as usize;
            if h >= scripts.len() || pos[h] >= scripts[h].len() {
                rep.note("replay: order does not fit the scripts");
                return;
            }
            cut[h].push(scripts[h][pos[h]]);
            pos[h] += 1;
        }
        // positions (and thereby the written values) are those of the original scripts; the run stops at the
        // violating step (on a repaired tree it goes on: open transactions are rolled back by the handle drop)
        let c = Case { scripts: &cut, order: &order };
        rep.case(vcore::util::hash_of(&(&order, scripts.iter().map(script_names).collect::<Vec<_>>())), true);
        match run_merge(&ctx.scratch, &c, Plant::from_ctx(ctx)) {
            Ok(out) => record(rep, &scripts, &order, &out),
            Err(e) => rep.note(&format!("replay: {e}")),
        }
    }
}

fn main() {
    if std::env::var("C08_COUNT").is_ok() {
        for q in [true, false] {
            let ctx = Ctx { property: "C08".into(), tier: if q { vcore::Tier::Quick } else { vcore::Tier::Thorough }, seed: 0, worker: 0, workers: 1, scratch: "/tmp".into(), deadline: std::time::Instant::now(), opts: BTreeMap::new() };
            for p in passes(&ctx) {
                let scripts = gen_scripts(&p.alphabet, p.max_len);
                let n = scripts.len();
                let mut merges = 0u64;
                let binom = |a: usize, b: usize| -> u64 { (1..=b).fold(1u64, |acc, i| acc * (a + i) as u64 / i as u64) };
                let tl = p.tuples(&scripts);
                let tuples = tl.len();
                for t in &tl {
                    let l: Vec<usize> = t.iter().map(|&i| scripts[i].len()).collect();
                    merges += if l.len() == 2 { binom(l[0], l[1]) } else { binom(l[0], l[1]) * binom(l[0] + l[1], l[2]) };
                }
                println!("{} {}: scripts {} tuples {} merges {}", if q { "quick" } else { "thorough" }, p.name, n, tuples, merges);
            }
        }
        return;
    }
    vcore::main(&C08)
}
