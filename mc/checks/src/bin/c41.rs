//! C41 — date and time values convert consistently with the calendar
//! (exhaustive input enumeration: every date of years 1..9999).
//!
//! Reference: proleptic Gregorian Rata Die arithmetic written here (closed form,
//! cross-checked on every date against an independent year-by-year accumulation).
use checks::sqlh::TestDb;
use std::borrow::Cow;
use std::collections::BTreeMap;
use turdb::constraints::ConstraintValidator;
use turdb::parsing::{parse_date, parse_time, parse_timestamp};
use turdb::records::types::DataType;
use turdb::schema::{ColumnDef, TableDef};
use turdb::sql::functions::datetime::eval_datetime_function;
use turdb::types::Value as TV;
use turdb::{OwnedValue, Row};
use vcore::{json, Check, Ctx, Reporter, Spec, Value};

// The only text renderer of DATE/TIME/TIMESTAMP values in the crate is
// src/cli/table.rs, which lib.rs gates behind the `cli` feature (not enabled for
// the harness crate).  The unmodified source file is compiled into this binary;
// the two shim modules satisfy its `crate::database::Row` / `crate::types::OwnedValue` imports.
mod database {
    pub use turdb::Row;
}
mod types {
    pub use turdb::OwnedValue;
}
#[allow(dead_code)]
#[path = "/repo/src/cli/table.rs"]
mod table;
use table::TableFormatter;

// ---------------------------------------------------------------- reference calendar
mod cal {
    pub fn leap(y: i64) -> bool {
        (y % 4 == 0 && y % 100 != 0) || y % 400 == 0
    }
    pub fn dim(y: i64, m: i64) -> i64 {
        match m {
            1 | 3 | 5 | 7 | 8 | 10 | 12 => 31,
            4 | 6 | 9 | 11 => 30,
            2 => 28 + leap(y) as i64,
            _ => 0,
        }
    }
    pub fn valid(y: i64, m: i64, d: i64) -> bool {
        (1..=12).contains(&m) && d >= 1 && d <= dim(y, m)
    }
    /// Rata Die day number (0001-01-01 = 1), closed form (Reingold/Dershowitz)
    pub fn rd(y: i64, m: i64, d: i64) -> i64 {
        let p = y - 1;
        365 * p + p / 4 - p / 100 + p / 400 + (367 * m - 362) / 12 + if m <= 2 { 0 } else if leap(y) { -1 } else { -2 } + d
    }
    pub const UNIX_RD: i64 = 719_163; // rd(1970,1,1)
    pub fn doy(y: i64, m: i64, d: i64) -> i64 {
        (1..m).map(|k| dim(y, k)).sum::<i64>() + d
    }
    /// independent derivation: days before Jan 1 of each year by accumulation
    pub fn year_starts() -> Vec<i64> {
        let mut v = vec![0i64; 10_002];
        let mut acc = 0i64;
        for y in 1..=10_001usize {
            v[y] = acc;
            acc += if leap(y as i64) { 366 } else { 365 };
        }
        v
    }
    pub fn from_rd(ys: &[i64], r: i64) -> (i64, i64, i64) {
        // largest y with ys[y] < r
        let mut lo = 1usize;
        let mut hi = 10_001usize;
        while lo < hi {
            let mid = (lo + hi + 1) / 2;
            if ys[mid] < r {
                lo = mid;
            } else {
                hi = mid - 1;
            }
        }
        let y = lo as i64;
        let mut rest = r - ys[lo];
        let mut m = 1;
        while rest > dim(y, m) {
            rest -= dim(y, m);
            m += 1;
        }
        (y, m, rest)
    }
    pub fn fmt(y: i64, m: i64, d: i64) -> String {
        format!("{y:04}-{m:02}-{d:02}")
    }
    pub const DAYNAMES: [&str; 7] = ["Sunday", "Monday", "Tuesday", "Wednesday", "Thursday", "Friday", "Saturday"];
}

fn yclass(y: i64) -> &'static str {
    match (y % 400 == 0, y % 100 == 0, y % 4 == 0) {
        (true, _, _) => "century-leap",
        (_, true, _) => "century-common",
        (_, _, true) => "leap",
        _ => "common",
    }
}
fn era(y: i64) -> &'static str {
    if y < 1970 {
        "pre-1970"
    } else {
        "from-1970"
    }
}
/// class of a valid date for signatures
fn dclass(y: i64, m: i64, d: i64, with_era: bool) -> String {
    let p = if m == 2 && d == 29 { "feb-29" } else if m <= 2 { "jan-feb" } else { "mar-dec" };
    if with_era {
        format!("{}-{}-{}", yclass(y), p, era(y))
    } else {
        format!("{}-{}", yclass(y), p)
    }
}
/// class of an invalid field combination
fn iclass(y: i64, m: i64, d: i64) -> String {
    if m == 0 {
        "month-0".into()
    } else if m >= 13 {
        "month-13".into()
    } else if d == 0 {
        "day-0".into()
    } else if d >= 32 {
        "day-32".into()
    } else if m == 2 {
        if d == 29 {
            if y % 100 == 0 { "feb-29-century-nonleap".into() } else { "feb-29-nonleap".into() }
        } else {
            format!("feb-{d}")
        }
    } else {
        "day-31-in-30-day-month".into()
    }
}
fn off(got: i64, want: i64) -> String {
    let d = got - want;
    if d.abs() <= 3 {
        format!("off-by{d:+}")
    } else if d.abs() == 365 || d.abs() == 366 {
        "off-by-a-year".into()
    } else {
        "wrong-value".into()
    }
}

// ---------------------------------------------------------------- subject wrappers
#[derive(Debug, Clone, PartialEq)]
enum Sv {
    Int(i64),
    Text(String),
    Null,
    NoResult,
    Panic(String),
    Other(String),
}
impl Sv {
    fn rejected(&self) -> bool {
        matches!(self, Sv::Null | Sv::NoResult)
    }
    fn cls(&self) -> &'static str {
        match self {
            Sv::Int(_) => "int",
            Sv::Text(_) => "text",
            Sv::Null => "null",
            Sv::NoResult => "none",
            Sv::Panic(_) => "panic",
            Sv::Other(_) => "other-type",
        }
    }
}
enum Arg<'a> {
    T(&'a str),
    I(i64),
}
fn func(name: &str, args: &[Arg]) -> Sv {
    let a: Vec<Option<TV>> = args
        .iter()
        .map(|x| match x {
            Arg::T(s) => Some(TV::Text(Cow::Borrowed(*s))),
            Arg::I(i) => Some(TV::Int(*i)),
        })
        .collect();
    match vcore::catch(|| match eval_datetime_function(name, &a) {
        None => Sv::NoResult,
        Some(TV::Null) => Sv::Null,
        Some(TV::Int(i)) => Sv::Int(i),
        Some(TV::Text(s)) => Sv::Text(s.to_string()),
        Some(o) => Sv::Other(format!("{o:?}")),
    }) {
        Ok(v) => v,
        Err(p) => Sv::Panic(p),
    }
}
/// literal parsers: Ok(internal value) / Err(message) / panic
fn lit(which: u8, text: &str) -> Result<Result<OwnedValue, String>, String> {
    vcore::catch(|| {
        match which {
            0 => parse_date(text),
            1 => parse_time(text),
            _ => parse_timestamp(text),
        }
        .map_err(|e| format!("{e:#}"))
    })
}
/// the DEFAULT-clause parser, reached through the public ConstraintValidator::apply_defaults
fn dflt(dt: DataType, text: &str) -> Result<OwnedValue, String> {
    vcore::catch(|| {
        let table = TableDef::new(1, "t", vec![ColumnDef::new("c", dt).with_default(text)]);
        let mut vals = vec![OwnedValue::Null];
        ConstraintValidator::new(&table).apply_defaults(&mut vals);
        vals.pop().unwrap_or(OwnedValue::Null)
    })
}
/// text rendering of internal values through the CLI table formatter (the only renderer in the crate)
fn render(vals: Vec<OwnedValue>) -> Result<Vec<String>, String> {
    let n = vals.len();
    let rows: Vec<Row> = vals.into_iter().map(|v| Row::new(vec![v])).collect();
    let out = vcore::catch(|| TableFormatter::new(vec!["c".to_string()], &rows).render())?;
    let cells: Vec<String> = out.lines().skip(3).filter(|l| l.starts_with('|')).map(|l| l.trim_matches('|').trim().to_string()).collect();
    if cells.len() != n {
        return Err(format!("formatter returned {} data lines for {} rows", cells.len(), n));
    }
    Ok(cells)
}

#[derive(Default)]
struct Stats {
    c: BTreeMap<&'static str, u64>,
}
impl Stats {
    #[inline]
    fn add(&mut self, k: &'static str, n: u64) {
        *self.c.entry(k).or_insert(0) += n;
    }
}
struct Env<'a> {
    ys: Vec<i64>,
    /// TO_DAYS(d) - RataDie(d), fixed on 0001-01-01 (0 = Rata Die numbering, 365 = MySQL numbering)
    k: i64,
    st: Stats,
    rep: &'a mut Reporter,
}
impl<'a> Env<'a> {
    fn v(&mut self, oracle: &str, construct: &str, cls: &str, case: Value, expected: &str, observed: &str) {
        let sig = format!("C41/{oracle}/{construct}/{cls}");
        self.rep.violation("C41", oracle, &sig, || case, expected, observed);
    }
}
fn to_days_offset() -> i64 {
    match func("TO_DAYS", &[Arg::T("0001-01-01")]) {
        Sv::Int(n) => n - 1,
        _ => 0,
    }
}

// ---------------------------------------------------------------- direct layer: one year
fn expect(e: &mut Env, oracle: &str, construct: &str, got: Sv, want: Sv, case: &dyn Fn() -> Value, call: &str) {
    if got == want {
        return;
    }
    let cls = match (&want, &got) {
        (Sv::Int(w), Sv::Int(g)) => off(*g, *w),
        (Sv::Text(_), Sv::Text(_)) => "text-differs".to_string(),
        (_, g) => format!("ok>{}", g.cls()),
    };
    e.v(oracle, construct, &cls, case(), &format!("{call} = {want:?}"), &format!("{got:?}"));
}

const DATE_FUNCS_ON_INVALID: [&str; 6] = ["TO_DAYS", "DAYOFWEEK", "DAYOFYEAR", "LAST_DAY", "DATEDIFF", "DATE_ADD"];

fn check_year_direct(e: &mut Env, y: i64) {
    let mut rvals = Vec::new();
    let mut rexp: Vec<(i64, i64, String)> = Vec::new();
    for m in 0..=13i64 {
        for d in 0..=32i64 {
            let text = cal::fmt(y, m, d);
            let case = || json!({"kind":"year","y":y,"date":text});
            if cal::valid(y, m, d) {
                let r = cal::rd(y, m, d);
                let doy = cal::doy(y, m, d);
                if r != e.ys[y as usize] + doy || cal::from_rd(&e.ys, r) != (y, m, d) {
                    vcore::machinery(&format!("C41 harness self-check: closed-form Rata Die and year accumulation disagree on {text}"));
                }
                let n = r - cal::UNIX_RD;
                let dc_e = dclass(y, m, d, true);
                let dc = dclass(y, m, d, false);
                // --- literal parser
                let l = match lit(0, &text) {
                    Ok(Ok(OwnedValue::Date(g))) => {
                        if g as i64 != n {
                            e.v("parse_date", &dc_e, &off(g as i64, n), case(), &format!("Date({n})"), &format!("Date({g})"));
                        }
                        Some(g as i64)
                    }
                    Ok(Ok(o)) => {
                        e.v("parse_date", &dc_e, "valid>other-type", case(), &format!("Date({n})"), &format!("{o:?}"));
                        None
                    }
                    Ok(Err(msg)) => {
                        e.v("parse_date", &dc_e, "valid>rejected", case(), &format!("Date({n})"), &msg);
                        None
                    }
                    Err(p) => {
                        e.v("parse_date", &dc_e, "valid>panic", case(), &format!("Date({n})"), &p);
                        None
                    }
                };
                // --- DEFAULT parser
                let df = match dflt(DataType::Date, &text) {
                    Ok(OwnedValue::Date(g)) => {
                        if g as i64 != n {
                            e.v("default-date", &dc_e, &off(g as i64, n), case(), &format!("Date({n})"), &format!("Date({g})"));
                        }
                        Some(g as i64)
                    }
                    Ok(o) => {
                        e.v("default-date", &dc_e, if matches!(o, OwnedValue::Null) { "valid>null" } else { "valid>other-type" }, case(), &format!("Date({n})"), &format!("{o:?}"));
                        None
                    }
                    Err(p) => {
                        e.v("default-date", &dc_e, "valid>panic", case(), &format!("Date({n})"), &p);
                        None
                    }
                };
                // --- date functions
                let k = e.k;
                let td = func("TO_DAYS", &[Arg::T(&text)]);
                let fdays = if let Sv::Int(t) = td { Some(t - k - cal::UNIX_RD) } else { None };
                expect(e, "to_days", &dc, td, Sv::Int(r + k), &case, "TO_DAYS(d) [difference to TO_DAYS('0001-01-01')]");
                expect(e, "from_days", &dc, func("FROM_DAYS", &[Arg::I(r + k)]), Sv::Text(text.clone()), &case, "FROM_DAYS(TO_DAYS(d))");
                expect(e, "dayofweek", &dc, func("DAYOFWEEK", &[Arg::T(&text)]), Sv::Int(r % 7 + 1), &case, "DAYOFWEEK(d) (1=Sunday)");
                expect(e, "weekday", &dc, func("WEEKDAY", &[Arg::T(&text)]), Sv::Int((r + 6) % 7), &case, "WEEKDAY(d) (0=Monday)");
                expect(e, "dayname", &dc, func("DAYNAME", &[Arg::T(&text)]), Sv::Text(cal::DAYNAMES[(r % 7) as usize].to_string()), &case, "DAYNAME(d)");
                expect(e, "dayofyear", &dc, func("DAYOFYEAR", &[Arg::T(&text)]), Sv::Int(doy), &case, "DAYOFYEAR(d)");
                expect(e, "last_day", &dc, func("LAST_DAY", &[Arg::T(&text)]), Sv::Text(cal::fmt(y, m, cal::dim(y, m))), &case, "LAST_DAY(d)");
                expect(e, "datediff", &dc, func("DATEDIFF", &[Arg::T(&text), Arg::T("1970-01-01")]), Sv::Int(n), &case, "DATEDIFF(d,'1970-01-01')");
                expect(e, "datediff", &dc, func("DATEDIFF", &[Arg::T("2000-02-29"), Arg::T(&text)]), Sv::Int(730_179 - r), &case, "DATEDIFF('2000-02-29',d)");
                expect(e, "datediff", &dc, func("DATEDIFF", &[Arg::T(&text), Arg::T(&cal::fmt(y, 1, 1))]), Sv::Int(doy - 1), &case, "DATEDIFF(d, Jan 1 of the year)");
                if r < 3_652_059 {
                    let (a, b, c) = cal::from_rd(&e.ys, r + 1);
                    expect(e, "date_add", &dc, func("DATE_ADD", &[Arg::T(&text), Arg::I(1)]), Sv::Text(cal::fmt(a, b, c)), &case, "DATE_ADD(d,1)");
                }
                if r + 366 <= 3_652_059 {
                    let (a, b, c) = cal::from_rd(&e.ys, r + 366);
                    expect(e, "date_add", &dc, func("DATE_ADD", &[Arg::T(&text), Arg::I(366)]), Sv::Text(cal::fmt(a, b, c)), &case, "DATE_ADD(d,366)");
                }
                if r > 1 {
                    let (a, b, c) = cal::from_rd(&e.ys, r - 1);
                    expect(e, "date_sub", &dc, func("DATE_SUB", &[Arg::T(&text), Arg::I(1)]), Sv::Text(cal::fmt(a, b, c)), &case, "DATE_SUB(d,1)");
                }
                expect(e, "makedate", &dc, func("MAKEDATE", &[Arg::I(y), Arg::I(doy)]), Sv::Text(text.clone()), &case, "MAKEDATE(year, dayofyear)");
                expect(e, "year", &dc, func("YEAR", &[Arg::T(&text)]), Sv::Int(y), &case, "YEAR(d)");
                expect(e, "month", &dc, func("MONTH", &[Arg::T(&text)]), Sv::Int(m), &case, "MONTH(d)");
                expect(e, "day", &dc, func("DAY", &[Arg::T(&text)]), Sv::Int(d), &case, "DAY(d)");
                expect(e, "quarter", &dc, func("QUARTER", &[Arg::T(&text)]), Sv::Int((m - 1) / 3 + 1), &case, "QUARTER(d)");
                e.st.add("function_calls_on_valid_dates", 18);
                if l == Some(n) && df == Some(n) && fdays == Some(n) {
                    e.st.add("dates_where_literal_default_and_to_days_agree_on_the_day_number", 1);
                }
                e.st.add("valid_dates", 1);
                e.rep.outcome(if l == Some(n) && df == Some(n) && fdays == Some(n) { "valid date: literal, DEFAULT and TO_DAYS give the calendar's day number" } else { "valid date: some converter deviates" });
                rvals.push(OwnedValue::Date(n as i32));
                rexp.push((m, d, text.clone()));
            } else {
                let ic = iclass(y, m, d);
                e.st.add("invalid_field_combinations", 1);
                match lit(0, &text) {
                    Ok(Err(_)) => {
                        e.st.add("invalid_rejected_by_parse_date", 1);
                        e.rep.outcome("invalid combination: rejected by the literal parser");
                    }
                    Ok(Ok(o)) => e.v("parse_date", "invalid-accepted", &ic, case(), "Err", &format!("{o:?}")),
                    Err(p) => e.v("parse_date", "invalid-panic", &ic, case(), "Err", &p),
                }
                match dflt(DataType::Date, &text) {
                    Ok(OwnedValue::Null) => e.st.add("invalid_default_yields_null(tolerated as rejection)", 1),
                    Ok(o) => {
                        e.rep.outcome("invalid combination: accepted by the DEFAULT parser");
                        e.v("default-date", "invalid-accepted", &ic, case(), "rejected (error or NULL)", &format!("{o:?}"));
                    }
                    Err(p) => e.v("default-date", "invalid-panic", &ic, case(), "rejected (error or NULL)", &p),
                }
                for f in DATE_FUNCS_ON_INVALID {
                    let got = match f {
                        "DATEDIFF" => func(f, &[Arg::T(&text), Arg::T("2000-01-01")]),
                        "DATE_ADD" => func(f, &[Arg::T(&text), Arg::I(1)]),
                        _ => func(f, &[Arg::T(&text)]),
                    };
                    let o = f.to_lowercase();
                    match got {
                        Sv::Panic(p) => e.v(&o, "invalid-panic", &ic, case(), "NULL", &p),
                        g if g.rejected() => e.st.add("invalid_rejected_by_function", 1),
                        g => e.v(&o, "invalid-accepted", &ic, case(), &format!("{f}('{text}') = NULL"), &format!("{g:?}")),
                    }
                }
            }
        }
    }
    // --- rendering of the reference day numbers of the whole year
    match render(rvals) {
        Ok(cells) => {
            for (cell, (m, d, text)) in cells.iter().zip(&rexp) {
                if cell != text {
                    e.v("render-date", &dclass(y, *m, *d, true), "text-differs", json!({"kind":"year","y":y,"date":text}), text, cell);
                }
            }
            e.st.add("dates_rendered", rexp.len() as u64);
        }
        Err(p) => e.v("render-date", &format!("{}-{}", yclass(y), era(y)), "ok>panic", json!({"kind":"year","y":y}), "table text", &p),
    }
    check_year_timestamps(e, y);
}

const TODS: [(&str, i64, &str); 3] = [("00:00:00", 0, "midnight"), ("12:00:00", 43_200_000_000, "noon"), ("23:59:59.999999", 86_399_999_999, "last-microsecond")];
fn ts_dates(y: i64) -> Vec<(i64, i64)> {
    let mut v = vec![(1, 1), (2, 28)];
    if cal::leap(y) {
        v.push((2, 29));
    }
    v.extend([(3, 1), (12, 31)]);
    v
}
fn check_year_timestamps(e: &mut Env, y: i64) {
    let mut rvals = Vec::new();
    let mut rexp = Vec::new();
    for (m, d) in ts_dates(y) {
        let n = cal::rd(y, m, d) - cal::UNIX_RD;
        for (tod, us, tname) in TODS {
            let want = n * 86_400_000_000 + us;
            let cls = format!("{}-{}", era(y), tname);
            for sep in [" ", "T"] {
                let text = format!("{}{}{}", cal::fmt(y, m, d), sep, tod);
                let case = || json!({"kind":"year","y":y,"timestamp":text});
                match lit(2, &text) {
                    Ok(Ok(OwnedValue::Timestamp(g))) if g == want => e.st.add("timestamps_parsed", 1),
                    Ok(Ok(OwnedValue::Timestamp(g))) => e.v("parse_timestamp", &cls, if (g - want).abs() % 86_400_000_000 == 0 { "wrong-day" } else { "wrong-value" }, case(), &format!("Timestamp({want})"), &format!("Timestamp({g})")),
                    Ok(Ok(o)) => e.v("parse_timestamp", &cls, "valid>other-type", case(), &format!("Timestamp({want})"), &format!("{o:?}")),
                    Ok(Err(msg)) => e.v("parse_timestamp", &cls, "valid>rejected", case(), &format!("Timestamp({want})"), &msg),
                    Err(p) => e.v("parse_timestamp", &cls, "valid>panic", case(), &format!("Timestamp({want})"), &p),
                }
                match dflt(DataType::Timestamp, &text) {
                    Ok(OwnedValue::Timestamp(g)) if g == want => e.st.add("timestamps_default_parsed", 1),
                    Ok(OwnedValue::Timestamp(g)) => e.v("default-timestamp", &cls, if (g - want).abs() % 86_400_000_000 == 0 { "wrong-day" } else { "wrong-value" }, case(), &format!("Timestamp({want})"), &format!("Timestamp({g})")),
                    Ok(o) => e.v("default-timestamp", &cls, "valid>other", case(), &format!("Timestamp({want})"), &format!("{o:?}")),
                    Err(p) => e.v("default-timestamp", &cls, "valid>panic", case(), &format!("Timestamp({want})"), &p),
                }
            }
            rvals.push(OwnedValue::Timestamp(want));
            rexp.push((format!("{} {}", cal::fmt(y, m, d), tod), cls));
        }
    }
    match render(rvals) {
        Ok(cells) => {
            for (cell, (text, cls)) in cells.iter().zip(&rexp) {
                // tolerance: 'T' separator accepted as well
                if cell != text && cell.replace('T', " ") != *text {
                    e.v("render-timestamp", cls, "text-differs", json!({"kind":"year","y":y,"timestamp":text}), text, cell);
                }
            }
            e.st.add("timestamps_rendered", rexp.len() as u64);
        }
        Err(p) => e.v("render-timestamp", era(y), "ok>panic", json!({"kind":"year","y":y}), "table text", &p),
    }
    // invalid timestamps
    for (text, ic) in [
        (format!("{} 00:00:00", cal::fmt(y, 2, 30)), "feb-30"),
        (format!("{} 12:00:00", cal::fmt(y, 13, 1)), "month-13"),
        (format!("{} 24:00:00", cal::fmt(y, 1, 1)), "hour-24"),
        (format!("{} 23:60:00", cal::fmt(y, 1, 1)), "minute-60"),
        (format!("{} 23:59:60", cal::fmt(y, 12, 31)), "second-60"),
    ] {
        let case = || json!({"kind":"year","y":y,"timestamp":text});
        e.st.add("invalid_timestamps", 1);
        match lit(2, &text) {
            Ok(Err(_)) => {}
            Ok(Ok(o)) => e.v("parse_timestamp", "invalid-accepted", ic, case(), "Err", &format!("{o:?}")),
            Err(p) => e.v("parse_timestamp", "invalid-panic", ic, case(), "Err", &p),
        }
        match dflt(DataType::Timestamp, &text) {
            Ok(OwnedValue::Null) => {}
            Ok(o) => e.v("default-timestamp", "invalid-accepted", ic, case(), "rejected (error or NULL)", &format!("{o:?}")),
            Err(p) => e.v("default-timestamp", "invalid-panic", ic, case(), "rejected (error or NULL)", &p),
        }
    }
}

// ---------------------------------------------------------------- direct layer: times, one hour
const FRACS: [(&str, i64); 7] = [("", 0), (".0", 0), (".000001", 1), (".5", 500_000), (".500000", 500_000), (".999999", 999_999), (".123456", 123_456)];
fn check_hour_direct(e: &mut Env, h: i64) {
    let mut rvals = Vec::new();
    let mut rexp = Vec::new();
    for s in h * 3600..(h + 1) * 3600 {
        let (mi, se) = ((s % 3600) / 60, s % 60);
        let base = format!("{h:02}:{mi:02}:{se:02}");
        let tcls = if s == 0 { "midnight" } else if s == 86_399 { "last-second" } else if se == 0 && mi == 0 { "hour-start" } else if se == 59 && mi == 59 { "hour-end" } else if se == 0 { "minute-start" } else if se == 59 { "minute-end" } else { "mid-minute" };
        for (fr, us) in FRACS {
            let text = format!("{base}{fr}");
            let want = s * 1_000_000 + us;
            let cls = format!("{tcls}-frac{}", if fr.is_empty() { "-none" } else { fr });
            let case = || json!({"kind":"hour","h":h,"time":text});
            match lit(1, &text) {
                Ok(Ok(OwnedValue::Time(g))) if g == want => e.st.add("times_parsed", 1),
                Ok(Ok(OwnedValue::Time(g))) => e.v("parse_time", &cls, "wrong-value", case(), &format!("Time({want})"), &format!("Time({g})")),
                Ok(Ok(o)) => e.v("parse_time", &cls, "valid>other-type", case(), &format!("Time({want})"), &format!("{o:?}")),
                Ok(Err(msg)) => e.v("parse_time", &cls, "valid>rejected", case(), &format!("Time({want})"), &msg),
                Err(p) => e.v("parse_time", &cls, "valid>panic", case(), &format!("Time({want})"), &p),
            }
            match dflt(DataType::Time, &text) {
                Ok(OwnedValue::Time(g)) if g == want => e.st.add("times_default_parsed", 1),
                Ok(OwnedValue::Time(g)) => e.v("default-time", &cls, "wrong-value", case(), &format!("Time({want})"), &format!("Time({g})")),
                Ok(o) => e.v("default-time", &cls, "valid>other", case(), &format!("Time({want})"), &format!("{o:?}")),
                Err(p) => e.v("default-time", &cls, "valid>panic", case(), &format!("Time({want})"), &p),
            }
            if fr.is_empty() || fr.len() == 7 {
                rvals.push(OwnedValue::Time(want));
                rexp.push((if us == 0 { base.clone() } else { text.clone() }, cls.clone()));
            }
        }
        let case = || json!({"kind":"hour","h":h,"time":base});
        expect(e, "time_to_sec", tcls, func("TIME_TO_SEC", &[Arg::T(&base)]), Sv::Int(s), &case, "TIME_TO_SEC(t)");
        expect(e, "sec_to_time", tcls, func("SEC_TO_TIME", &[Arg::I(s)]), Sv::Text(base.clone()), &case, "SEC_TO_TIME(s)");
        expect(e, "hour", tcls, func("HOUR", &[Arg::T(&base)]), Sv::Int(h), &case, "HOUR(t)");
        expect(e, "minute", tcls, func("MINUTE", &[Arg::T(&base)]), Sv::Int(mi), &case, "MINUTE(t)");
        expect(e, "second", tcls, func("SECOND", &[Arg::T(&base)]), Sv::Int(se), &case, "SECOND(t)");
    }
    match render(rvals) {
        Ok(cells) => {
            for (cell, (text, cls)) in cells.iter().zip(&rexp) {
                // tolerance: trailing zeros of the fraction may be trimmed
                let norm = |s: &str| if s.contains('.') { s.trim_end_matches('0').trim_end_matches('.').to_string() } else { s.to_string() };
                if norm(cell) != norm(text) {
                    e.v("render-time", cls, "text-differs", json!({"kind":"hour","h":h,"time":text}), text, cell);
                }
            }
            e.st.add("times_rendered", rexp.len() as u64);
        }
        Err(p) => e.v("render-time", "hour", "ok>panic", json!({"kind":"hour","h":h}), "table text", &p),
    }
}
const INVALID_TIMES: [(&str, &str); 11] = [
    ("24:00:00", "hour-24"),
    ("25:00:00", "hour-25"),
    ("99:59:59", "hour-99"),
    ("00:60:00", "minute-60"),
    ("23:60:00", "minute-60"),
    ("12:99:00", "minute-99"),
    ("00:00:60", "second-60"),
    ("23:59:60", "second-60"),
    ("12:00:99", "second-99"),
    ("24:60:60", "hour-24"),
    ("23:59:60.5", "second-60"),
];
fn check_invalid_times_direct(e: &mut Env) {
    for (text, ic) in INVALID_TIMES {
        let case = || json!({"kind":"invalid-times","time":text});
        e.st.add("invalid_times", 1);
        match lit(1, text) {
            Ok(Err(_)) => e.st.add("invalid_rejected_by_parse_time", 1),
            Ok(Ok(o)) => e.v("parse_time", "invalid-accepted", ic, case(), "Err", &format!("{o:?}")),
            Err(p) => e.v("parse_time", "invalid-panic", ic, case(), "Err", &p),
        }
        match dflt(DataType::Time, text) {
            Ok(OwnedValue::Null) => {}
            Ok(o) => e.v("default-time", "invalid-accepted", ic, case(), "rejected (error or NULL)", &format!("{o:?}")),
            Err(p) => e.v("default-time", "invalid-panic", ic, case(), "rejected (error or NULL)", &p),
        }
    }
}

// ---------------------------------------------------------------- SQL layer
fn q(t: &TestDb, sql: &str) -> Result<Vec<Vec<OwnedValue>>, String> {
    match vcore::catch(|| t.db().query(sql).map_err(|e| format!("{e:#}"))) {
        Ok(Ok(rows)) => Ok(rows.into_iter().map(|r| r.values).collect()),
        Ok(Err(e)) => Err(e),
        Err(p) => Err(format!("PANIC {p}")),
    }
}
fn ov_to_sv(v: &OwnedValue) -> Sv {
    match v {
        OwnedValue::Int(i) => Sv::Int(*i),
        OwnedValue::Date(d) => Sv::Int(*d as i64), // tolerance: CAST(.. AS DATE) may answer Int or Date
        OwnedValue::Time(t) => Sv::Int(*t),
        OwnedValue::Timestamp(t) => Sv::Int(*t),
        OwnedValue::TimestampTz(t, 0) => Sv::Int(*t),
        OwnedValue::Text(s) => Sv::Text(s.clone()),
        OwnedValue::Null => Sv::Null,
        o => Sv::Other(format!("{o:?}")),
    }
}
fn by_id(rows: &[Vec<OwnedValue>]) -> BTreeMap<i64, OwnedValue> {
    rows.iter().filter_map(|r| match (r.first(), r.get(1)) {
        (Some(OwnedValue::Int(i)), Some(v)) => Some((*i, v.clone())),
        _ => None,
    }).collect()
}
fn invalid_grid(y: i64) -> Vec<(i64, i64)> {
    let mut v = vec![(0, 1), (13, 1), (0, 0), (13, 32)];
    for m in 1..=12 {
        v.push((m, 0));
        v.push((m, 32));
        for d in cal::dim(y, m) + 1..=31 {
            v.push((m, d));
        }
    }
    v
}

/// SQL layer for one year.  `t` is a database shared by up to 25 consecutive
/// years of one worker (tables d and ts accumulate rows keyed by year).
fn check_year_sql(t: &TestDb, e: &mut Env, y: i64, full: bool, invalid_defaults: bool) {
    let case = |what: &str| json!({"kind":"year-sql","y":y,"full":full,"at":what});
    let base = y * 10_000;
    let mut dates: Vec<(i64, i64)> = Vec::new();
    for m in 1..=12 {
        if full {
            dates.extend((1..=cal::dim(y, m)).map(|d| (m, d)));
        } else {
            dates.push((m, 1));
            dates.push((m, cal::dim(y, m)));
        }
    }
    // --- INSERT text into a DATE column, SELECT back (one transaction per year: one sync instead of 12)
    let in_txn = t.exec("BEGIN").ok();
    for chunk in dates.chunks(62) {
        let rows: Vec<String> = chunk.iter().map(|(m, d)| format!("({},'{}')", base + m * 100 + d, cal::fmt(y, *m, *d))).collect();
        let r = t.exec(&format!("INSERT INTO d VALUES {}", rows.join(",")));
        if !r.ok() {
            e.v("sql-insert-date", &dclass(y, chunk[0].0, chunk[0].1, true), "valid>rejected", case(&cal::fmt(y, chunk[0].0, chunk[0].1)), "rows inserted", &r.show());
        }
    }
    if in_txn {
        let r = t.exec("COMMIT");
        if !r.ok() {
            e.v("sql-setup", "commit", "ok>err", case("COMMIT"), "Done", &r.show());
        }
    }
    match q(t, "SELECT * FROM d") {
        Err(msg) => e.v("sql-select-date", &format!("{}-{}", yclass(y), era(y)), "ok>err", case(""), "rows", &msg),
        Ok(rows) => {
            let m_ = by_id(&rows);
            for (m, d) in &dates {
                let n = cal::rd(y, *m, *d) - cal::UNIX_RD;
                let text = cal::fmt(y, *m, *d);
                e.st.add("sql_dates_stored_and_read_back", 1);
                match m_.get(&(base + m * 100 + d)) {
                    Some(OwnedValue::Date(g)) if *g as i64 == n => {}
                    Some(OwnedValue::Date(g)) => e.v("sql-insert-date", &dclass(y, *m, *d, true), &off(*g as i64, n), case(&text), &format!("Date({n})"), &format!("Date({g})")),
                    Some(o) => e.v("sql-insert-date", &dclass(y, *m, *d, true), "valid>other-type", case(&text), &format!("Date({n})"), &format!("{o:?}")),
                    None => e.v("sql-insert-date", &dclass(y, *m, *d, true), "row-missing", case(&text), &format!("Date({n})"), "no row"),
                }
            }
        }
    }
    // --- functions and CAST through SQL, one SELECT per <= 31 dates
    const NF: usize = 7;
    for chunk in dates.chunks(31) {
        let mut exprs = Vec::new();
        for (m, d) in chunk {
            let tx = cal::fmt(y, *m, *d);
            let r = cal::rd(y, *m, *d);
            exprs.push(format!("TO_DAYS('{tx}'), FROM_DAYS({}), DAYOFWEEK('{tx}'), DAYOFYEAR('{tx}'), LAST_DAY('{tx}'), DATEDIFF('{tx}','1970-01-01'), CAST('{tx}' AS DATE)", r + e.k));
        }
        match q(t, &format!("SELECT {}", exprs.join(", "))) {
            Ok(rows) if rows.len() == 1 && rows[0].len() == NF * chunk.len() => {
                for (i, (m, d)) in chunk.iter().enumerate() {
                    let tx = cal::fmt(y, *m, *d);
                    let r = cal::rd(y, *m, *d);
                    let dc = dclass(y, *m, *d, false);
                    let cs = || json!({"kind":"year-sql","y":y,"full":full,"at":tx});
                    let g = |j: usize| ov_to_sv(&rows[0][i * NF + j]);
                    expect(e, "sql-to_days", &dc, g(0), Sv::Int(r + e.k), &cs, "SELECT TO_DAYS(d)");
                    expect(e, "sql-from_days", &dc, g(1), Sv::Text(tx.clone()), &cs, "SELECT FROM_DAYS(n)");
                    expect(e, "sql-dayofweek", &dc, g(2), Sv::Int(r % 7 + 1), &cs, "SELECT DAYOFWEEK(d)");
                    expect(e, "sql-dayofyear", &dc, g(3), Sv::Int(cal::doy(y, *m, *d)), &cs, "SELECT DAYOFYEAR(d)");
                    expect(e, "sql-last_day", &dc, g(4), Sv::Text(cal::fmt(y, *m, cal::dim(y, *m))), &cs, "SELECT LAST_DAY(d)");
                    expect(e, "sql-datediff", &dc, g(5), Sv::Int(r - cal::UNIX_RD), &cs, "SELECT DATEDIFF(d,'1970-01-01')");
                    expect(e, "sql-cast-date", &dclass(y, *m, *d, true), g(6), Sv::Int(r - cal::UNIX_RD), &cs, "SELECT CAST(d AS DATE)");
                    e.st.add("sql_function_expressions", NF as u64);
                }
            }
            Ok(rows) => e.v("sql-select-functions", yclass(y), "unexpected-shape", case(&cal::fmt(y, chunk[0].0, chunk[0].1)), "1 row", &format!("{} rows x {:?} columns", rows.len(), rows.first().map(|r| r.len()))),
            Err(msg) => e.v("sql-select-functions", yclass(y), "ok>err", case(&cal::fmt(y, chunk[0].0, chunk[0].1)), "1 row", &msg),
        }
    }
    // --- timestamps at the year boundaries
    {
        let mut want = Vec::new();
        let mut rows = Vec::new();
        let mut casts = Vec::new();
        for (m, d) in ts_dates(y) {
            for (tod, us, tname) in TODS {
                let id = y * 100 + want.len() as i64;
                let tx = format!("{} {}", cal::fmt(y, m, d), tod);
                rows.push(format!("({id},'{tx}')"));
                casts.push(format!("CAST('{tx}' AS TIMESTAMP)"));
                want.push(((cal::rd(y, m, d) - cal::UNIX_RD) * 86_400_000_000 + us, tx, format!("{}-{}", era(y), tname)));
            }
        }
        let r = t.exec(&format!("INSERT INTO ts VALUES {}", rows.join(",")));
        if !r.ok() {
            e.v("sql-insert-timestamp", era(y), "valid>rejected", case(&want[0].1), "rows inserted", &r.show());
        } else if let Ok(got) = q(t, "SELECT * FROM ts") {
            let m_ = by_id(&got);
            for (id, (w, tx, cls)) in want.iter().enumerate() {
                e.st.add("sql_timestamps", 1);
                match m_.get(&(y * 100 + id as i64)) {
                    Some(OwnedValue::Timestamp(g)) if g == w => {}
                    Some(o) => e.v("sql-insert-timestamp", cls, "wrong-value", case(tx), &format!("Timestamp({w})"), &format!("{o:?}")),
                    None => e.v("sql-insert-timestamp", cls, "row-missing", case(tx), &format!("Timestamp({w})"), "no row"),
                }
            }
        }
        match q(t, &format!("SELECT {}", casts.join(", "))) {
            Ok(got) if got.len() == 1 && got[0].len() == want.len() => {
                for (i, (w, tx, cls)) in want.iter().enumerate() {
                    let cs = || json!({"kind":"year-sql","y":y,"full":full,"at":tx});
                    expect(e, "sql-cast-timestamp", cls, ov_to_sv(&got[0][i]), Sv::Int(*w), &cs, "SELECT CAST(ts AS TIMESTAMP) (micros)");
                }
            }
            other => e.v("sql-cast-timestamp", era(y), "ok>err", case("CAST"), "1 row", &format!("{:?}", other.map(|r| r.len()))),
        }
    }
    if !full {
        return;
    }
    // --- invalid field combinations through SQL
    let inv = invalid_grid(y);
    for (m, d) in &inv {
        let tx = cal::fmt(y, *m, *d);
        e.st.add("sql_invalid_inserts", 1);
        let r = t.exec(&format!("INSERT INTO d VALUES ({}, '{tx}')", base + 5000 + m * 100 + d));
        match r {
            checks::sqlh::Res::Err(_) => {}
            checks::sqlh::Res::Panic(p) => e.v("sql-insert-date", "invalid-panic", &iclass(y, *m, *d), case(&tx), "Err", &p),
            o => e.v("sql-insert-date", "invalid-accepted", &iclass(y, *m, *d), case(&tx), "Err", &o.show()),
        }
    }
    let casts: Vec<String> = inv.iter().map(|(m, d)| format!("CAST('{}' AS DATE)", cal::fmt(y, *m, *d))).collect();
    match q(t, &format!("SELECT {}", casts.join(", "))) {
        Ok(got) if got.len() == 1 && got[0].len() == inv.len() => {
            for (i, (m, d)) in inv.iter().enumerate() {
                if !matches!(got[0][i], OwnedValue::Null) {
                    e.v("sql-cast-date", "invalid-accepted", &iclass(y, *m, *d), case(&cal::fmt(y, *m, *d)), "NULL or error", &format!("{:?}", got[0][i]));
                }
            }
        }
        _ => e.st.add("sql_invalid_cast_select_failed_as_a_whole(rejection)", 1),
    }
    if !invalid_defaults {
        return;
    }
    for (i, (m, d)) in [(2, 30), (2, if cal::leap(y) { 31 } else { 29 }), (4, 31), (13, 1), (0, 1), (1, 0), (1, 32)].iter().enumerate() {
        let tx = cal::fmt(y, *m, *d);
        e.st.add("sql_invalid_defaults", 1);
        if !t.exec(&format!("CREATE TABLE dfi{y}_{i}(id INT PRIMARY KEY, c DATE DEFAULT '{tx}')")).ok() {
            continue;
        }
        if !t.exec(&format!("INSERT INTO dfi{y}_{i}(id) VALUES (1)")).ok() {
            continue;
        }
        if let Ok(rows) = q(t, &format!("SELECT * FROM dfi{y}_{i}")) {
            if let Some(OwnedValue::Date(g)) = rows.first().and_then(|r| r.get(1)) {
                e.v("sql-default-date", "invalid-accepted", &iclass(y, *m, *d), case(&tx), "CREATE/INSERT error or NULL", &format!("Date({g})"));
            }
        }
    }
}

/// DEFAULT clauses for the 24 month-boundary dates of each year in `years`, one table for all of them
fn check_defaults_sql(t: &TestDb, e: &mut Env, years: &[i64]) {
    if years.is_empty() {
        return;
    }
    let y0 = years[0];
    let case = |y: i64, what: &str| json!({"kind":"year-sql","y":y,"full":false,"at":what});
    let mut bounds: Vec<(i64, i64, i64)> = Vec::new();
    for y in years {
        bounds.extend((1..=12).flat_map(|m| [(*y, m, 1), (*y, m, cal::dim(*y, m))]));
    }
    let cols: Vec<String> = bounds.iter().enumerate().map(|(i, (y, m, d))| format!("c{i} DATE DEFAULT '{}'", cal::fmt(*y, *m, *d))).collect();
    let r = t.exec(&format!("CREATE TABLE df{y0}(id INT PRIMARY KEY, {})", cols.join(", ")));
    let r2 = if r.ok() { t.exec(&format!("INSERT INTO df{y0}(id) VALUES (1)")) } else { r.clone() };
    if !r2.ok() {
        return e.v("sql-default-date", &format!("{}-{}", yclass(y0), era(y0)), "valid>rejected", case(y0, "DEFAULT"), "table with DATE defaults, one row", &r2.show());
    }
    match q(t, &format!("SELECT * FROM df{y0}")) {
        Ok(rows) if rows.len() == 1 && rows[0].len() == bounds.len() + 1 => {
            for (i, (y, m, d)) in bounds.iter().enumerate() {
                let n = cal::rd(*y, *m, *d) - cal::UNIX_RD;
                let tx = cal::fmt(*y, *m, *d);
                e.st.add("sql_default_dates", 1);
                match &rows[0][i + 1] {
                    OwnedValue::Date(g) if *g as i64 == n => {}
                    OwnedValue::Date(g) => e.v("sql-default-date", &dclass(*y, *m, *d, true), &off(*g as i64, n), case(*y, &tx), &format!("Date({n})"), &format!("Date({g})")),
                    o => e.v("sql-default-date", &dclass(*y, *m, *d, true), "valid>other", case(*y, &tx), &format!("Date({n})"), &format!("{o:?}")),
                }
            }
        }
        other => e.v("sql-default-date", yclass(y0), "unexpected-shape", case(y0, "DEFAULT"), "1 row", &format!("{:?}", other.map(|r| r.len()))),
    }
}

/// the database shared by consecutive years of one worker
struct YearDb {
    t: Option<TestDb>,
    used: u32,
    /// years whose DEFAULT columns wait for the next shared table
    pending: Vec<i64>,
}
impl YearDb {
    fn new() -> YearDb {
        YearDb { t: None, used: 0, pending: Vec::new() }
    }
    fn flush(&mut self, e: &mut Env) {
        if let Some(t) = &self.t {
            check_defaults_sql(t, e, &self.pending);
        }
        self.pending.clear();
    }
    fn get(&mut self, ctx: &Ctx, e: &mut Env, y: i64) -> Option<&TestDb> {
        if self.pending.len() >= 5 {
            self.flush(e);
        }
        if self.t.is_none() || self.used >= 25 {
            self.flush(e);
            self.t = None; // close and remove the previous one first
            self.used = 0;
            let case = json!({"kind":"year-sql","y":y,"full":true,"at":"setup"});
            let t = match TestDb::create(&ctx.scratch, "ydb") {
                Ok(t) => t,
                Err(msg) => {
                    e.v("sql-setup", "create-database", "ok>err", case, "database", &msg);
                    return None;
                }
            };
            for ddl in ["CREATE TABLE d(id INT PRIMARY KEY, v DATE)", "CREATE TABLE ts(id INT PRIMARY KEY, v TIMESTAMP)"] {
                let r = t.exec(ddl);
                if !r.ok() {
                    e.v("sql-setup", "create-table", "ok>err", case, ddl, &r.show());
                    return None;
                }
            }
            self.t = Some(t);
        }
        self.used += 1;
        self.pending.push(y);
        self.t.as_ref()
    }
}

fn check_hour_sql(ctx: &Ctx, e: &mut Env, h: i64) {
    let case = |what: &str| json!({"kind":"hour-sql","h":h,"at":what});
    let t = match TestDb::create(&ctx.scratch, "hdb") {
        Ok(t) => t,
        Err(msg) => return e.v("sql-setup", "create-database", "ok>err", case(""), "database", &msg),
    };
    if !t.exec("CREATE TABLE tm(id INT PRIMARY KEY, v TIME)").ok() {
        return e.v("sql-setup", "create-table-time", "ok>err", case(""), "table", "CREATE TABLE failed");
    }
    let mut want: BTreeMap<i64, (i64, String)> = BTreeMap::new();
    for mi in 0..60 {
        let mut rows = Vec::new();
        let mut exprs = Vec::new();
        for se in 0..60 {
            let s = h * 3600 + mi * 60 + se;
            let tx = format!("{h:02}:{mi:02}:{se:02}");
            rows.push(format!("({s},'{tx}')"));
            exprs.push(format!("CAST('{tx}' AS TIME), TIME_TO_SEC('{tx}')"));
            want.insert(s, (s * 1_000_000, tx.clone()));
            if (mi == 0 && se == 0) || (mi == 59 && se == 59) {
                for (fi, (fr, us)) in FRACS.iter().enumerate().skip(1) {
                    let id = 100_000 + s * 10 + fi as i64;
                    rows.push(format!("({id},'{tx}{fr}')"));
                    want.insert(id, (s * 1_000_000 + us, format!("{tx}{fr}")));
                }
            }
        }
        let r = t.exec(&format!("INSERT INTO tm VALUES {}", rows.join(",")));
        if !r.ok() {
            e.v("sql-insert-time", "minute-batch", "valid>rejected", case(&format!("{h:02}:{mi:02}:00")), "rows inserted", &r.show());
        }
        match q(&t, &format!("SELECT {}", exprs.join(", "))) {
            Ok(got) if got.len() == 1 && got[0].len() == 120 => {
                for se in 0..60i64 {
                    let s = h * 3600 + mi * 60 + se;
                    let tx = format!("{h:02}:{mi:02}:{se:02}");
                    let cs = || json!({"kind":"hour-sql","h":h,"at":tx});
                    let cls = if se == 0 { "minute-start" } else if se == 59 { "minute-end" } else { "mid-minute" };
                    expect(e, "sql-cast-time", cls, ov_to_sv(&got[0][(se * 2) as usize]), Sv::Int(s * 1_000_000), &cs, "SELECT CAST(t AS TIME) (micros)");
                    expect(e, "sql-time_to_sec", cls, ov_to_sv(&got[0][(se * 2 + 1) as usize]), Sv::Int(s), &cs, "SELECT TIME_TO_SEC(t)");
                    e.st.add("sql_time_expressions", 2);
                }
            }
            other => e.v("sql-cast-time", "minute-batch", "ok>err", case(&format!("{h:02}:{mi:02}:00")), "1 row x 120", &format!("{:?}", other.map(|r| r.len()))),
        }
    }
    match q(&t, "SELECT * FROM tm") {
        Ok(rows) => {
            let m_ = by_id(&rows);
            for (id, (w, tx)) in &want {
                e.st.add("sql_times_stored_and_read_back", 1);
                let cls = if *id >= 100_000 { "fraction" } else { "whole-second" };
                match m_.get(id) {
                    Some(OwnedValue::Time(g)) if g == w => {}
                    Some(o) => e.v("sql-insert-time", cls, "wrong-value", case(tx), &format!("Time({w})"), &format!("{o:?}")),
                    None => e.v("sql-insert-time", cls, "row-missing", case(tx), &format!("Time({w})"), "no row"),
                }
            }
        }
        Err(msg) => e.v("sql-select-time", "hour", "ok>err", case(""), "rows", &msg),
    }
    if h != 0 {
        return;
    }
    for (i, (tx, ic)) in INVALID_TIMES.iter().enumerate() {
        e.st.add("sql_invalid_times", 1);
        match t.exec(&format!("INSERT INTO tm VALUES ({}, '{tx}')", 900_000 + i)) {
            checks::sqlh::Res::Err(_) => {}
            o => e.v("sql-insert-time", "invalid-accepted", ic, case(tx), "Err", &o.show()),
        }
        if let Ok(got) = q(&t, &format!("SELECT CAST('{tx}' AS TIME)")) {
            if !matches!(got.first().and_then(|r| r.first()), Some(OwnedValue::Null) | None) {
                e.v("sql-cast-time", "invalid-accepted", ic, case(tx), "NULL or error", &format!("{:?}", got[0][0]));
            }
        }
        if t.exec(&format!("CREATE TABLE tdi{i}(id INT PRIMARY KEY, c TIME DEFAULT '{tx}')")).ok() && t.exec(&format!("INSERT INTO tdi{i}(id) VALUES (1)")).ok() {
            if let Ok(rows) = q(&t, &format!("SELECT * FROM tdi{i}")) {
                if let Some(OwnedValue::Time(g)) = rows.first().and_then(|r| r.get(1)) {
                    e.v("sql-default-time", "invalid-accepted", ic, case(tx), "CREATE/INSERT error or NULL", &format!("Time({g})"));
                }
            }
        }
    }
}

// ---------------------------------------------------------------- the check
struct C41;

fn boundary_year(y: i64) -> bool {
    y <= 40 || y >= 9960 || (1960..=2040).contains(&y) || matches!(y % 100, 99 | 0 | 1)
}

impl Check for C41 {
    fn specs(&self) -> Vec<Spec> {
        let mut s = Spec::new(
            "C41",
            "exploration",
            "a case is one (year, month 0..13, day 0..32) field combination (all 9999 x 14 x 33 = 4 619 538, of which 3 652 059 are the valid dates of years 1..9999), one time text (every second of a day x 7 fraction forms = 604 800, plus 11 invalid field combinations), or one timestamp text (Jan 1 / Feb 28 / Feb 29 / Mar 1 / Dec 31 of every year x {00:00:00, 12:00:00, 23:59:59.999999} x {' ','T'} plus 5 invalid ones per year). Direct layer (both tiers, every case): parse_date/parse_time/parse_timestamp, the DEFAULT parser via ConstraintValidator::apply_defaults, 18 date-function calls per valid date (TO_DAYS, FROM_DAYS, DAYOFWEEK, WEEKDAY, DAYNAME, DAYOFYEAR, LAST_DAY, 3x DATEDIFF, 2x DATE_ADD, DATE_SUB, MAKEDATE, YEAR, MONTH, DAY, QUARTER) through eval_datetime_function, rendering through cli::table::TableFormatter. SQL layer: INSERT of the text into DATE/TIME/TIMESTAMP columns + SELECT *, TO_DAYS/FROM_DAYS/DAYOFWEEK/DAYOFYEAR/LAST_DAY/DATEDIFF/CAST in batched SELECT lists, CREATE TABLE .. DEFAULT '<date>' for the 24 month-boundary dates of every year, invalid combinations by single-row INSERT / CAST (every year of the every-date set) and DEFAULT (boundary years); thorough: every date of every year; quick: every date of the ~460 boundary years (1..40, 1960..2040, 9960..9999, xx99/xx00/xx01) and the month-boundary dates of all other years; every second of the day in both tiers. Cases are pairwise distinct by construction; all are non-trivial.",
        );
        s.assumptions = &[
            "reference = harness Rata Die closed form, cross-checked on every date against a year-by-year accumulation and its inverse (machinery error on disagreement)",
            "TO_DAYS is compared up to a constant epoch offset fixed on 0001-01-01 (Rata Die 1 or MySQL 366 both fit); FROM_DAYS must invert TO_DAYS",
            "rejection of an invalid value = Err, or NULL / no result for functions, CAST and DEFAULT (NULL tolerated as rejection)",
            "SQL has no DATE '...' literal syntax at this commit: literals are reached through parse_* (public), INSERT of text into typed columns and CAST",
            "rendering exists only in cli::table::TableFormatter; time fractions may be rendered with trailing zeros trimmed; 'T' or ' ' separator accepted for timestamps; CAST may answer Int/Date/TimestampTz(.,0) carrying the internal number",
            "fractions with more than 6 digits, years outside 1..9999, WEEK()/MICROSECOND() modes are not demanded (undocumented)",
        ];
        s.cap_quick_s = 100;
        s.cap_thorough_s = 1200;
        vec![s]
    }

    fn run(&self, ctx: &Ctx, rep: &mut Reporter) {
        let k = to_days_offset();
        rep.outcome(&format!("TO_DAYS('0001-01-01') = {} (epoch offset to Rata Die {k})", k + 1));
        rep.sample(|| json!({"kind":"year","y":1900,"date":"1900-02-29"}));
        rep.sample(|| json!({"kind":"hour","h":23,"time":"23:59:59.999999"}));
        let mut e = Env { ys: cal::year_starts(), k, st: Stats::default(), rep };
        let mut capped = false;
        let mut cases = 0u64;
        // development aid only: `--opt layers=direct|sql` restricts the run to one layer
        let (do_direct, do_sql) = match ctx.opt("layers") {
            Some("direct") => (true, false),
            Some("sql") => (false, true),
            _ => (true, true),
        };
        if !(do_direct && do_sql) {
            e.rep.capped("run restricted by --opt layers");
        }
        // times first (small), then years ascending
        for h in 0..24i64 {
            if ctx.mine(20_000 + h as u64) {
                e.rep.begin_case(&json!({"kind":"hour","h":h}).to_string());
                check_hour_direct(&mut e, h);
                cases += 3600 * FRACS.len() as u64;
                if h == 0 {
                    check_invalid_times_direct(&mut e);
                    cases += INVALID_TIMES.len() as u64;
                }
                e.rep.begin_case(&json!({"kind":"hour-sql","h":h}).to_string());
                check_hour_sql(ctx, &mut e, h);
                e.st.add("sql_hours", 1);
            }
        }
        let mut ydb = YearDb::new();
        for y in 1..=9999i64 {
            if !ctx.mine(y as u64) {
                continue;
            }
            if ctx.expired() {
                capped = true;
                break;
            }
            if do_direct {
                e.rep.begin_case(&json!({"kind":"year","y":y}).to_string());
                check_year_direct(&mut e, y);
                cases += 14 * 33 + (ts_dates(y).len() * 6 + 5) as u64;
            }
            if !do_sql {
                continue;
            }
            let full = !ctx.quick() || boundary_year(y);
            e.rep.begin_case(&json!({"kind":"year-sql","y":y,"full":full}).to_string());
            if let Some(t) = ydb.get(ctx, &mut e, y) {
                check_year_sql(t, &mut e, y, full, boundary_year(y));
            }
            e.st.add(if full { "sql_years_every_date" } else { "sql_years_month_boundaries_only" }, 1);
        }
        ydb.flush(&mut e);
        drop(ydb);
        let Env { st, rep, .. } = e;
        if capped {
            rep.capped("deadline reached in the year sweep (years are enumerated ascending per worker)");
        }
        let sql_cases: u64 = ["sql_dates_stored_and_read_back", "sql_default_dates", "sql_timestamps", "sql_invalid_inserts", "sql_invalid_defaults", "sql_times_stored_and_read_back", "sql_invalid_times"].iter().map(|k| st.c.get(k).copied().unwrap_or(0)).sum();
        rep.bulk(cases + sql_cases, cases + sql_cases);
        for (k, v) in &st.c {
            rep.count(k, *v);
        }
        for k in ["valid_dates", "invalid_field_combinations", "invalid_rejected_by_parse_date", "dates_rendered", "function_calls_on_valid_dates", "sql_dates_stored_and_read_back", "sql_function_expressions", "sql_default_dates", "sql_invalid_inserts", "times_parsed", "timestamps_parsed", "sql_times_stored_and_read_back", "sql_years_every_date"] {
            rep.expect_nonzero(k);
        }
        rep.bound("years", json!("1..=9999 (direct layer: every date; SQL layer: see rule)"));
    }

    fn replay(&self, ctx: &Ctx, case: &Value, rep: &mut Reporter) {
        let k = to_days_offset();
        let mut e = Env { ys: cal::year_starts(), k, st: Stats::default(), rep };
        match case["kind"].as_str() {
            Some("year") => check_year_direct(&mut e, case["y"].as_i64().unwrap_or(1)),
            Some("year-sql") => {
                let y = case["y"].as_i64().unwrap_or(1);
                let mut ydb = YearDb::new();
                if let Some(t) = ydb.get(ctx, &mut e, y) {
                    check_year_sql(t, &mut e, y, case["full"].as_bool().unwrap_or(true), boundary_year(y));
                }
                ydb.flush(&mut e);
            }
            Some("hour") => check_hour_direct(&mut e, case["h"].as_i64().unwrap_or(0)),
            Some("hour-sql") => check_hour_sql(ctx, &mut e, case["h"].as_i64().unwrap_or(0)),
            Some("invalid-times") => check_invalid_times_direct(&mut e),
            _ => vcore::machinery("C41: unknown case kind"),
        }
        e.rep.bulk(1, 1);
    }
}

fn main() {
    vcore::main(&C41)
}
