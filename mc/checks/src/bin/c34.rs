//! C34 — the freelist conserves pages (explicit-state BFS over the real `Freelist`).
//!
//! Subject: `turdb::storage::Freelist::{allocate, release}` running on an
//! in-memory copy-on-write implementation of the `Storage` trait (the freelist
//! is generic over `Storage`; nothing in it depends on mmap).
//!
//! Reference model: set arithmetic only.  The universe of page numbers the
//! harness owns is partitioned into
//!   held     – pages the harness currently owns (may release them),
//!   retired  – pages the harness owns but never releases again (allocated while a seed was drained),
//!   avail    – pages released and not handed out again: every one of them must be allocatable,
//!   overhead – (tolerant passes only) released pages the freelist keeps for its own trunk
//!              structure; see `Mode`.
//! After every transition the real freelist is *drained on a copy*: the set of
//! pages the drain returns must be exactly `avail`, and `free_count()` must be
//! the drain length.
use std::cell::Cell;
use std::collections::HashSet;
use std::rc::Rc;
use turdb::storage::{Freelist, Storage, PAGE_HEADER_SIZE, PAGE_SIZE, TRUNK_MAX_ENTRIES};
use vcore::{json, Check, Ctx, Reporter, Spec, Value};

const CAP: u32 = TRUNK_MAX_ENTRIES as u32;
const FIRST_PAGE: u32 = 2; // page 0 = file header, page 1 = root page: never given to the freelist
const SPARES: u32 = 6;

// ---------------------------------------------------------------------------------------------
// in-memory Storage (sparse, copy-on-write pages, cached page hashes)
// ---------------------------------------------------------------------------------------------
struct Pg {
    b: [u8; PAGE_SIZE],
    h: Cell<Option<(u64, u64)>>,
}
impl Clone for Pg {
    fn clone(&self) -> Self {
        Pg { b: self.b, h: Cell::new(None) }
    }
}
static ZERO_PAGE: [u8; PAGE_SIZE] = [0u8; PAGE_SIZE];

fn fast_hash(b: &[u8]) -> (u64, u64) {
    // 4 independent multiply-rotate lanes over 32-byte blocks, folded into 128 bits
    let mut h: [u64; 4] = [0x243f6a8885a308d3, 0x13198a2e03707344, 0xa4093822299f31d0, 0x082efa98ec4e6c89];
    const K: [u64; 4] = [0x9e3779b97f4a7c15, 0xc2b2ae3d27d4eb4f, 0x165667b19e3779f9, 0xd6e8feb86659fd93];
    for c in b.chunks_exact(32) {
        for i in 0..4 {
            let w = u64::from_le_bytes(c[i * 8..i * 8 + 8].try_into().unwrap());
            h[i] = (h[i] ^ w).wrapping_mul(K[i]).rotate_left(27);
        }
    }
    let mix = |mut x: u64| {
        x ^= x >> 33;
        x = x.wrapping_mul(0xff51afd7ed558ccd);
        x ^= x >> 33;
        x = x.wrapping_mul(0xc4ceb9fe1a85ec53);
        x ^ (x >> 33)
    };
    let a = mix(h[0] ^ mix(h[1].wrapping_add(0x9e3779b97f4a7c15)) ^ mix(h[2]).rotate_left(17) ^ mix(h[3]).rotate_left(41));
    let d = mix(h[3].wrapping_add(K[0]) ^ mix(h[2] ^ K[1]).rotate_left(13) ^ mix(h[1] ^ K[2]).rotate_left(29) ^ mix(h[0] ^ K[3]).rotate_left(47));
    (a, d)
}

#[derive(Clone)]
struct MemStorage {
    pages: Vec<(u32, Rc<Pg>)>, // sorted by page number; absent = all-zero page
    page_count: u32,
    reserved_reads: Cell<u32>, // accesses to page 0 / 1 (never owned by the freelist)
    reserved_writes: Cell<u32>,
}
impl MemStorage {
    fn new(page_count: u32) -> Self {
        MemStorage { pages: Vec::new(), page_count, reserved_reads: Cell::new(0), reserved_writes: Cell::new(0) }
    }
    fn find(&self, no: u32) -> Result<usize, usize> {
        self.pages.binary_search_by(|(n, _)| n.cmp(&no))
    }
    fn set_page(&mut self, no: u32, bytes: &[u8]) {
        let mut p = Pg { b: [0u8; PAGE_SIZE], h: Cell::new(None) };
        p.b[..bytes.len()].copy_from_slice(bytes);
        match self.find(no) {
            Ok(i) => self.pages[i].1 = Rc::new(p),
            Err(i) => self.pages.insert(i, (no, Rc::new(p))),
        }
    }
    fn materialized(&self, no: u32) -> bool {
        self.find(no).is_ok()
    }
    fn raw(&self, no: u32) -> &[u8] {
        match self.find(no) {
            Ok(i) => &self.pages[i].1.b,
            Err(_) => &ZERO_PAGE,
        }
    }
    fn raw_mut(&mut self, no: u32) -> &mut [u8] {
        let i = match self.find(no) {
            Ok(i) => i,
            Err(i) => {
                self.pages.insert(i, (no, Rc::new(Pg { b: [0u8; PAGE_SIZE], h: Cell::new(None) })));
                i
            }
        };
        let p = Rc::make_mut(&mut self.pages[i].1);
        p.h.set(None);
        &mut p.b
    }
    fn hash_into(&self, acc: &mut Vec<u64>) {
        for (no, p) in &self.pages {
            let h = match p.h.get() {
                Some(h) => h,
                None => {
                    let h = fast_hash(&p.b);
                    p.h.set(Some(h));
                    h
                }
            };
            acc.push(*no as u64);
            acc.push(h.0);
            acc.push(h.1);
        }
    }
}
impl Storage for MemStorage {
    fn page(&self, page_no: u32) -> eyre::Result<&[u8]> {
        eyre::ensure!(page_no < self.page_count, "page {} out of bounds (page_count={})", page_no, self.page_count);
        if page_no < FIRST_PAGE {
            self.reserved_reads.set(self.reserved_reads.get() + 1);
        }
        Ok(self.raw(page_no))
    }
    fn page_mut(&mut self, page_no: u32) -> eyre::Result<&mut [u8]> {
        eyre::ensure!(page_no < self.page_count, "page {} out of bounds (page_count={})", page_no, self.page_count);
        if page_no < FIRST_PAGE {
            self.reserved_writes.set(self.reserved_writes.get() + 1);
        }
        Ok(self.raw_mut(page_no))
    }
    fn grow(&mut self, new_page_count: u32) -> eyre::Result<()> {
        if new_page_count > self.page_count {
            self.page_count = new_page_count;
        }
        Ok(())
    }
    fn page_count(&self) -> u32 {
        self.page_count
    }
    fn sync(&self) -> eyre::Result<()> {
        Ok(())
    }
}

// ---------------------------------------------------------------------------------------------
// model
// ---------------------------------------------------------------------------------------------
#[derive(Clone)]
struct Bits(Vec<u64>);
impl Bits {
    fn new(n: u32) -> Self {
        Bits(vec![0; (n as usize + 64) / 64])
    }
    fn get(&self, i: u32) -> bool {
        (i as usize) < self.0.len() * 64 && self.0[i as usize / 64] >> (i % 64) & 1 == 1
    }
    fn set(&mut self, i: u32, v: bool) {
        if v {
            self.0[i as usize / 64] |= 1 << (i % 64);
        } else {
            self.0[i as usize / 64] &= !(1 << (i % 64));
        }
    }
}

#[derive(Clone, Copy, PartialEq, Eq, Debug)]
enum Mode {
    /// the statement as written: every released page must become allocatable, free_count == drain length
    Strict,
    /// overhead pages present in the seed are tolerated (known finding), any transition that
    /// creates NEW overhead or widens free_count - drain is a violation
    Baseline,
    /// trunk overhead is modelled: a page released while no trunk has room (no head trunk, or
    /// head trunk holds TRUNK_MAX_ENTRIES entries) is allowed to become structure ("overhead")
    /// instead of allocatable; free_count may exceed the drain length by at most |overhead|
    Tolerant,
}
impl Mode {
    fn name(self) -> &'static str {
        match self {
            Mode::Strict => "strict",
            Mode::Baseline => "baseline",
            Mode::Tolerant => "tolerant",
        }
    }
    fn parse(s: &str) -> Mode {
        match s {
            "strict" => Mode::Strict,
            "baseline" => Mode::Baseline,
            _ => Mode::Tolerant,
        }
    }
}

#[derive(Clone)]
struct Model {
    held: Vec<u32>, // sorted
    retired: Rc<Bits>,
    avail: Bits,
    n_avail: u32,
    avail_zob: (u64, u64),
    overhead: Vec<u32>, // sorted
}
fn zob(p: u32) -> (u64, u64) {
    let mut x = (p as u64).wrapping_add(0x9e3779b97f4a7c15);
    x = (x ^ (x >> 30)).wrapping_mul(0xbf58476d1ce4e5b9);
    x = (x ^ (x >> 27)).wrapping_mul(0x94d049bb133111eb);
    let a = x ^ (x >> 31);
    let mut y = (p as u64).wrapping_mul(0xd6e8feb86659fd93).wrapping_add(0x2545f4914f6cdd1d);
    y = (y ^ (y >> 32)).wrapping_mul(0xd6e8feb86659fd93);
    let b = y ^ (y >> 32);
    (a, b)
}
impl Model {
    fn avail_add(&mut self, p: u32) {
        debug_assert!(!self.avail.get(p));
        self.avail.set(p, true);
        self.n_avail += 1;
        let z = zob(p);
        self.avail_zob.0 ^= z.0;
        self.avail_zob.1 ^= z.1;
    }
    fn avail_del(&mut self, p: u32) {
        self.avail.set(p, false);
        self.n_avail -= 1;
        let z = zob(p);
        self.avail_zob.0 ^= z.0;
        self.avail_zob.1 ^= z.1;
    }
    fn held_add(&mut self, p: u32) {
        if let Err(i) = self.held.binary_search(&p) {
            self.held.insert(i, p);
        }
    }
    fn held_del(&mut self, p: u32) {
        if let Ok(i) = self.held.binary_search(&p) {
            self.held.remove(i);
        }
    }
}

#[derive(Clone)]
struct St {
    head: u32,
    fc: u32,
    sto: MemStorage,
    m: Model,
}
impl St {
    fn hash(&self) -> u128 {
        let mut acc: Vec<u64> = Vec::with_capacity(16 + self.sto.pages.len() * 3 + self.m.held.len() + self.m.overhead.len());
        acc.push(self.head as u64);
        acc.push(self.fc as u64);
        self.sto.hash_into(&mut acc);
        acc.push(u64::MAX);
        acc.extend(self.m.held.iter().map(|x| *x as u64));
        acc.push(u64::MAX - 1);
        acc.extend(self.m.overhead.iter().map(|x| *x as u64));
        acc.push(self.m.n_avail as u64);
        acc.push(self.m.avail_zob.0);
        acc.push(self.m.avail_zob.1);
        let mut bytes = Vec::with_capacity(acc.len() * 8);
        for w in acc {
            bytes.extend_from_slice(&w.to_le_bytes());
        }
        vcore::util::hash128(&bytes)
    }
    /// harness-side parse of the head trunk: (head, entries in head trunk)
    fn inspect(&self) -> (u32, u32) {
        if self.head == 0 || self.head >= self.sto.page_count {
            return (self.head, 0);
        }
        let b = self.sto.raw(self.head);
        let cnt = u32::from_le_bytes(b[PAGE_HEADER_SIZE + 4..PAGE_HEADER_SIZE + 8].try_into().unwrap());
        (self.head, cnt)
    }
}

#[derive(Clone, Copy, PartialEq, Eq, Debug)]
enum Op {
    Alloc,
    RelLo,
    RelHi,
    RelMid,
}
const OPS: [Op; 4] = [Op::Alloc, Op::RelLo, Op::RelHi, Op::RelMid];
impl Op {
    fn name(self) -> &'static str {
        match self {
            Op::Alloc => "alloc",
            Op::RelLo => "rel-lo",
            Op::RelHi => "rel-hi",
            Op::RelMid => "rel-mid",
        }
    }
    fn parse(s: &str) -> Option<Op> {
        OPS.iter().copied().find(|o| o.name() == s)
    }
    fn code(self) -> u32 {
        self as u32
    }
}
/// page a release op refers to; None = op not enabled (no held page, or same page as an earlier op)
fn op_page(m: &Model, op: Op) -> Option<u32> {
    let n = m.held.len();
    if n == 0 {
        return None;
    }
    let lo = m.held[0];
    let hi = m.held[n - 1];
    let mid = m.held[n / 2];
    match op {
        Op::Alloc => None,
        Op::RelLo => Some(lo),
        Op::RelHi => (hi != lo).then_some(hi),
        Op::RelMid => (mid != lo && mid != hi).then_some(mid),
    }
}
fn enabled(m: &Model, op: Op) -> bool {
    op == Op::Alloc || op_page(m, op).is_some()
}

struct Viol {
    oracle: &'static str,
    sig: String,
    expected: String,
    observed: String,
}

#[derive(Default)]
struct Ev {
    trunk_first: u64,
    trunk_rollover: u64,
    trunk_drained_dropped: u64,
    empty_head_skipped: u64,
    alloc_head0_stale: u64,
    alloc_some: u64,
    alloc_none: u64,
    release_entry: u64,
    reserved_page_read: u64,
    reserved_page_written: u64,
    drains: u64,
    drained_pages: u64,
    overhead_returned: u64,
}
impl Ev {
    fn flush(&mut self, rep: &mut Reporter) {
        rep.count("release_creates_first_trunk", self.trunk_first);
        rep.count("release_creates_next_trunk_on_full", self.trunk_rollover);
        rep.count("release_appends_entry", self.release_entry);
        rep.count("allocate_empties_trunk_and_drops_it", self.trunk_drained_dropped);
        rep.count("allocate_skips_empty_head_trunk", self.empty_head_skipped);
        rep.count("allocate_with_head0_and_stale_count", self.alloc_head0_stale);
        rep.count("allocate_returns_page", self.alloc_some);
        rep.count("allocate_returns_none", self.alloc_none);
        rep.count("calls_touching_reserved_page0_or_1_read", self.reserved_page_read);
        rep.count("calls_touching_reserved_page0_or_1_write", self.reserved_page_written);
        rep.count("oracle_drains", self.drains);
        rep.count("oracle_drained_pages", self.drained_pages);
        rep.count("allocate_returns_overhead_page", self.overhead_returned);
        *self = Ev::default();
    }
}

fn op_class(op: Op, head: u32, cnt: u32) -> &'static str {
    match op {
        Op::Alloc => {
            if head == 0 {
                "allocate-with-no-head-trunk"
            } else if cnt == 0 {
                "allocate-on-empty-head-trunk"
            } else if cnt == 1 {
                "allocate-last-entry-of-trunk"
            } else {
                "allocate-from-trunk"
            }
        }
        _ => {
            if head == 0 {
                "release-into-empty-list"
            } else if cnt >= CAP {
                "release-onto-full-trunk"
            } else {
                "release-into-trunk-with-room"
            }
        }
    }
}

/// Drain a copy of the state through the real `allocate`; compare with the model.
fn drain_check(st: &St, mode: Mode, class: &str, pre_gap: Option<i64>, ev: &mut Ev, scratch_seen: &mut Bits, out: &mut Vec<Viol>) {
    ev.drains += 1;
    let mut sto = st.sto.clone();
    let mut fl = Freelist::with_head(st.head, st.fc);
    let limit = st.sto.page_count as usize + 4;
    let mut got: Vec<u32> = Vec::with_capacity(st.m.n_avail as usize + 2);
    let mut problem: Option<(&'static str, String)> = None;
    // head_page at the time of the drain call that failed (0 = the call ran with no head trunk but a
    // non-zero free_count, i.e. it dereferenced page 0)
    let fail_head = Cell::new(u32::MAX);
    let r = vcore::catch(|| {
        loop {
            if got.len() > limit {
                return Some(("no-termination", format!("more than {limit} pages returned")));
            }
            fail_head.set(fl.head_page());
            match fl.allocate(&mut sto) {
                Ok(Some(p)) => got.push(p),
                Ok(None) => return None,
                Err(e) => return Some(("error", format!("{e:#}"))),
            }
        }
    });
    match r {
        Ok(p) => problem = p,
        Err(p) => problem = Some(("panic", p)),
    }
    let class = if problem.is_some() && fail_head.get() == 0 { "allocate-with-no-head-trunk" } else { class };
    ev.drained_pages += got.len() as u64;
    // set comparison
    let mut bad: Option<(&'static str, u32)> = None;
    for &p in &got {
        if p < scratch_seen.0.len() as u32 * 64 && scratch_seen.get(p) {
            bad.get_or_insert(("returns-page-twice", p));
        } else if p < scratch_seen.0.len() as u32 * 64 {
            scratch_seen.set(p, true);
        }
        if st.m.held.binary_search(&p).is_ok() || st.m.retired.get(p) {
            bad.get_or_insert(("returns-held-page", p));
        } else if !st.m.avail.get(p) && st.m.overhead.binary_search(&p).is_err() {
            bad.get_or_insert(("returns-never-released-page", p));
        }
    }
    let n_avail_got = got.iter().filter(|p| st.m.avail.get(**p)).count() as u32;
    for &p in &got {
        if p < scratch_seen.0.len() as u32 * 64 {
            scratch_seen.set(p, false);
        }
    }
    if let Some((k, msg)) = problem {
        out.push(Viol { oracle: "drain", sig: format!("C34/drain/{class}/ok>{k}"), expected: "allocate returns Ok until None".into(), observed: format!("after {} pages: {}", got.len(), msg) });
        return;
    }
    if let Some((k, p)) = bad {
        out.push(Viol { oracle: "drain", sig: format!("C34/drain/{class}/free-pages>{k}"), expected: "drain returns each free page once".into(), observed: format!("page {p} ({k}); drained {} pages, model avail {}", got.len(), st.m.n_avail) });
        return;
    }
    if n_avail_got != st.m.n_avail {
        // some released page can never be allocated again
        out.push(Viol {
            oracle: "conserve",
            sig: format!("C34/conserve/{class}/allocatable>never-returned"),
            expected: format!("all {} released pages can be allocated again", st.m.n_avail),
            observed: format!("draining returns {} pages (head={}, free_count={})", got.len(), st.head, st.fc),
        });
    }
    let d = got.len() as i64;
    let fc = st.fc as i64;
    let over = st.m.overhead.len() as i64;
    match mode {
        Mode::Strict => {
            if fc != d {
                let k = if fc > d { "over-reports" } else { "under-reports" };
                out.push(Viol { oracle: "count", sig: format!("C34/count/{class}/exact>{k}"), expected: format!("free_count == {d} (pages a drain returns)"), observed: format!("free_count = {fc}") });
            }
        }
        Mode::Baseline | Mode::Tolerant => {
            if fc < d {
                out.push(Viol { oracle: "count", sig: format!("C34/count/{class}/exact>under-reports"), expected: format!("free_count >= {d} (pages a drain returns)"), observed: format!("free_count = {fc}") });
            } else if mode == Mode::Tolerant && fc > d + over {
                out.push(Viol { oracle: "count", sig: format!("C34/count/{class}/exact>over-reports-beyond-trunk-overhead"), expected: format!("free_count <= {d} + {over} trunk pages"), observed: format!("free_count = {fc}") });
            } else if mode == Mode::Baseline {
                if let Some(g) = pre_gap {
                    if fc - d > g {
                        out.push(Viol { oracle: "count", sig: format!("C34/count/{class}/exact>over-reports"), expected: format!("free_count - drainable stays {g}"), observed: format!("free_count = {fc}, drainable = {d}") });
                    }
                }
            }
        }
    }
}

/// One transition on the real freelist + model.  `check` = evaluate the oracles.
fn apply(st: &mut St, op: Op, mode: Mode, check: bool, ev: &mut Ev, seen: &mut Bits) -> Vec<Viol> {
    let mut out = Vec::new();
    let (head, cnt) = st.inspect();
    let class = op_class(op, head, cnt);
    let pre_gap = if check && mode == Mode::Baseline {
        // free_count - drainable before the call (drainable == n_avail was verified on the predecessor)
        Some(st.fc as i64 - st.m.n_avail as i64)
    } else {
        None
    };
    let r0 = (st.sto.reserved_reads.get(), st.sto.reserved_writes.get());
    let mut fl = Freelist::with_head(st.head, st.fc);
    match op {
        Op::Alloc => {
            let r = vcore::catch(|| fl.allocate(&mut st.sto).map_err(|e| format!("{e:#}")));
            st.head = fl.head_page();
            st.fc = fl.free_count();
            if check {
                if head == 0 && st.fc != 0 || head == 0 && r0 != (st.sto.reserved_reads.get(), st.sto.reserved_writes.get()) {
                    ev.alloc_head0_stale += 1;
                }
                if head != 0 && cnt == 0 {
                    ev.empty_head_skipped += 1;
                }
                if head != 0 && cnt == 1 {
                    ev.trunk_drained_dropped += 1;
                }
            }
            match r {
                Err(p) => out.push(Viol { oracle: "alloc", sig: format!("C34/alloc/{class}/ok>panic"), expected: "Ok".into(), observed: p }),
                Ok(Err(e)) => out.push(Viol { oracle: "alloc", sig: format!("C34/alloc/{class}/ok>error"), expected: "Ok".into(), observed: e }),
                Ok(Ok(None)) => {
                    ev.alloc_none += check as u64;
                    if st.m.n_avail > 0 {
                        out.push(Viol { oracle: "alloc", sig: format!("C34/alloc/{class}/page>none"), expected: format!("one of {} free pages", st.m.n_avail), observed: "None".into() });
                    }
                }
                Ok(Ok(Some(p))) => {
                    ev.alloc_some += check as u64;
                    if st.m.held.binary_search(&p).is_ok() || st.m.retired.get(p) {
                        out.push(Viol { oracle: "alloc", sig: format!("C34/alloc/{class}/free-page>held-page"), expected: "a page of the free set".into(), observed: format!("page {p}, currently held") });
                    } else if st.m.avail.get(p) {
                        st.m.avail_del(p);
                        st.m.held_add(p);
                    } else if let Ok(i) = st.m.overhead.binary_search(&p) {
                        // a released page the freelist used as structure and now hands back: legal
                        st.m.overhead.remove(i);
                        st.m.held_add(p);
                        ev.overhead_returned += check as u64;
                    } else {
                        out.push(Viol { oracle: "alloc", sig: format!("C34/alloc/{class}/free-page>never-released-page"), expected: "a page of the free set".into(), observed: format!("page {p}, never released (reserved or outside the universe)") });
                    }
                    // the new owner overwrites the page (as any user of an allocated page would)
                    if out.is_empty() && st.sto.materialized(p) {
                        for b in st.sto.raw_mut(p).iter_mut() {
                            *b = 0xEE;
                        }
                    }
                }
            }
        }
        _ => {
            let p = op_page(&st.m, op).expect("op enabled");
            let r = vcore::catch(|| fl.release(&mut st.sto, p).map_err(|e| format!("{e:#}")));
            st.head = fl.head_page();
            st.fc = fl.free_count();
            match r {
                Err(pn) => out.push(Viol { oracle: "release", sig: format!("C34/release/{class}/ok>panic"), expected: "Ok".into(), observed: pn }),
                Ok(Err(e)) => out.push(Viol { oracle: "release", sig: format!("C34/release/{class}/ok>error"), expected: "Ok".into(), observed: e }),
                Ok(Ok(())) => {
                    st.m.held_del(p);
                    let no_room = head == 0 || cnt >= CAP;
                    if mode == Mode::Tolerant && no_room {
                        if let Err(i) = st.m.overhead.binary_search(&p) {
                            st.m.overhead.insert(i, p);
                        }
                        if check {
                            if head == 0 {
                                ev.trunk_first += 1;
                            } else {
                                ev.trunk_rollover += 1;
                            }
                        }
                    } else {
                        st.m.avail_add(p);
                        ev.release_entry += (check && !no_room) as u64;
                    }
                }
            }
        }
    }
    if check {
        let r1 = (st.sto.reserved_reads.get(), st.sto.reserved_writes.get());
        if r1.0 != r0.0 {
            ev.reserved_page_read += 1;
        }
        if r1.1 != r0.1 {
            ev.reserved_page_written += 1;
        }
        if out.is_empty() {
            drain_check(st, mode, class, pre_gap, ev, seen, &mut out);
        }
    }
    out
}

// ---------------------------------------------------------------------------------------------
// seeds
// ---------------------------------------------------------------------------------------------
#[derive(Clone, Copy)]
struct SeedDef {
    name: &'static str,
    releases: u32,
    then_alloc: u32,
}
fn seed_defs() -> Vec<SeedDef> {
    let t = CAP + 1; // releases that make one trunk page and fill it
    vec![
        SeedDef { name: "empty", releases: 0, then_alloc: 0 },
        SeedDef { name: "trunk-only", releases: 1, then_alloc: 0 },
        SeedDef { name: "one-entry", releases: 2, then_alloc: 0 },
        SeedDef { name: "one-entry-drained", releases: 2, then_alloc: 1 },
        SeedDef { name: "three-entries", releases: 4, then_alloc: 0 },
        SeedDef { name: "cap-minus-1", releases: t - 1, then_alloc: 0 },
        SeedDef { name: "trunk-full", releases: t, then_alloc: 0 },
        SeedDef { name: "trunk-full-drained-to-1", releases: t, then_alloc: CAP - 1 },
        SeedDef { name: "trunk-full-drained-to-0", releases: t, then_alloc: CAP },
        SeedDef { name: "two-trunks-head-empty", releases: t + 1, then_alloc: 0 },
        SeedDef { name: "two-trunks-head-1", releases: t + 2, then_alloc: 0 },
        SeedDef { name: "two-trunks-head-1-drained-to-boundary", releases: t + 2, then_alloc: 1 },
        SeedDef { name: "two-full-trunks", releases: 2 * t, then_alloc: 0 },
        SeedDef { name: "two-full-trunks-drained-to-head-1", releases: 2 * t, then_alloc: CAP - 1 },
        SeedDef { name: "two-full-trunks-drained-to-boundary", releases: 2 * t, then_alloc: CAP },
        SeedDef { name: "three-trunks-head-empty", releases: 2 * t + 1, then_alloc: 0 },
        SeedDef { name: "three-trunks-head-1", releases: 2 * t + 2, then_alloc: 0 },
        SeedDef { name: "three-trunks-head-1-drained-to-boundary", releases: 2 * t + 2, then_alloc: 1 },
    ]
}

#[derive(Clone, Copy, PartialEq, Eq)]
enum Env {
    /// pages 0 and 1 are all-zero (a file whose page 0 bytes 16..24 are zero)
    Zero,
    /// pages 0 and 1 are copied from a real table file made by `CREATE TABLE` + 3 INSERTs
    Table,
}
impl Env {
    fn name(self) -> &'static str {
        match self {
            Env::Zero => "zero",
            Env::Table => "table",
        }
    }
}

fn table_file_pages(ctx: &Ctx) -> Option<(Vec<u8>, Vec<u8>)> {
    let mut t = checks::sqlh::TestDb::create(&ctx.scratch, "c34_tablefile").ok()?;
    t.exec("CREATE TABLE t (a INT PRIMARY KEY, b TEXT)");
    t.exec("INSERT INTO t VALUES (1,'x'),(2,'y'),(3,'z')");
    let _ = t.close_reopen();
    t.db = None;
    fn find(dir: &std::path::Path, out: &mut Vec<std::path::PathBuf>) {
        if let Ok(rd) = std::fs::read_dir(dir) {
            let mut es: Vec<_> = rd.filter_map(|e| e.ok()).map(|e| e.path()).collect();
            es.sort();
            for p in es {
                if p.is_dir() {
                    find(&p, out);
                } else if p.extension().map(|e| e == turdb::storage::TABLE_FILE_EXTENSION).unwrap_or(false) {
                    out.push(p);
                }
            }
        }
    }
    let mut files = Vec::new();
    find(&t.dir, &mut files);
    let f = files.into_iter().find(|p| p.file_stem().map(|s| s == "t").unwrap_or(false))?;
    let b = std::fs::read(&f).ok()?;
    if b.len() < PAGE_SIZE {
        return None;
    }
    let p0 = b[..PAGE_SIZE].to_vec();
    let p1 = if b.len() >= 2 * PAGE_SIZE { b[PAGE_SIZE..2 * PAGE_SIZE].to_vec() } else { vec![0u8; PAGE_SIZE] };
    Some((p0, p1))
}

struct Seed {
    def: SeedDef,
    env: Env,
    st: St,
}

/// Build a seed through the real API.  Universe = FIRST_PAGE .. FIRST_PAGE+releases+SPARES; the
/// spare (held) pages sit at the bottom, middle and top of the universe; the other pages are
/// released in ascending order, then `then_alloc` pages are allocated (they become `retired`).
/// The tolerant model is stepped along; the full drain oracle is evaluated at the steps next to
/// every trunk boundary and at the end (every step would be quadratic in the seed size).
fn build_seed(def: SeedDef, env: Env, envp: &Option<(Vec<u8>, Vec<u8>)>, ev: &mut Ev, problems: &mut Vec<(u32, Viol)>) -> Seed {
    let n = def.releases + SPARES;
    let top = FIRST_PAGE + n; // exclusive
    let mut sto = MemStorage::new(top);
    if env == Env::Table {
        if let Some((p0, p1)) = envp {
            sto.set_page(0, p0);
            sto.set_page(1, p1);
        }
    }
    let mid = FIRST_PAGE + n / 2;
    let spares: Vec<u32> = vec![FIRST_PAGE, FIRST_PAGE + 1, mid - 1, mid, top - 2, top - 1];
    debug_assert!(spares.windows(2).all(|w| w[0] < w[1]));
    let mut held: Vec<u32> = (FIRST_PAGE..top).collect();
    let m = Model { held: Vec::new(), retired: Rc::new(Bits::new(top)), avail: Bits::new(top), n_avail: 0, avail_zob: (0, 0), overhead: Vec::new() };
    let mut st = St { head: 0, fc: 0, sto, m };
    held.retain(|p| !spares.contains(p));
    let pool = held;
    let mut seen = Bits::new(top);
    let t = CAP + 1;
    let mut step = 0u32;
    for &p in &pool {
        // release p: temporarily the only held page so RelLo picks it
        st.m.held = vec![p];
        let near = step < 4 || (step % t) < 3 || (step % t) > t - 3 || step + 2 >= def.releases;
        let v = apply(&mut st, Op::RelLo, Mode::Tolerant, near, ev, &mut seen);
        for x in v {
            problems.push((step, x));
        }
        step += 1;
    }
    st.m.held = Vec::new();
    let mut retired = Bits::new(top);
    for i in 0..def.then_alloc {
        let near = i < 3 || i + 3 >= def.then_alloc;
        let v = apply(&mut st, Op::Alloc, Mode::Tolerant, near, ev, &mut seen);
        for x in v {
            problems.push((step, x));
        }
        step += 1;
    }
    for p in st.m.held.drain(..) {
        retired.set(p, true);
    }
    st.m.retired = Rc::new(retired);
    st.m.held = spares;
    Seed { def, env, st }
}

// ---------------------------------------------------------------------------------------------
// exploration
// ---------------------------------------------------------------------------------------------
fn path_ops(packed: u32, len: usize) -> Vec<Op> {
    (0..len).map(|i| OPS[((packed >> (2 * i)) & 3) as usize]).collect()
}
fn case_json(mode: Mode, seed: &Seed, ops: &[Op]) -> Value {
    json!({"mode": mode.name(), "env": seed.env.name(), "seed": seed.def.name, "ops": ops.iter().map(|o| o.name()).collect::<Vec<_>>()})
}

struct Explorer<'a> {
    ctx: &'a Ctx,
    ev: Ev,
    seen: Bits,
}

impl<'a> Explorer<'a> {
    /// Replay `ops` from the seed without oracles (they were evaluated when the path was found).
    fn rebuild(&mut self, seed: &Seed, mode: Mode, packed: u32, len: usize) -> St {
        let mut st = seed.st.clone();
        for i in 0..len {
            let op = OPS[((packed >> (2 * i)) & 3) as usize];
            let _ = apply(&mut st, op, mode, false, &mut self.ev, &mut self.seen);
        }
        st
    }

    /// BFS from the states after `starts` (paths of length `start_len`) up to total depth `depth`.
    /// `visited` carries the states already expanded (shallow phase).  Returns the frontier at
    /// `depth`, or None if the deadline expired.
    #[allow(clippy::too_many_arguments)]
    fn bfs(&mut self, seed: &Seed, mode: Mode, starts: Vec<u32>, start_len: usize, depth: usize, visited: &mut HashSet<u128>, report: bool, rep: &mut Reporter) -> Option<Vec<u32>> {
        let mut frontier: Vec<u32> = starts;
        if self.seen.0.len() < seed.st.m.avail.0.len() {
            self.seen = Bits::new(seed.st.sto.page_count);
        }
        for len in start_len..depth {
            let mut next: Vec<u32> = Vec::new();
            for (fi, &path) in frontier.iter().enumerate() {
                if fi % 16 == 0 && self.ctx.expired() {
                    rep.capped(&format!("deadline at depth {} of seed {} ({}/{})", len + 1, seed.def.name, mode.name(), seed.env.name()));
                    return None;
                }
                let st = self.rebuild(seed, mode, path, len);
                let (h0, c0) = st.inspect();
                for op in OPS {
                    if !enabled(&st.m, op) {
                        continue;
                    }
                    let mut s2 = st.clone();
                    let v = apply(&mut s2, op, mode, true, &mut self.ev, &mut self.seen);
                    let npath = path | (op.code() << (2 * len));
                    if report {
                        rep.add_transitions(1);
                        rep.add_traces_validated(1);
                    }
                    if !v.is_empty() {
                        if report {
                            rep.pruned(1);
                            let ops = path_ops(npath, len + 1);
                            for x in v {
                                rep.violation("C34", x.oracle, &x.sig, || case_json(mode, seed, &ops), &x.expected, &x.observed);
                            }
                        }
                        continue;
                    }
                    let h = s2.hash();
                    if visited.insert(h) {
                        if report {
                            rep.add_states(1);
                            rep.case(h as u64, true);
                            rep.outcome(&format!("{}:{}", op_class(op, h0, c0), if s2.fc == s2.m.n_avail { "count-exact" } else { "count-over" }));
                        }
                        next.push(npath);
                    }
                }
            }
            frontier = next;
            if frontier.is_empty() {
                break;
            }
        }
        Some(frontier)
    }
}

struct C34;

struct Pass {
    mode: Mode,
    env: Env,
    /// depth for seeds with <= 16 free pages / larger seeds
    depth_small: usize,
    depth_big: usize,
}

fn passes(ctx: &Ctx) -> Vec<Pass> {
    let q = ctx.quick();
    vec![
        Pass { mode: Mode::Strict, env: Env::Zero, depth_small: if q { 10 } else { 16 }, depth_big: 0 },
        Pass { mode: Mode::Baseline, env: Env::Zero, depth_small: if q { 8 } else { 10 }, depth_big: if q { 6 } else { 8 } },
        Pass { mode: Mode::Tolerant, env: Env::Table, depth_small: if q { 8 } else { 12 }, depth_big: if q { 6 } else { 8 } },
        // the main pass last (a deadline then cuts only its most expensive seeds): cheap seeds first
        Pass { mode: Mode::Tolerant, env: Env::Zero, depth_small: if q { 10 } else { 15 }, depth_big: if q { 9 } else { 11 } },
    ]
}

const SHALLOW: usize = 3;

impl Check for C34 {
    fn specs(&self) -> Vec<Spec> {
        let mut s = Spec::new(
            "C34",
            "model_checking",
            "explicit-state BFS of the real Freelist (allocate/release) on an in-memory Storage: from each of 18 seed states built through the real API (empty, trunk only, 1/3 entries, TRUNK_MAX_ENTRIES-1, trunk exactly full, two/three trunks, and the same drained back to a trunk boundary) every sequence over {allocate, release(lowest held), release(highest held), release(middle held)} up to the depth bound; states deduplicated by a 128-bit hash of (head, free_count, all page bytes the freelist ever wrote, model sets); after EVERY transition a copy of the state is drained through the real allocate and compared with the set model. A case = one transition (distinct = distinct resulting physical+model state). Passes: strict (statement as written), baseline (seed overhead tolerated, new overhead flagged), tolerant (trunk overhead modelled so the rest is explored to full depth), tolerant with pages 0/1 copied from a real table file. Work is split by depth-3 prefixes, each explored with its own visited set (summed `states` may count a state once per prefix; `distinct_nontrivial` is the true number).",
        );
        s.assumptions = &[
            "Freelist is exercised through its pub API on an in-memory Storage implementation (the freelist is generic over Storage); mmap behaviour is out of scope",
            "release is only called for pages the harness holds (no double free, no release of page 0/1)",
            "tolerant passes accept that a page released while no trunk has room becomes trunk structure and is counted (known findings KF-C34-01/02); everything else is checked exactly",
            "seed construction histories (up to 8185 calls) evaluate the drain oracle only next to trunk boundaries and at the end",
        ];
        s.cap_quick_s = 60;
        s.cap_thorough_s = 1100;
        vec![s]
    }

    fn run(&self, ctx: &Ctx, rep: &mut Reporter) {
        let envp = vcore::catch(|| table_file_pages(ctx)).ok().flatten();
        if envp.is_none() {
            rep.note("could not obtain real table-file pages; table env uses zero pages");
        }
        let mut defs = seed_defs();
        // seeds with few free pages first (their drain oracle is cheap)
        defs.sort_by_key(|d| d.releases.saturating_sub(d.then_alloc) > 16);
        let mut ex = Explorer { ctx, ev: Ev::default(), seen: Bits::new(64) };
        for k in ["release_creates_first_trunk", "release_creates_next_trunk_on_full", "allocate_empties_trunk_and_drops_it", "allocate_skips_empty_head_trunk", "allocate_returns_page", "allocate_returns_none", "release_appends_entry", "allocate_with_head0_and_stale_count"] {
            rep.expect_nonzero(k);
        }
        rep.bound("trunk_max_entries", json!(CAP));
        rep.bound("alphabet", json!(["alloc", "rel-lo", "rel-hi", "rel-mid"]));
        let ps = passes(ctx);
        rep.bound("passes", json!(ps.iter().map(|p| json!({"mode": p.mode.name(), "env": p.env.name(), "depth_small_seeds": p.depth_small, "depth_big_seeds": p.depth_big})).collect::<Vec<_>>()));
        let mut unit = 0u64;
        let mut seed_idx = 0u64;
        'outer: for pass in &ps {
            for def in &defs {
                seed_idx += 1;
                let big = def.releases.saturating_sub(def.then_alloc) > 16;
                let mut depth = if big { pass.depth_big } else { pass.depth_small };
                if let Some(s) = ctx.opt("seed") {
                    if s != def.name {
                        continue;
                    }
                }
                if let Some(m) = ctx.opt("mode") {
                    if m != pass.mode.name() || ctx.opt("env").map(|e| e != pass.env.name()).unwrap_or(false) {
                        continue;
                    }
                }
                if let Some(d) = ctx.opt("depth").and_then(|d| d.parse().ok()) {
                    depth = d;
                }
                if pass.mode == Mode::Strict && def.releases > 0 {
                    // the construction history of every non-empty seed already diverges at its first release
                    if ctx.mine(seed_idx) {
                        rep.pruned(1);
                    }
                    continue;
                }
                if depth == 0 {
                    continue;
                }
                let mut problems = Vec::new();
                let mut bev = Ev::default();
                let seed = build_seed(*def, pass.env, &envp, &mut bev, &mut problems);
                let owner = ctx.mine(seed_idx);
                if owner {
                    ex.ev.drains += bev.drains;
                    ex.ev.drained_pages += bev.drained_pages;
                    rep.count("seed_construction_calls", (def.releases + def.then_alloc) as u64);
                    for (step, x) in problems {
                        rep.violation("C34", x.oracle, &format!("{}/seed-construction", x.sig), || json!({"mode": "tolerant", "env": pass.env.name(), "seed": def.name, "ops": [], "build_step": step}), &x.expected, &x.observed);
                    }
                    rep.sample(|| case_json(pass.mode, &seed, &[Op::RelLo, Op::Alloc, Op::Alloc]));
                }
                // shallow phase: every worker expands depth <= SHALLOW identically; the owner reports it
                let sh_depth = SHALLOW.min(depth);
                let mut shallow: HashSet<u128> = HashSet::new();
                shallow.insert(seed.st.hash());
                if owner {
                    rep.add_states(1); // the seed state itself
                }
                let Some(frontier) = ex.bfs(&seed, pass.mode, vec![0], 0, sh_depth, &mut shallow, owner, rep) else {
                    break 'outer;
                };
                if depth > sh_depth {
                    for start in frontier {
                        unit += 1;
                        if !ctx.mine(unit) {
                            continue;
                        }
                        let mut visited = shallow.clone();
                        if ex.bfs(&seed, pass.mode, vec![start], sh_depth, depth, &mut visited, true, rep).is_none() {
                            break 'outer;
                        }
                    }
                }
                ex.ev.flush(rep);
            }
        }
        ex.ev.flush(rep);
    }

    fn replay(&self, ctx: &Ctx, case: &Value, rep: &mut Reporter) {
        let mode = Mode::parse(case["mode"].as_str().unwrap_or("tolerant"));
        let env = if case["env"].as_str() == Some("table") { Env::Table } else { Env::Zero };
        let name = case["seed"].as_str().unwrap_or("empty");
        let Some(def) = seed_defs().into_iter().find(|d| d.name == name) else {
            rep.note("unknown seed in replay case");
            return;
        };
        let envp = if env == Env::Table { vcore::catch(|| table_file_pages(ctx)).ok().flatten() } else { None };
        let mut ev = Ev::default();
        let mut problems = Vec::new();
        let seed = build_seed(def, env, &envp, &mut ev, &mut problems);
        for (step, x) in problems {
            rep.violation("C34", x.oracle, &format!("{}/seed-construction", x.sig), || json!({"mode": "tolerant", "env": env.name(), "seed": def.name, "ops": [], "build_step": step}), &x.expected, &x.observed);
        }
        let ops: Vec<Op> = case["ops"].as_array().map(|a| a.iter().filter_map(|x| x.as_str().and_then(Op::parse)).collect()).unwrap_or_default();
        let mut st = seed.st.clone();
        let mut seen = Bits::new(st.sto.page_count);
        let mut done = Vec::new();
        for op in ops {
            if !enabled(&st.m, op) {
                rep.note("replay: op not enabled");
                break;
            }
            done.push(op);
            let v = apply(&mut st, op, mode, true, &mut ev, &mut seen);
            if std::env::var("C34_TRACE").is_ok() {
                eprintln!("   p0[16..24]={:02x?} p1[16..24]={:02x?} materialized={:?}", &st.sto.raw(0)[16..24], &st.sto.raw(1)[16..24], st.sto.pages.iter().map(|(n, _)| *n).collect::<Vec<_>>());
                eprintln!("{:8} -> head={} free_count={} held={:?} avail={} overhead={:?} head_trunk={:?}", op.name(), st.head, st.fc, st.m.held, st.m.n_avail, st.m.overhead, st.inspect());
            }
            rep.add_transitions(1);
            if !v.is_empty() {
                for x in v {
                    rep.violation("C34", x.oracle, &x.sig, || case_json(mode, &seed, &done), &x.expected, &x.observed);
                }
                break;
            }
        }
        rep.case(st.hash() as u64, true);
        ev.flush(rep);
    }
}

fn main() {
    vcore::main(&C34)
}
