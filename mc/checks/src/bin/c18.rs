//! C18 — subqueries and set operations follow SQL semantics (QRY engine, exploration).
//!
//! Tables T0..T3 = l(k,x), r(k,y), m(k,z), n(k,w); key columns are multisets over a small domain
//! containing NULL and duplicates (also empty tables), payloads are unique per row.
//! Grammar (level i refers to table Ti, a subquery of a level-i query ranges over T(i+1)):
//!   P ::= Ti.k [NOT] IN (SELECT Tj.k FROM Tj [WHERE W])            in-sub / not-in-sub
//!       | [NOT] EXISTS (SELECT Tj.k FROM Tj [WHERE W])              exists / not-exists
//!       | Ti.k = (SELECT MAX(Tj.k) FROM Tj [WHERE W])               scalar-where(max)
//!       | Ti.k = (SELECT Tj.k FROM Tj [WHERE W])                    scalar-where(bare)   (> 1 row ⇒ error)
//!       | 0 < (SELECT COUNT(*) FROM Tj [WHERE W])                   scalar-where(count)
//!   W ::= none | Tj.pay > c | Tj.k = Ti.k | P(j) | Tj.k = Ti.k AND P(j)          (j = i+1)
//! top level: SELECT T0.k, T0.pay FROM T0 WHERE P;  scalar subqueries in the select list
//! (MAX / MIN / COUNT(*) / bare column, with the same W); derived tables (plain, filtered, DISTINCT,
//! GROUP BY, joined, nested P inside, IN over a derived table); UNION / INTERSECT / EXCEPT [ALL] of two
//! selects (1 and 2 columns, WHERE on either side), as IN-subquery, with ORDER BY ordinal LIMIT,
//! and under a derived table.  Nesting depth <= 2 (quick) / <= 3 (thorough).
//!
//! Oracle: `refmodel::sql::Query::eval` (bag; an expected `ScalarSubqueryRows` error must be an Err).
//! Blame: a query whose sub-constructs (the nested predicate evaluated as a top-level query one level
//! down, and the query with the nested predicate removed) already violate on the same tables is
//! pruned and counted — signatures therefore name the smallest failing construct, and everything
//! that does not contain a failing construct is explored to full depth.
use checks::sqlh::*;
use refmodel::sql::expr::{self as ex, EvalErr, Expr};
use refmodel::sql::query::{From, JoinKind, OrderKey, Query, SelectItem, SetOp, Table};
use refmodel::sql::{Database as MDb, Ty};
use refmodel::val::{show_rows, Row, V};
use std::collections::{BTreeMap, BTreeSet};
use std::path::Path;
use vcore::{json, Check, Ctx, Reporter, Spec, Value};

const PROP: &str = "C18";

// ---------------------------------------------------------------------------
// tables
// ---------------------------------------------------------------------------
/// (table, payload column, payload base)
const T: [(&str, &str, i64); 4] = [("l", "x", 10), ("r", "y", 20), ("m", "z", 30), ("n", "w", 40)];
type Keys = Vec<Option<i64>>;

fn multisets(dom: &[Option<i64>], n: usize) -> Vec<Keys> {
    fn go(dom: &[Option<i64>], n: usize, start: usize, cur: &mut Keys, out: &mut Vec<Keys>) {
        if cur.len() == n {
            out.push(cur.clone());
            return;
        }
        for i in start..dom.len() {
            cur.push(dom[i]);
            go(dom, n, i, cur, out);
            cur.pop();
        }
    }
    let mut out = vec![];
    go(dom, n, 0, &mut vec![], &mut out);
    out
}
fn multisets_upto(dom: &[Option<i64>], n: usize) -> Vec<Keys> {
    (0..=n).flat_map(|k| multisets(dom, k)).collect()
}
const DOM4: [Option<i64>; 4] = [None, Some(1), Some(2), Some(3)];
const DOM3: [Option<i64>; 3] = [None, Some(1), Some(2)];
const DOM2: [Option<i64>; 2] = [None, Some(1)];

#[derive(Clone, Debug, PartialEq, Eq)]
struct Tabs {
    /// keys of T0.. (1 to 4 tables); the other tables exist and are empty
    t: Vec<Keys>,
}
impl Tabs {
    fn rows(&self, i: usize) -> Vec<Row> {
        self.t.get(i).map(|k| k.iter().enumerate().map(|(j, k)| vec![k.map(V::Int).unwrap_or(V::Null), V::Int(T[i].2 + j as i64)]).collect()).unwrap_or_default()
    }
    fn model(&self) -> MDb {
        let mut db = MDb::new();
        for i in 0..4 {
            db = db.with(T[i].0, Table::new(&[("k", Ty::Int), (T[i].1, Ty::Int)], self.rows(i)));
        }
        db
    }
    fn null_class(&self, i: usize) -> &'static str {
        match self.t.get(i) {
            None => "empty",
            Some(k) if k.is_empty() => "empty",
            Some(k) if k.iter().any(|x| x.is_none()) => "null",
            Some(_) => "nonull",
        }
    }
    fn to_json(&self) -> Value {
        Value::Array(self.t.iter().map(|k| Value::Array(k.iter().map(|x| x.map(|i| json!(i)).unwrap_or(Value::Null)).collect())).collect())
    }
    fn from_json(v: &Value) -> Option<Tabs> {
        Some(Tabs { t: v.as_array()?.iter().map(|k| Some(k.as_array()?.iter().map(|x| x.as_i64()).collect::<Keys>())).collect::<Option<Vec<_>>>()? })
    }
}

fn setup(dir: &Path, t: &Tabs, indexed: bool) -> Result<TestDb, String> {
    let db = TestDb::create(dir, "db")?;
    for i in 0..4 {
        let s = format!("CREATE TABLE {}(k INT, {} INT)", T[i].0, T[i].1);
        let r = db.exec(&s);
        if !r.ok() {
            return Err(format!("{s}: {}", r.show()));
        }
        if indexed {
            let s = format!("CREATE INDEX i{} ON {}(k)", T[i].0, T[i].0);
            let r = db.exec(&s);
            if !r.ok() {
                return Err(format!("{s}: {}", r.show()));
            }
        }
        let rows = t.rows(i);
        if !rows.is_empty() {
            let vals: Vec<String> = rows.iter().map(|r| format!("({})", r.iter().map(lit).collect::<Vec<_>>().join(", "))).collect();
            let s = format!("INSERT INTO {} VALUES {}", T[i].0, vals.join(", "));
            match db.exec(&s) {
                Res::Affected(n, _) if n == rows.len() => {}
                o => return Err(format!("{s}: {}", o.show())),
            }
        }
    }
    Ok(db)
}

// ---------------------------------------------------------------------------
// grammar
// ---------------------------------------------------------------------------
#[derive(Clone, Copy, PartialEq, Eq, PartialOrd, Ord, Debug, Hash)]
enum PK {
    In,
    NotIn,
    Exists,
    NotExists,
    ScalarMax,
    ScalarBare,
    ScalarCount,
}
const PKS: [PK; 7] = [PK::In, PK::NotIn, PK::Exists, PK::NotExists, PK::ScalarMax, PK::ScalarBare, PK::ScalarCount];
impl PK {
    fn name(self) -> &'static str {
        match self {
            PK::In => "in-sub",
            PK::NotIn => "not-in-sub",
            PK::Exists => "exists",
            PK::NotExists => "not-exists",
            PK::ScalarMax => "scalar-where(max)",
            PK::ScalarBare => "scalar-where(bare)",
            PK::ScalarCount => "scalar-where(count)",
        }
    }
    fn parse(s: &str) -> Option<PK> {
        PKS.into_iter().find(|k| k.name() == s)
    }
    /// family name of a nested construct in signatures
    fn family(self) -> &'static str {
        match self {
            PK::In | PK::NotIn | PK::Exists | PK::NotExists => "sub",
            _ => "scalar",
        }
    }
}
/// WHERE clause of a subquery over Tj inside a level-i query (j = i + 1)
#[derive(Clone, PartialEq, Eq, PartialOrd, Ord, Debug, Hash)]
enum W {
    None,
    /// Tj.pay > base_j
    Local,
    /// Tj.k = Ti.k
    Corr,
    /// P at level j
    Nested(Box<P>),
    /// Tj.k = Ti.k AND P at level j
    CorrNested(Box<P>),
}
#[derive(Clone, PartialEq, Eq, PartialOrd, Ord, Debug, Hash)]
struct P {
    kind: PK,
    w: W,
}
impl W {
    fn nested(&self) -> Option<&P> {
        match self {
            W::Nested(p) | W::CorrNested(p) => Some(p),
            _ => None,
        }
    }
    fn stripped(&self) -> W {
        match self {
            W::Nested(_) => W::None,
            W::CorrNested(_) => W::Corr,
            o => o.clone(),
        }
    }
    fn is_corr(&self) -> bool {
        matches!(self, W::Corr | W::CorrNested(_))
    }
    fn depth(&self) -> usize {
        self.nested().map_or(0, |p| p.depth())
    }
    fn to_json(&self) -> Value {
        match self {
            W::None => json!("none"),
            W::Local => json!("local"),
            W::Corr => json!("corr"),
            W::Nested(p) => json!({"nested": p.to_json()}),
            W::CorrNested(p) => json!({"corr+nested": p.to_json()}),
        }
    }
    fn from_json(v: &Value) -> Option<W> {
        match v {
            Value::String(s) => match s.as_str() {
                "none" => Some(W::None),
                "local" => Some(W::Local),
                "corr" => Some(W::Corr),
                _ => None,
            },
            Value::Object(o) => {
                if let Some(p) = o.get("nested") {
                    Some(W::Nested(Box::new(P::from_json(p)?)))
                } else {
                    Some(W::CorrNested(Box::new(P::from_json(o.get("corr+nested")?)?)))
                }
            }
            _ => None,
        }
    }
    fn sig(&self) -> String {
        match self {
            W::None | W::Local | W::Corr => String::new(),
            // a nested construct is named by its family only (the exact kind is in the case): the bases of a nested
            // query passed, so the blame lies with the enclosing construct's handling of a subquery inside its subquery
            W::Nested(p) | W::CorrNested(p) => format!(">{}{}", p.kind.family(), p.w.sig()),
        }
    }
    fn corr_sig(&self) -> String {
        // "uncorr-filtered": the subquery has a WHERE clause of its own (local predicate or nested subquery)
        let own = match self {
            W::None => "uncorr",
            W::Local | W::Nested(_) => "uncorr-filtered",
            W::Corr | W::CorrNested(_) => "corr",
        };
        match self.nested() {
            Some(p) => format!("{own}>{}", p.w.corr_sig_coarse()),
            None => own.to_string(),
        }
    }
    fn corr_sig_coarse(&self) -> String {
        let own = if self.is_corr() { "corr" } else { "uncorr" };
        match self.nested() {
            Some(p) => format!("{own}>{}", p.w.corr_sig_coarse()),
            None => own.to_string(),
        }
    }
}
impl P {
    fn depth(&self) -> usize {
        1 + self.w.depth()
    }
    fn to_json(&self) -> Value {
        json!({"kind": self.kind.name(), "w": self.w.to_json()})
    }
    fn from_json(v: &Value) -> Option<P> {
        Some(P { kind: PK::parse(v.get("kind")?.as_str()?)?, w: W::from_json(v.get("w")?)? })
    }
    /// construct chain, outermost first: "in-sub>exists"
    fn sig(&self) -> String {
        format!("{}{}", self.kind.name(), self.w.sig())
    }
}

fn tk(i: usize) -> Expr {
    ex::qcol(T[i].0, "k")
}
fn tp(i: usize) -> Expr {
    ex::qcol(T[i].0, T[i].1)
}
fn w_expr(w: &W, j: usize) -> Option<Expr> {
    match w {
        W::None => None,
        W::Local => Some(ex::gt(tp(j), ex::int(T[j].2))),
        W::Corr => Some(ex::eq(tk(j), tk(j - 1))),
        W::Nested(p) => Some(p_expr(p, j)),
        W::CorrNested(p) => Some(ex::and(ex::eq(tk(j), tk(j - 1)), p_expr(p, j))),
    }
}
fn sub(j: usize, item: Expr, w: &W) -> Query {
    let q = Query::select(vec![SelectItem::expr(item)], From::table(T[j].0));
    match w_expr(w, j) {
        Some(e) => q.where_(e),
        None => q,
    }
}
/// predicate at level i (its subquery ranges over T(i+1))
fn p_expr(p: &P, i: usize) -> Expr {
    let j = i + 1;
    match p.kind {
        PK::In => ex::in_sub(tk(i), sub(j, tk(j), &p.w)),
        PK::NotIn => ex::not_in_sub(tk(i), sub(j, tk(j), &p.w)),
        PK::Exists => ex::exists(sub(j, tk(j), &p.w)),
        PK::NotExists => ex::not_exists(sub(j, tk(j), &p.w)),
        PK::ScalarMax => ex::eq(tk(i), ex::scalar(sub(j, ex::max(tk(j)), &p.w))),
        PK::ScalarBare => ex::eq(tk(i), ex::scalar(sub(j, tk(j), &p.w))),
        PK::ScalarCount => ex::lt(ex::int(0), ex::scalar(sub(j, ex::count_star(), &p.w))),
    }
}
/// leaves W(0) and all predicates of depth exactly `d` (d >= 1), simplest first
fn preds_of_depth(d: usize) -> Vec<P> {
    let mut by_depth: Vec<Vec<P>> = vec![];
    for depth in 1..=d {
        let mut ws: Vec<W> = vec![];
        if depth == 1 {
            ws.extend([W::None, W::Local, W::Corr]);
        } else {
            for p in &by_depth[depth - 2] {
                ws.push(W::Nested(Box::new(p.clone())));
                ws.push(W::CorrNested(Box::new(p.clone())));
            }
        }
        let mut ps = vec![];
        for w in &ws {
            for k in PKS {
                ps.push(P { kind: k, w: w.clone() });
            }
        }
        by_depth.push(ps);
    }
    by_depth.pop().unwrap_or_default()
}

#[derive(Clone, Copy, PartialEq, Eq, PartialOrd, Ord, Debug, Hash)]
enum SelAgg {
    Max,
    Min,
    Count,
    Bare,
}
impl SelAgg {
    fn name(self) -> &'static str {
        match self {
            SelAgg::Max => "max",
            SelAgg::Min => "min",
            SelAgg::Count => "count",
            SelAgg::Bare => "bare",
        }
    }
    fn parse(s: &str) -> Option<SelAgg> {
        [SelAgg::Max, SelAgg::Min, SelAgg::Count, SelAgg::Bare].into_iter().find(|k| k.name() == s)
    }
}
#[derive(Clone, Copy, PartialEq, Eq, PartialOrd, Ord, Debug, Hash)]
enum Derived {
    Plain,
    Filtered,
    OuterWhere,
    Distinct,
    GroupCount,
    InnerJoin,
    LeftJoin,
    InOverDerived,
    OverUnion,
}
const DERIVEDS: [Derived; 9] = [Derived::Plain, Derived::Filtered, Derived::OuterWhere, Derived::Distinct, Derived::GroupCount, Derived::InnerJoin, Derived::LeftJoin, Derived::InOverDerived, Derived::OverUnion];
impl Derived {
    fn name(self) -> &'static str {
        match self {
            Derived::Plain => "derived",
            Derived::Filtered => "derived(filtered)",
            Derived::OuterWhere => "derived(outer-where)",
            Derived::Distinct => "derived(distinct)",
            Derived::GroupCount => "derived(group-count)",
            Derived::InnerJoin => "derived(inner-join)",
            Derived::LeftJoin => "derived(left-join)",
            Derived::InOverDerived => "in-sub(over-derived)",
            Derived::OverUnion => "derived(over-union)",
        }
    }
    fn parse(s: &str) -> Option<Derived> {
        DERIVEDS.into_iter().find(|k| k.name() == s)
    }
}
#[derive(Clone, Copy, PartialEq, Eq, PartialOrd, Ord, Debug, Hash)]
enum SetForm {
    /// SELECT l.k FROM l OP SELECT r.k FROM r
    One,
    /// two columns (k, pay - base): payload positions collide
    Two,
    /// WHERE k IS NOT NULL on the left / right operand
    WhereLeft,
    WhereRight,
    /// ... ORDER BY 1 LIMIT 2
    OrderLimit,
    /// l.k IN (SELECT r.k FROM r OP SELECT m.k FROM m)
    InSub,
}
const SETFORMS: [SetForm; 6] = [SetForm::One, SetForm::Two, SetForm::WhereLeft, SetForm::WhereRight, SetForm::OrderLimit, SetForm::InSub];
impl SetForm {
    fn name(self) -> &'static str {
        match self {
            SetForm::One => "",
            SetForm::Two => "(2-cols)",
            SetForm::WhereLeft => "(where-left)",
            SetForm::WhereRight => "(where-right)",
            SetForm::OrderLimit => "(order-limit)",
            SetForm::InSub => "(as-in-sub)",
        }
    }
    fn parse(s: &str) -> Option<SetForm> {
        SETFORMS.into_iter().find(|k| k.name() == s)
    }
}

/// one top-level query of the grammar
#[derive(Clone, PartialEq, Eq, PartialOrd, Ord, Debug, Hash)]
enum QS {
    /// SELECT Ti.k, Ti.pay FROM Ti WHERE P   (i = level; level > 0 only as a base of a nested query)
    Where { level: usize, p: P },
    /// SELECT Ti.k, Ti.pay, (SELECT agg FROM Tj WHERE W) FROM Ti WHERE (1 = 1)
    Select { level: usize, agg: SelAgg, w: W },
    Derived { d: Derived, w: W },
    Set { op: SetOp, all: bool, form: SetForm },
}
fn setop_name(op: SetOp) -> &'static str {
    match op {
        SetOp::Union => "union",
        SetOp::Intersect => "intersect",
        SetOp::Except => "except",
    }
}
impl QS {
    fn to_json(&self) -> Value {
        match self {
            QS::Where { level, p } => json!({"q": "where", "level": level, "p": p.to_json()}),
            QS::Select { level, agg, w } => json!({"q": "select", "level": level, "agg": agg.name(), "w": w.to_json()}),
            QS::Derived { d, w } => json!({"q": "derived", "d": d.name(), "w": w.to_json()}),
            QS::Set { op, all, form } => json!({"q": "set", "op": setop_name(*op), "all": all, "form": form.name()}),
        }
    }
    fn from_json(v: &Value) -> Option<QS> {
        match v.get("q")?.as_str()? {
            "where" => Some(QS::Where { level: v.get("level")?.as_u64()? as usize, p: P::from_json(v.get("p")?)? }),
            "select" => Some(QS::Select { level: v.get("level")?.as_u64()? as usize, agg: SelAgg::parse(v.get("agg")?.as_str()?)?, w: W::from_json(v.get("w")?)? }),
            "derived" => Some(QS::Derived { d: Derived::parse(v.get("d")?.as_str()?)?, w: W::from_json(v.get("w")?)? }),
            "set" => Some(QS::Set {
                op: SetOp::ALL.into_iter().find(|o| setop_name(*o) == v.get("op").and_then(|x| x.as_str()).unwrap_or(""))?,
                all: v.get("all")?.as_bool()?,
                form: SetForm::parse(v.get("form")?.as_str()?)?,
            }),
            _ => None,
        }
    }
    /// (construct, correlated?) signature components
    fn sig(&self) -> (String, String) {
        match self {
            QS::Where { p, .. } => (p.sig(), p.w.corr_sig()),
            QS::Select { agg, w, .. } => (format!("scalar-select({}){}", agg.name(), w.sig()), w.corr_sig()),
            QS::Derived { d, w } => (format!("{}{}", d.name(), w.sig()), if w.nested().is_some() { format!("uncorr>{}", w.nested().unwrap().w.corr_sig()) } else { "uncorr".into() }),
            QS::Set { op, all, form } => (format!("{}{}{}", setop_name(*op), if *all { "-all" } else { "" }, form.name()), "uncorr".into()),
        }
    }
    /// levels of the (outer, inner) tables whose NULL class goes into the signature
    fn levels(&self) -> (usize, usize) {
        match self {
            QS::Where { level, .. } | QS::Select { level, .. } => (*level, level + 1),
            QS::Derived { .. } => (0, 1),
            QS::Set { .. } => (0, 1),
        }
    }
    /// simpler queries whose failure on the same tables makes this one uninformative
    fn bases(&self) -> Vec<QS> {
        match self {
            QS::Where { level, p } => match p.w.nested() {
                // the same construct with no / a plain filter in its subquery, and the nested predicate on its own
                Some(inner) => vec![QS::Where { level: *level, p: P { kind: p.kind, w: p.w.stripped() } }, QS::Where { level: *level, p: P { kind: p.kind, w: W::Local } }, QS::Where { level: level + 1, p: inner.clone() }],
                None => vec![],
            },
            QS::Select { level, agg, w } => match w.nested() {
                Some(inner) => vec![QS::Select { level: *level, agg: *agg, w: w.stripped() }, QS::Select { level: *level, agg: *agg, w: W::Local }, QS::Where { level: level + 1, p: inner.clone() }],
                None => vec![],
            },
            QS::Derived { d, w } => match w.nested() {
                Some(inner) => vec![QS::Derived { d: *d, w: w.stripped() }, QS::Derived { d: *d, w: W::Local }, QS::Where { level: 1, p: inner.clone() }],
                None => match d {
                    Derived::Plain => vec![],
                    Derived::OverUnion => vec![QS::Derived { d: Derived::Plain, w: W::None }, QS::Set { op: SetOp::Union, all: false, form: SetForm::One }],
                    _ => vec![QS::Derived { d: Derived::Plain, w: W::None }],
                },
            },
            QS::Set { op, all, form } => match form {
                SetForm::One => vec![],
                SetForm::InSub => vec![QS::Set { op: *op, all: *all, form: SetForm::One }, QS::Where { level: 0, p: P { kind: PK::In, w: W::None } }],
                _ => vec![QS::Set { op: *op, all: *all, form: SetForm::One }],
            },
        }
    }
    fn build(&self) -> Query {
        match self {
            QS::Where { level, p } => {
                let i = *level;
                Query::select(vec![SelectItem::expr(tk(i)), SelectItem::expr(tp(i))], From::table(T[i].0)).where_(p_expr(p, i))
            }
            QS::Select { level, agg, w } => {
                let i = *level;
                let j = i + 1;
                let item = match agg {
                    SelAgg::Max => ex::max(tp(j)),
                    SelAgg::Min => ex::min(tp(j)),
                    SelAgg::Count => ex::count_star(),
                    SelAgg::Bare => tp(j),
                };
                Query::select(vec![SelectItem::expr(tk(i)), SelectItem::expr(tp(i)), SelectItem::aliased(ex::scalar(sub(j, item, w)), "s")], From::table(T[i].0)).where_(ex::eq(ex::int(1), ex::int(1)))
            }
            QS::Derived { d, w } => {
                let t11 = ex::eq(ex::int(1), ex::int(1));
                let rsel = |items: Vec<SelectItem>| -> Query {
                    let q = Query::select(items, From::table("r"));
                    // W of a derived table has no enclosing level: only none / local / nested (uncorrelated at its own level)
                    match w {
                        W::None | W::Corr => q,
                        W::Local => q.where_(ex::gt(tp(1), ex::int(T[1].2))),
                        W::Nested(p) | W::CorrNested(p) => q.where_(p_expr(p, 1)),
                    }
                };
                let two = || vec![SelectItem::expr(tk(1)), SelectItem::expr(tp(1))];
                let dk = || ex::qcol("d", "k");
                let dy = || ex::qcol("d", "y");
                match d {
                    Derived::Plain => Query::select(vec![SelectItem::expr(dk()), SelectItem::expr(dy())], From::derived(rsel(two()), "d")).where_(t11),
                    Derived::Filtered => Query::select(vec![SelectItem::expr(dk()), SelectItem::expr(dy())], From::derived(Query::select(two(), From::table("r")).where_(ex::gt(tp(1), ex::int(T[1].2))), "d")).where_(t11),
                    Derived::OuterWhere => Query::select(vec![SelectItem::expr(dk()), SelectItem::expr(dy())], From::derived(rsel(two()), "d")).where_(ex::gt(dy(), ex::int(T[1].2))),
                    Derived::Distinct => Query::select(vec![SelectItem::expr(dk())], From::derived(rsel(vec![SelectItem::expr(tk(1))]).distinct(), "d")).where_(t11),
                    Derived::GroupCount => Query::select(vec![SelectItem::expr(dk()), SelectItem::expr(ex::qcol("d", "c"))], From::derived(rsel(vec![SelectItem::expr(tk(1)), SelectItem::aliased(ex::count_star(), "c")]).group_by(vec![tk(1)]), "d")).where_(t11),
                    Derived::InnerJoin | Derived::LeftJoin => {
                        let kind = if *d == Derived::InnerJoin { JoinKind::Inner } else { JoinKind::Left };
                        Query::select(vec![SelectItem::expr(tk(0)), SelectItem::expr(tp(0)), SelectItem::expr(dk()), SelectItem::expr(dy())], From::table("l").join(kind, From::derived(rsel(two()), "d"), Some(ex::eq(tk(0), dk()))))
                    }
                    Derived::InOverDerived => Query::select(vec![SelectItem::expr(tk(0)), SelectItem::expr(tp(0))], From::table("l")).where_(ex::in_sub(tk(0), Query::select(vec![SelectItem::expr(dk())], From::derived(rsel(vec![SelectItem::expr(tk(1))]), "d")))),
                    Derived::OverUnion => {
                        let u = Query::set_op(SetOp::Union, false, Query::select(vec![SelectItem::expr(tk(0))], From::table("l")), Query::select(vec![SelectItem::expr(tk(1))], From::table("r")));
                        Query::select(vec![SelectItem::expr(dk())], From::derived(u, "d")).where_(t11)
                    }
                }
            }
            QS::Set { op, all, form } => {
                let side = |i: usize, two: bool, notnull: bool| -> Query {
                    let mut items = vec![SelectItem::expr(tk(i))];
                    if two {
                        items.push(SelectItem::expr(ex::sub(tp(i), ex::int(T[i].2))));
                    }
                    let q = Query::select(items, From::table(T[i].0));
                    if notnull {
                        q.where_(ex::is_not_null(tk(i)))
                    } else {
                        q
                    }
                };
                match form {
                    SetForm::One => Query::set_op(*op, *all, side(0, false, false), side(1, false, false)),
                    SetForm::Two => Query::set_op(*op, *all, side(0, true, false), side(1, true, false)),
                    SetForm::WhereLeft => Query::set_op(*op, *all, side(0, false, true), side(1, false, false)),
                    SetForm::WhereRight => Query::set_op(*op, *all, side(0, false, false), side(1, false, true)),
                    SetForm::OrderLimit => Query::set_op(*op, *all, side(0, false, false), side(1, false, false)).order_by(vec![OrderKey::ordinal(1, false)]).limit(2),
                    SetForm::InSub => Query::select(vec![SelectItem::expr(tk(0)), SelectItem::expr(tp(0))], From::table("l")).where_(ex::in_sub(tk(0), Query::set_op(*op, *all, side(1, false, false), side(2, false, false)))),
                }
            }
        }
    }
    /// number of tables the query reads (levels 0..n)
    fn tables_used(&self) -> usize {
        match self {
            QS::Where { level, p } => level + 1 + p.depth(),
            QS::Select { level, w, .. } => level + 2 + w.depth(),
            QS::Derived { w, .. } => 2 + w.depth(),
            QS::Set { form, .. } => {
                if *form == SetForm::InSub {
                    3
                } else {
                    2
                }
            }
        }
    }
}

// ---------------------------------------------------------------------------
// oracle
// ---------------------------------------------------------------------------
fn canon_bag(rows: &[Row]) -> Vec<Row> {
    let mut r: Vec<Row> = rows.iter().map(|r| r.iter().map(|v| ex::canon(v, true)).collect()).collect();
    r.sort();
    r
}
fn bag_minus(a: &[Row], b: &[Row]) -> Vec<Row> {
    let mut out = vec![];
    let mut j = 0;
    for x in a {
        while j < b.len() && b[j] < *x {
            j += 1;
        }
        if j < b.len() && b[j] == *x {
            j += 1;
        } else {
            out.push(x.clone());
        }
    }
    out
}
fn show_bag(rows: &[Row]) -> String {
    show_rows(&rows.to_vec())
}

enum Expect {
    /// sorted canonical bag; `ordered_window`: ORDER BY + LIMIT present, compare through `accepts`
    Rows(Vec<Row>),
    Window(refmodel::sql::QueryResult),
    /// scalar subquery with more than one row
    Error(String),
}

/// None = conforms; Some((expected class, observed class, expected text, observed text))
fn judge(exp: &Expect, res: &Res, scalar_select: bool, err_tolerated: bool) -> Option<(String, String, String, String)> {
    match (exp, res) {
        (_, Res::Panic(p)) => Some((exp_class(exp).into(), "panic".into(), exp_text(exp), format!("PANIC {p}"))),
        (Expect::Error(_), Res::Err(_)) => None,
        (Expect::Error(e), Res::Rows(rows)) => Some(("error".into(), "rows".into(), format!("an error ({e})"), format!("rows {}", show_bag(&canon_bag(rows))))),
        (Expect::Rows(_) | Expect::Window(_), Res::Err(e)) => {
            if err_tolerated {
                None
            } else {
                Some(("rows".into(), "error".into(), exp_text(exp), format!("Err({})", vcore::util::clip(e, 300))))
            }
        }
        (Expect::Window(qr), Res::Rows(rows)) => {
            let obs: Vec<Row> = rows.iter().map(|r| r.iter().map(|v| ex::canon(v, true)).collect()).collect();
            match qr.accepts_by(&obs, &ex::loosely_equal_bool) {
                Ok(()) => None,
                Err(why) => Some(("rows".into(), "wrong-window".into(), exp_text(exp), format!("{} ({why})", show_rows(&obs)))),
            }
        }
        (Expect::Rows(expected), Res::Rows(rows)) => {
            let obs = canon_bag(rows);
            if expected == &obs {
                return None;
            }
            let missing = bag_minus(expected, &obs);
            let extra = bag_minus(&obs, expected);
            let same_set = |a: &[Row], b: &[Row]| a.iter().all(|x| b.binary_search(x).is_ok());
            let strip = |rows: &[Row]| -> Vec<Row> {
                let mut v: Vec<Row> = rows.iter().map(|r| r[..r.len().saturating_sub(1)].to_vec()).collect();
                v.sort();
                v
            };
            let f = if expected.first().map(|r| r.len()) != obs.first().map(|r| r.len()) && !expected.is_empty() && !obs.is_empty() {
                "arity"
            } else if scalar_select && strip(expected) == strip(&obs) {
                // only the subquery column differs: classify the wrong value
                let vals: BTreeSet<String> = extra.iter().map(|r| r.last().map(|v| if v.is_null() { "NULL" } else { "value" }).unwrap_or("?").to_string()).collect();
                if vals.len() == 1 && vals.contains("NULL") {
                    "null-for-value"
                } else {
                    "wrong-value"
                }
            } else if missing.is_empty() && same_set(&extra, expected) || extra.is_empty() && same_set(&missing, &obs) {
                "dup-count"
            } else if extra.is_empty() {
                "missing-rows"
            } else if missing.is_empty() {
                "extra-rows"
            } else {
                "wrong-rows"
            };
            Some(("rows".into(), f.into(), exp_text(exp), format!("bag {} (missing {}, extra {})", show_bag(&obs), show_bag(&missing), show_bag(&extra))))
        }
        (_, other) => Some((exp_class(exp).into(), "error".into(), exp_text(exp), other.show())),
    }
}
fn exp_class(e: &Expect) -> &'static str {
    match e {
        Expect::Error(_) => "error",
        _ => "rows",
    }
}
fn exp_text(e: &Expect) -> String {
    match e {
        Expect::Rows(r) => format!("bag {}", show_bag(r)),
        Expect::Window(q) => format!("a 2-row window of {} sorted by column 1", show_rows(&q.full)),
        Expect::Error(s) => format!("an error ({s})"),
    }
}

/// The query with the WHERE clause of the subquery at nesting level `lvl` (0 = outermost subquery) reduced to
/// its correlation predicate (or removed).  None if there is no filter at that level.
fn strip_at(q: &QS, lvl: usize) -> Option<QS> {
    fn strip_w(w: &W, lvl: usize) -> Option<W> {
        if lvl == 0 {
            match w {
                W::Local | W::Nested(_) => Some(W::None),
                W::CorrNested(_) => Some(W::Corr),
                _ => None,
            }
        } else {
            match w {
                W::Nested(p) => strip_w(&p.w, lvl - 1).map(|w2| W::Nested(Box::new(P { kind: p.kind, w: w2 }))),
                W::CorrNested(p) => strip_w(&p.w, lvl - 1).map(|w2| W::CorrNested(Box::new(P { kind: p.kind, w: w2 }))),
                _ => None,
            }
        }
    }
    match q {
        QS::Where { level, p } => strip_w(&p.w, lvl).map(|w| QS::Where { level: *level, p: P { kind: p.kind, w } }),
        QS::Select { level, agg, w } => strip_w(w, lvl).map(|w| QS::Select { level: *level, agg: *agg, w }),
        _ => None,
    }
}
/// Diagnosis of a wrong row result: is the observed bag exactly the answer of the query whose subquery at
/// some nesting level had its WHERE clause (apart from the correlation equality) ignored?  Returns that level.
fn where_ignored_level(q: &QS, mdb: &MDb, res: &Res) -> Option<usize> {
    let Res::Rows(rows) = res else { return None };
    let obs = canon_bag(rows);
    for lvl in 0..3 {
        if let Some(alt) = strip_at(q, lvl) {
            if let Ok(r) = alt.build().eval(mdb) {
                if canon_bag(&r.rows) == obs {
                    return Some(lvl);
                }
            }
        }
    }
    None
}
/// signature of a "subquery WHERE ignored" diagnosis: constructs down to the level whose filter is ignored
fn signature_where_ignored(q: &QS, t: &Tabs, lvl: usize, exp: &str) -> String {
    let (construct, corr) = q.sig();
    let cut = |s: &str| s.split('>').take(lvl + 1).collect::<Vec<_>>().join(">");
    let (o, i) = q.levels();
    format!("{PROP}/{}[filter]/{}/in:{},out:{}/{exp}>subquery-where-ignored", cut(&construct), cut(&corr), t.null_class(i), t.null_class(o))
}

/// Does the query contain a bare-column scalar subquery?  Then an engine that evaluates it although no
/// outer row needs its value may legitimately raise the cardinality error where the model returns rows.
fn has_bare_scalar(q: &QS) -> bool {
    fn p_has(p: &P) -> bool {
        p.kind == PK::ScalarBare || p.w.nested().map_or(false, p_has)
    }
    match q {
        QS::Where { p, .. } => p_has(p),
        QS::Select { agg, w, .. } => *agg == SelAgg::Bare || w.nested().map_or(false, p_has),
        QS::Derived { w, .. } => w.nested().map_or(false, p_has),
        QS::Set { .. } => false,
    }
}

fn expectation(q: &QS, mdb: &MDb) -> (String, Expect) {
    let query = q.build();
    let sql = query.to_sql();
    let e = match query.eval(mdb) {
        Ok(r) => {
            if r.is_ordered() || r.limit.is_some() {
                Expect::Window(r)
            } else {
                Expect::Rows(canon_bag(&r.rows))
            }
        }
        Err(EvalErr::ScalarSubqueryRows) => Expect::Error("scalar subquery returned more than one row".into()),
        Err(e) => panic!("reference model rejects {sql}: {e}"),
    };
    (sql, e)
}

fn signature(q: &QS, t: &Tabs, exp: &str, obs: &str) -> String {
    let (construct, corr) = q.sig();
    let (o, i) = q.levels();
    format!("{PROP}/{construct}/{corr}/in:{},out:{}/{exp}>{obs}", t.null_class(i), t.null_class(o))
}

/// The one place where a query reaches TurDB (run and replay share it).
fn run_sql(db: &TestDb, _q: &QS, sql: &str) -> Res {
    db.exec(sql)
}

/// EXPLAIN node names (for the operator counters)
fn plan_nodes(plan: &Option<String>) -> Vec<String> {
    let Some(p) = plan else { return vec!["explain-error".into()] };
    let mut v = vec![];
    for line in p.lines() {
        if let Some(rest) = line.trim_start().strip_prefix("-> ") {
            let name: String = rest.chars().take_while(|c| c.is_ascii_alphanumeric()).collect();
            if !name.is_empty() {
                v.push(name);
            }
        }
    }
    v
}

struct Runner<'a> {
    db: &'a TestDb,
    mdb: MDb,
    t: &'a Tabs,
    indexed: bool,
    /// verdict memo: true = conforms (and no base failed)
    memo: BTreeMap<QS, bool>,
}
impl<'a> Runner<'a> {
    fn case(&self, q: &QS, sql: &str) -> Value {
        json!({"tabs": self.t.to_json(), "indexed": self.indexed, "q": q.to_json(), "sql": sql})
    }
    /// evaluate `q` (after its bases); returns true when it conforms
    fn eval(&mut self, q: &QS, rep: &mut Reporter, top: bool) -> bool {
        if let Some(v) = self.memo.get(q) {
            return *v;
        }
        let mut base_ok = true;
        for b in q.bases() {
            if !self.eval(&b, rep, false) {
                base_ok = false;
            }
        }
        if !base_ok {
            rep.pruned(1);
            rep.count(if top { "pruned_top_level" } else { "pruned_base" }, 1);
            self.memo.insert(q.clone(), false);
            return false;
        }
        let (sql, exp) = expectation(q, &self.mdb);
        let (construct, _) = q.sig();
        let family = construct.split(|c| c == '>' || c == '(').next().unwrap_or("").to_string();
        if self.memo.len() < 64 || top {
            for n in plan_nodes(&explain(self.db.db(), &sql)) {
                rep.count(&format!("plan_node[{n}]"), 1);
            }
        }
        let res = run_sql(self.db, q, &sql);
        let nontrivial = match &exp {
            Expect::Rows(r) => !r.is_empty(),
            Expect::Window(q) => !q.full.is_empty(),
            Expect::Error(_) => true,
        };
        rep.bulk(1, nontrivial as u64);
        rep.count(&format!("evaluated[{family}]"), 1);
        if matches!(exp, Expect::Error(_)) {
            rep.count("expected_error_cases", 1);
        }
        let tolerated = has_bare_scalar(q);
        let v = judge(&exp, &res, matches!(q, QS::Select { .. }), tolerated);
        let ok = match v {
            None => {
                rep.count("conforming", 1);
                rep.count(&format!("conforming[{family}]"), 1);
                rep.outcome(&format!("{family}:{}", match &exp {
                    Expect::Error(_) => "ok-error",
                    Expect::Rows(r) if r.is_empty() => "ok-empty",
                    _ => "ok-rows",
                }));
                if matches!(res, Res::Err(_)) && !matches!(exp, Expect::Error(_)) {
                    rep.count("tolerated_cardinality_error", 1);
                }
                true
            }
            Some((ec, oc, et, ot)) => {
                let sig = match where_ignored_level(q, &self.mdb, &res) {
                    Some(lvl) if ec == "rows" => {
                        rep.outcome(&format!("{family}:{ec}>subquery-where-ignored"));
                        signature_where_ignored(q, self.t, lvl, &ec)
                    }
                    _ => {
                        rep.outcome(&format!("{family}:{ec}>{oc}"));
                        signature(q, self.t, &ec, &oc)
                    }
                };
                rep.violation(PROP, "model", &sig, || self.case(q, &sql), &et, &ot);
                false
            }
        };
        self.memo.insert(q.clone(), ok);
        ok
    }
}

// ---------------------------------------------------------------------------
// enumeration
// ---------------------------------------------------------------------------
fn flat_queries() -> Vec<QS> {
    let mut v = vec![];
    for p in preds_of_depth(1) {
        v.push(QS::Where { level: 0, p });
    }
    for w in [W::None, W::Local, W::Corr] {
        for agg in [SelAgg::Max, SelAgg::Min, SelAgg::Count, SelAgg::Bare] {
            v.push(QS::Select { level: 0, agg, w: w.clone() });
        }
    }
    for d in DERIVEDS {
        v.push(QS::Derived { d, w: W::None });
    }
    // derived tables with a filter of their own (also the bases of the nested derived forms)
    for d in [Derived::Plain, Derived::InnerJoin, Derived::LeftJoin, Derived::InOverDerived] {
        v.push(QS::Derived { d, w: W::Local });
    }
    for op in SetOp::ALL {
        for all in [false, true] {
            for form in SETFORMS {
                v.push(QS::Set { op, all, form });
            }
        }
    }
    v
}
fn nested_queries(depth: usize) -> Vec<QS> {
    let mut v = vec![];
    for p in preds_of_depth(depth) {
        v.push(QS::Where { level: 0, p });
    }
    // scalar subquery in the select list / derived table whose WHERE nests a predicate of depth-1
    for p in preds_of_depth(depth - 1) {
        for agg in [SelAgg::Max, SelAgg::Count] {
            v.push(QS::Select { level: 0, agg, w: W::Nested(Box::new(p.clone())) });
            v.push(QS::Select { level: 0, agg, w: W::CorrNested(Box::new(p.clone())) });
        }
        for d in [Derived::Plain, Derived::InnerJoin, Derived::InOverDerived] {
            v.push(QS::Derived { d, w: W::Nested(Box::new(p.clone())) });
        }
    }
    v
}

fn run_tables(ctx: &Ctx, rep: &mut Reporter, t: &Tabs, indexed: bool, queries: &[QS]) {
    let db = match setup(&ctx.scratch, t, indexed) {
        Ok(db) => db,
        Err(e) => {
            rep.violation(PROP, "setup", &format!("{PROP}/setup/error"), || json!({"tabs": t.to_json(), "indexed": indexed, "q": Value::Null}), "tables are created and filled", &e);
            return;
        }
    };
    let mut r = Runner { db: &db, mdb: t.model(), t, indexed, memo: BTreeMap::new() };
    for q in queries {
        debug_assert!(q.tables_used() <= 4);
        r.eval(q, rep, true);
    }
}

fn tuples(tables: &[Keys], n: usize) -> Vec<Vec<Keys>> {
    let mut out: Vec<Vec<Keys>> = vec![vec![]];
    for _ in 0..n {
        let mut next = vec![];
        for pre in &out {
            for t in tables {
                let mut x = pre.clone();
                x.push(t.clone());
                next.push(x);
            }
        }
        out = next;
    }
    out
}

struct C18;
impl Check for C18 {
    fn specs(&self) -> Vec<Spec> {
        let mut s = Spec::new(
            PROP,
            "exploration",
            "Pass flat (depth 1): every pair of tables l, r with keys = multisets of <= 3 values over {NULL,1,2,3} (m = a fixed third table for set operations in subqueries), plain and with an index on every key column, x every depth-1 query: 7 predicate constructs ([NOT] IN, [NOT] EXISTS, = scalar MAX, = scalar bare column, 0 < scalar COUNT(*)) x inner WHERE {none, local, correlated}; scalar subquery in the select list {MAX, MIN, COUNT(*), bare} x the same WHEREs; 9 derived-table shapes; {UNION, INTERSECT, EXCEPT} x [ALL] x 6 forms. Pass nested (depth 2): every triple of tables with <= 2 rows over {NULL,1,2} x all 315 depth-2 predicates (each depth-1 predicate nested, with and without correlation, under each of the 7 constructs) + nested scalar-select and derived forms. Thorough adds depth 3 (4410 predicates + nested scalar-select / derived forms) over quadruples of <= 2-row tables over {NULL,1} (innermost table <= 1 row) and depth 2 over <= 3-row tables (indexed variant on the <= 2-row tables). One case = one (tables, query) execution compared as a bag with the reference model (expected cardinality errors must be errors); non-trivial = expected result non-empty or an expected error. A query whose sub-constructs already fail on the same tables is pruned and counted.",
        );
        s.cap_quick_s = 90;
        s.cap_thorough_s = 1500;
        // development aid on a loaded machine: VERIF_DEV_CAP=<seconds> lifts both soft deadlines
        if let Some(c) = std::env::var("VERIF_DEV_CAP").ok().and_then(|c| c.parse().ok()) {
            s.cap_quick_s = c;
            s.cap_thorough_s = c;
        }
        s.assumptions = &["reference model refmodel::sql (cross-checked against SQLite) defines the SQL answer; a bare-column scalar subquery may raise its cardinality error even when no outer row needs the value"];
        vec![s]
    }

    fn run(&self, ctx: &Ctx, rep: &mut Reporter) {
        let thorough = !ctx.quick();
        for c in ["conforming", "expected_error_cases", "plan_node[HashSemiJoin]", "plan_node[HashAntiJoin]", "plan_node[SetOp]", "plan_node[Subquery]", "evaluated[in-sub]", "evaluated[not-in-sub]", "evaluated[exists]", "evaluated[not-exists]", "evaluated[scalar-where]", "evaluated[scalar-select]", "evaluated[derived]", "evaluated[union]", "evaluated[union-all]", "evaluated[intersect]", "evaluated[intersect-all]", "evaluated[except]", "evaluated[except-all]"] {
            rep.expect_nonzero(c);
        }
        let only = ctx.opt("pass").map(|s| s.to_string());
        let want = |p: &str| only.as_deref().map_or(true, |o| o == p);
        let mut case_no = 0u64;
        // ---- flat
        if want("flat") {
            let tables = multisets_upto(&DOM4, 3);
            let queries = flat_queries();
            rep.bound("flat.tables_per_side", json!(tables.len()));
            rep.bound("flat.queries", json!(queries.len()));
            rep.bound("flat.third_table_m", json!("[NULL, 2] (used by set operations inside IN)"));
            for l in &tables {
                for r in &tables {
                    let i = case_no;
                    case_no += 1;
                    if !ctx.mine(i) {
                        continue;
                    }
                    if ctx.expired() {
                        rep.capped("flat pass: deadline");
                        return;
                    }
                    let t = Tabs { t: vec![l.clone(), r.clone(), vec![None, Some(2)]] };
                    for indexed in [false, true] {
                        rep.begin_case(&json!({"tabs": t.to_json(), "indexed": indexed}).to_string());
                        run_tables(ctx, rep, &t, indexed, &queries);
                    }
                    rep.sample(|| json!({"pass": "flat", "tabs": t.to_json(), "example_sql": queries[8].build().to_sql()}));
                }
            }
        }
        // ---- nested
        let mut passes: Vec<(&str, usize, Vec<Keys>, usize)> = vec![("nested2", 2, multisets_upto(&DOM3, if thorough { 3 } else { 2 }), 3)];
        if thorough {
            passes.push(("nested3", 3, multisets_upto(&DOM2, 2), 4));
        }
        for (name, depth, tables, ntab) in passes {
            if !want(name) {
                continue;
            }
            let queries = nested_queries(depth);
            rep.bound(&format!("{name}.tables_per_level"), json!(tables.len()));
            rep.bound(&format!("{name}.levels"), json!(ntab));
            rep.bound(&format!("{name}.queries"), json!(queries.len()));
            for tup in tuples(&tables, ntab) {
                // depth 3: the innermost table n has at most one row (halves the quadruples)
                if ntab == 4 && tup[3].len() > 1 {
                    continue;
                }
                let i = case_no;
                case_no += 1;
                if !ctx.mine(i) {
                    continue;
                }
                if ctx.expired() {
                    rep.capped(&format!("{name} pass: deadline"));
                    return;
                }
                let t = Tabs { t: tup };
                rep.begin_case(&json!({"tabs": t.to_json(), "indexed": false}).to_string());
                run_tables(ctx, rep, &t, false, &queries);
                // thorough: the indexed variant on the tables of <= 2 rows
                if thorough && depth == 2 && t.t.iter().all(|k| k.len() <= 2) {
                    run_tables(ctx, rep, &t, true, &queries);
                }
            }
        }
    }

    fn replay(&self, ctx: &Ctx, case: &Value, rep: &mut Reporter) {
        let t = Tabs::from_json(case.get("tabs").expect("tabs")).expect("tabs parse");
        let indexed = case.get("indexed").and_then(|v| v.as_bool()).unwrap_or(false);
        let db = match setup(&ctx.scratch, &t, indexed) {
            Ok(db) => db,
            Err(e) => {
                rep.violation(PROP, "setup", &format!("{PROP}/setup/error"), || case.clone(), "tables are created and filled", &e);
                return;
            }
        };
        let Some(q) = case.get("q").and_then(QS::from_json) else { return };
        // the single query, without base pruning: the signature is a function of (query, tables, result)
        let mdb = t.model();
        let (sql, exp) = expectation(&q, &mdb);
        let res = run_sql(&db, &q, &sql);
        rep.bulk(1, 1);
        if let Some((ec, oc, et, ot)) = judge(&exp, &res, matches!(q, QS::Select { .. }), has_bare_scalar(&q)) {
            let sig = match where_ignored_level(&q, &mdb, &res) {
                Some(lvl) if ec == "rows" => signature_where_ignored(&q, &t, lvl, &ec),
                _ => signature(&q, &t, &ec, &oc),
            };
            rep.violation(PROP, "model", &sig, || case.clone(), &et, &ot);
        }
    }
}

fn main() {
    vcore::main(&C18)
}
