//! C23 — decoders of stored bytes reject corruption without crashing.
//!
//! PART A: exhaustive single-edit neighbourhoods of valid encodings (built with
//! the real encoders) for every `pub` decoder, inputs placed at a guard page.
//! PART B: byte-level corruptions of every file of a real 3-table database,
//! followed by `Database::open` + scans / lookups.
//!
//! All subject code runs in forked children of the worker (one fork per block
//! of cases): a SIGSEGV / abort / stack overflow / hang of the child is
//! attributed to the exact case (progress word in shared memory), confirmed by
//! re-running that single case in a fresh child, reported with a narrow
//! signature, and the block is resumed with the deadly case skipped.
use checks::guard::GuardBuf;
use serde::{Deserialize, Serialize};
use std::collections::{BTreeMap, BTreeSet};
use std::path::{Path, PathBuf};
use vcore::{json, Check, Ctx, Reporter, Spec, Value};

const PAGE: usize = 16384;
const ALL_VALUES_MAX_LEN: usize = 160;
const SMALL6: [u8; 6] = [0x00, 0x01, 0x7F, 0x80, 0xFE, 0xFF];
const HANG_A_S: u32 = 2;
const HANG_B_S: u32 = 2;
/// a timeout inside a block is a verdict only if the case alone also exceeds this multiple of the limit
const HANG_CONFIRM_MULT: u32 = 3;

// ======================================================================
// isolation: run a closure in a forked child
// ======================================================================
mod iso {
    use super::*;

    pub struct Shared {
        ptr: *mut u64,
    }
    impl Shared {
        pub fn new() -> Shared {
            unsafe {
                let p = libc::mmap(std::ptr::null_mut(), 4096, libc::PROT_READ | libc::PROT_WRITE, libc::MAP_SHARED | libc::MAP_ANONYMOUS, -1, 0);
                assert!(p != libc::MAP_FAILED, "mmap shared progress page");
                Shared { ptr: p as *mut u64 }
            }
        }
        #[inline]
        pub fn set(&self, v: u64) {
            unsafe { std::ptr::write_volatile(self.ptr, v) }
        }
        pub fn get(&self) -> u64 {
            unsafe { std::ptr::read_volatile(self.ptr) }
        }
        /// name of the sub-decoder call in flight (for attributing a death)
        #[inline]
        pub fn set_sub(&self, name: &str) {
            let n = name.len().min(62);
            unsafe {
                let p = (self.ptr as *mut u8).add(64);
                std::ptr::copy_nonoverlapping(name.as_ptr(), p.add(1), n);
                std::ptr::write_volatile(p, n as u8);
            }
        }
        pub fn get_sub(&self) -> String {
            unsafe {
                let p = (self.ptr as *mut u8).add(64);
                let n = (std::ptr::read_volatile(p) as usize).min(62);
                String::from_utf8_lossy(std::slice::from_raw_parts(p.add(1), n)).to_string()
            }
        }
        /// index of the block the child is running
        pub fn set_block(&self, v: u64) {
            unsafe { std::ptr::write_volatile(self.ptr.add(1), v) }
        }
        pub fn get_block(&self) -> u64 {
            unsafe { std::ptr::read_volatile(self.ptr.add(1)) }
        }
    }

    #[derive(Serialize, Deserialize, Default, Clone)]
    pub struct Viol {
        pub count: u64,
        pub oracle: String,
        pub case: Value,
        pub observed: String,
    }

    /// What a child reports back for one block.
    #[derive(Serialize, Deserialize, Default)]
    pub struct Out {
        pub cases: u64,
        pub nontrivial: u64,
        pub ok: u64,
        pub err: u64,
        pub panics: u64,
        pub counters: BTreeMap<String, u64>,
        pub outcomes: BTreeSet<String>,
        pub viols: BTreeMap<String, Viol>,
        pub capped: Option<String>,
        pub harness_panic: Option<String>,
        pub notes: BTreeSet<String>,
        /// first case index of the block not covered by this (partial) report
        #[serde(default)]
        pub next: u64,
    }

    pub struct Died {
        pub how: String,
        pub block: u64,
        pub at: u64,
        pub sub: String,
    }
    pub struct Emitter {
        file: std::fs::File,
    }
    impl Emitter {
        /// one finished block
        pub fn emit(&mut self, block: usize, out: &Out) {
            use std::io::Write;
            let mut line = serde_json::to_vec(&(block, out)).expect("serialize block report");
            line.push(b'\n');
            self.file.write_all(&line).expect("write block report");
        }
    }

    /// Fork; run `f` in the child with resource limits; collect the per-block
    /// reports it emitted (also those emitted before a death).
    pub fn run_child(scratch: &Path, shared: &Shared, f: impl FnOnce(&mut Emitter)) -> (Vec<(usize, Out)>, Option<Died>) {
        let outp = scratch.join("child_out.jsonl");
        let _ = std::fs::remove_file(&outp);
        shared.set(u64::MAX);
        shared.set_block(u64::MAX);
        shared.set_sub("");
        let pid = unsafe { libc::fork() };
        if pid < 0 {
            vcore::machinery("fork failed");
        }
        if pid == 0 {
            unsafe {
                let lim = libc::rlimit { rlim_cur: 3 << 29, rlim_max: 3 << 29 };
                libc::setrlimit(libc::RLIMIT_AS, &lim);
                let core = libc::rlimit { rlim_cur: 0, rlim_max: 0 };
                libc::setrlimit(libc::RLIMIT_CORE, &core);
                libc::signal(libc::SIGXFSZ, libc::SIG_IGN);
                let fsz = libc::rlimit { rlim_cur: 1 << 30, rlim_max: 1 << 30 };
                libc::setrlimit(libc::RLIMIT_FSIZE, &fsz);
            }
            let code = match std::fs::OpenOptions::new().create(true).append(true).open(&outp) {
                Ok(file) => {
                    let mut em = Emitter { file };
                    match vcore::catch(|| f(&mut em)) {
                        Ok(()) => 0,
                        Err(p) => {
                            let _ = std::fs::write(scratch.join("child_harness_panic.txt"), p);
                            4
                        }
                    }
                }
                Err(_) => 3,
            };
            unsafe {
                super::disarm_watchdog();
                libc::_exit(code)
            };
        }
        let mut status: libc::c_int = 0;
        let mut ru: libc::rusage = unsafe { std::mem::zeroed() };
        loop {
            let r = unsafe { libc::wait4(pid, &mut status, 0, &mut ru) };
            if r == pid {
                break;
            }
            if r < 0 && std::io::Error::last_os_error().raw_os_error() != Some(libc::EINTR) {
                vcore::machinery("wait4 failed");
            }
        }
        let max_rss_kb = ru.ru_maxrss as u64;
        let mut outs = Vec::new();
        let b = std::fs::read(&outp).unwrap_or_default();
        for line in b.split(|c| *c == b'\n') {
            if line.is_empty() {
                continue;
            }
            match serde_json::from_slice::<(usize, Out)>(line) {
                Ok(x) => outs.push(x),
                Err(_) => break, // torn last line of a dead child
            }
        }
        if libc::WIFEXITED(status) && libc::WEXITSTATUS(status) == 0 {
            (outs, None)
        } else if libc::WIFEXITED(status) && (libc::WEXITSTATUS(status) == 3 || libc::WEXITSTATUS(status) == 4) {
            let p = std::fs::read_to_string(scratch.join("child_harness_panic.txt")).unwrap_or_default();
            panic!("harness failure inside child (outside any oracle): {p}");
        } else if libc::WIFSIGNALED(status) {
            let sig = libc::WTERMSIG(status);
            // A computation that never terminates trips either the CPU-time watchdog (SIGPROF) or, when it
            // accumulates results, the address-space limit (allocation failure -> abort) — whichever comes
            // first on the machine at hand.  Both are reported as one class so that the verdict does not
            // depend on machine speed: an abort counts as runaway only if the child's peak RSS exceeded
            // 256 MiB (inputs are < 1 MiB; a single oversized allocation request leaves RSS small).
            let how = if sig == libc::SIGPROF || (sig == libc::SIGABRT && max_rss_kb >= 256 * 1024) {
                "hang-runaway-cpu-or-memory".to_string()
            } else if sig == libc::SIGALRM {
                "hang-wall-signal14".to_string()
            } else {
                format!("signal{sig}")
            };
            (outs, Some(Died { how, block: shared.get_block(), at: shared.get(), sub: shared.get_sub() }))
        } else {
            (outs, Some(Died { how: format!("exit{}", libc::WEXITSTATUS(status)), block: shared.get_block(), at: shared.get(), sub: shared.get_sub() }))
        }
    }
}
use iso::{Out, Shared, Viol};

// ======================================================================
// per-call recorder (lives in the child)
// ======================================================================
pub struct Rec<'a> {
    out: &'a mut Out,
    dec: &'a str,
    kind: &'a str,
    case: &'a dyn Fn() -> Value,
    seen: &'a mut BTreeSet<(&'static str, u8)>,
    pub scratch: &'a Path,
    shared: &'a Shared,
}

/// message class of a panic string "msg @ file:line" → (file, class)
fn panic_site(p: &str) -> (String, String) {
    let (msg, loc) = match p.rfind(" @ ") {
        Some(i) => (&p[..i], &p[i + 3..]),
        None => (p, ""),
    };
    let file = loc.rsplit_once(':').map(|x| x.0).unwrap_or(loc);
    let file = file.strip_prefix("/repo/").unwrap_or(file);
    let file = if file.starts_with("/rustc/") || file.contains("/library/") {
        format!("std:{}", file.rsplit('/').next().unwrap_or(""))
    } else {
        file.to_string()
    };
    let m = msg;
    let class = if m.contains("out of range for slice") || m.contains("range end index") || m.contains("range start index") {
        "slice-range".to_string()
    } else if m.contains("slice index starts at") {
        "slice-order".to_string()
    } else if m.contains("index out of bounds") {
        "index-oob".to_string()
    } else if m.contains("attempt to add with overflow") {
        "add-overflow".to_string()
    } else if m.contains("attempt to subtract with overflow") {
        "sub-overflow".to_string()
    } else if m.contains("attempt to multiply with overflow") {
        "mul-overflow".to_string()
    } else if m.contains("attempt to shift") {
        "shift-overflow".to_string()
    } else if m.contains("attempt to negate") {
        "neg-overflow".to_string()
    } else if m.contains("capacity overflow") {
        "capacity-overflow".to_string()
    } else if m.contains("Option::unwrap()") {
        "unwrap-none".to_string()
    } else if m.contains("Result::unwrap()") {
        "unwrap-err".to_string()
    } else if m.contains("source slice length") || m.contains("copy_from_slice") {
        "copy-len-mismatch".to_string()
    } else if m.contains("byte index") && m.contains("char boundary") {
        "str-char-boundary".to_string()
    } else if m.contains("divide by zero") || m.contains("remainder with a divisor of zero") {
        "div-zero".to_string()
    } else {
        let first = m.split(|c| c == ':' || c == '\n').next().unwrap_or("");
        let mut s: String = first.chars().filter(|c| !c.is_ascii_digit()).map(|c| if c == '/' || c == ' ' || c == '*' { '_' } else { c }).collect();
        s.truncate(40);
        format!("msg:{s}")
    };
    (file, class)
}

impl<'a> Rec<'a> {
    fn note(&mut self, sub: &'static str, cls: u8) {
        if !self.seen.contains(&(sub, cls)) {
            self.seen.insert((sub, cls));
        }
    }
    fn on_panic(&mut self, sub: &'static str, p: String) {
        self.out.panics += 1;
        self.note(sub, 2);
        let (file, class) = panic_site(&p);
        let sig = format!("C23/{}.{}/{}/panic@{}:{}", self.dec, sub, self.kind, file, class);
        match self.out.viols.get_mut(&sig) {
            Some(v) => v.count += 1,
            None => {
                self.out.viols.insert(sig, Viol { count: 1, oracle: "no-panic".into(), case: (self.case)(), observed: format!("{}.{} panicked: {}", self.dec, sub, p) });
            }
        }
    }
    /// fallible call
    #[inline]
    pub fn call<T, E>(&mut self, sub: &'static str, f: impl FnOnce() -> Result<T, E>) -> Option<T> {
        self.shared.set_sub(sub);
        match vcore::catch(f) {
            Ok(Ok(v)) => {
                self.out.ok += 1;
                self.note(sub, 0);
                Some(v)
            }
            Ok(Err(_)) => {
                self.out.err += 1;
                self.note(sub, 1);
                None
            }
            Err(p) => {
                self.on_panic(sub, p);
                None
            }
        }
    }
    /// infallible call (returns a plain value)
    #[inline]
    pub fn inf<T>(&mut self, sub: &'static str, f: impl FnOnce() -> T) -> Option<T> {
        self.shared.set_sub(sub);
        match vcore::catch(f) {
            Ok(v) => {
                self.out.ok += 1;
                self.note(sub, 0);
                Some(std::hint::black_box(v))
            }
            Err(p) => {
                self.on_panic(sub, p);
                None
            }
        }
    }
    pub fn count(&mut self, name: &str, n: u64) {
        *self.out.counters.entry(name.to_string()).or_insert(0) += n;
    }
}

// ======================================================================
// blocks
// ======================================================================
pub struct Env {
    pub shared: std::rc::Rc<Shared>,
    pub small: GuardBuf,
    pub page: GuardBuf,
    pub scratch: PathBuf,
    pub buf: Vec<u8>,
}
impl Env {
    fn new(scratch: &Path, shared: std::rc::Rc<Shared>) -> Env {
        Env { shared, small: GuardBuf::new(1 << 17), page: GuardBuf::new(PAGE), scratch: scratch.to_path_buf(), buf: Vec::with_capacity(1 << 17) }
    }
}

pub struct BlockInfo {
    pub key: String,
    pub dec: String,
    pub kind: String,
    pub n: u64,
    pub hang_s: u32,
    /// re-arm the watchdog alarm every this many cases (1 for cases that do file I/O)
    pub alarm_every: u64,
    /// tier the block was built for (offset lists differ between tiers)
    pub tier: &'static str,
}
pub trait Block {
    fn info(&self) -> &BlockInfo;
    fn describe(&self, i: u64) -> Value;
    /// run case `i`; returns false if the case is void (identity / duplicate) and was not executed
    fn run(&self, i: u64, env: &mut Env, rec_out: &mut Out, seen: &mut BTreeSet<(&'static str, u8)>) -> bool;
}

#[derive(Clone, Copy)]
struct Sel {
    m: u64,
    r: u64,
    s: u64,
    base: u64,
}
impl Sel {
    fn mine(&self, i: u64) -> bool {
        (self.base.wrapping_add(i).wrapping_add(self.s)) % self.m == self.r
    }
    fn json(&self) -> Value {
        json!({"m": self.m, "r": self.r, "s": self.s.to_string(), "base": self.base})
    }
    fn from_json(v: &Value) -> Sel {
        Sel { m: v["m"].as_u64().unwrap_or(1).max(1), r: v["r"].as_u64().unwrap_or(0), s: v["s"].as_str().and_then(|s| s.parse().ok()).unwrap_or(0), base: v["base"].as_u64().unwrap_or(0) }
    }
}

enum Mode<'a> {
    All { sel: Sel, skip: &'a [u64] },
    Only(u64),
    Prefix { sel: Sel, upto: u64, skip: &'a [u64] },
}

/// Watchdog: `cpu_s` seconds of CPU time (user+sys, ITIMER_PROF → SIGPROF) — immune to
/// the process being descheduled on a loaded machine — plus a wall-clock backstop
/// (SIGALRM) for hangs that do not burn CPU (deadlock, sleep).
const WALL_BACKSTOP_MULT: u32 = 30;
fn arm_watchdog(cpu_s: u32) {
    unsafe {
        let it = libc::itimerval { it_interval: libc::timeval { tv_sec: 0, tv_usec: 0 }, it_value: libc::timeval { tv_sec: cpu_s as libc::time_t, tv_usec: 0 } };
        libc::setitimer(libc::ITIMER_PROF, &it, std::ptr::null_mut());
        libc::alarm(cpu_s * WALL_BACKSTOP_MULT);
    }
}
fn disarm_watchdog() {
    arm_watchdog(0);
}

fn child_run_block(b: &dyn Block, mode: &Mode, from: u64, env: &mut Env, shared: &Shared, out: &mut Out, hang_mult: u32, deadline: Option<std::time::Instant>, mut emit: Option<&mut dyn FnMut(&Out)>) {
    let info = b.info();
    let mut seen: BTreeSet<(&'static str, u8)> = BTreeSet::new();
    let limit = info.hang_s * hang_mult;
    let chunk: u64 = if info.alarm_every == 1 { 256 } else { 8192 };
    let k = std::cell::Cell::new(0u64);
    let run_one = |i: u64, env: &mut Env, out: &mut Out, seen: &mut BTreeSet<(&'static str, u8)>| {
        shared.set(i);
        if k.get() % info.alarm_every == 0 {
            arm_watchdog(limit);
        }
        k.set(k.get() + 1);
        out.cases += 1;
        if b.run(i, env, out, seen) {
            out.nontrivial += 1;
        }
    };
    let flush_seen = |seen: &mut BTreeSet<(&'static str, u8)>, out: &mut Out| {
        for (sub, cls) in seen.iter() {
            out.outcomes.insert(format!("{}.{}:{}", info.dec, sub, ["ok", "err", "panic"][*cls as usize]));
        }
        seen.clear();
    };
    match mode {
        Mode::Only(i) => run_one(*i, env, out, &mut seen),
        Mode::All { sel, skip } | Mode::Prefix { sel, skip, .. } => {
            let upto = if let Mode::Prefix { upto, .. } = mode { (*upto + 1).min(info.n) } else { info.n };
            let mut i = from;
            while i < upto && !sel.mine(i) {
                i += 1;
            }
            while i < upto {
                if !skip.contains(&i) {
                    run_one(i, env, out, &mut seen);
                    if let Some(d) = deadline {
                        if k.get() % 64 == 0 && std::time::Instant::now() >= d {
                            out.capped = Some(format!("deadline inside block {} at case {}", info.key, i));
                            break;
                        }
                    }
                    if k.get() % chunk == 0 {
                        if let Some(e) = emit.as_mut() {
                            disarm_watchdog();
                            flush_seen(&mut seen, out);
                            out.next = i + sel.m;
                            e(out);
                            *out = Out::default();
                        }
                    }
                }
                i += sel.m;
            }
        }
    }
    disarm_watchdog();
    flush_seen(&mut seen, out);
    out.next = info.n;
}

fn merge_out(rep: &mut Reporter, info: &BlockInfo, o: &Out) {
    rep.bulk(o.cases, o.nontrivial);
    let d = info.dec.split('.').next().unwrap_or(&info.dec).to_string();
    let top = if info.key.starts_with("B/") { info.dec.clone() } else { d };
    rep.count(&format!("{top}.cases"), o.cases);
    rep.count(&format!("{top}.calls_ok"), o.ok);
    rep.count(&format!("{top}.calls_err"), o.err);
    rep.count(&format!("{top}.calls_panic"), o.panics);
    for (k, v) in &o.counters {
        rep.count(k, *v);
    }
    for x in &o.outcomes {
        rep.outcome(x);
    }
    for n in &o.notes {
        rep.note(n);
    }
    for (sig, v) in &o.viols {
        rep.violation("C23", &v.oracle, sig, || v.case.clone(), "call returns Ok or Err", &v.observed);
        rep.count("violating_calls", v.count);
    }
    if let Some(c) = &o.capped {
        rep.capped(c);
    }
}

fn death_case(b: &dyn Block, i: u64, mode: &str, sel: Option<Sel>, skip: &[u64]) -> Value {
    let mut c = b.describe(i);
    c["mode"] = json!(mode);
    if let Some(s) = sel {
        c["sel"] = s.json();
        c["skip"] = json!(skip);
    }
    c
}

/// Run one case alone in a fresh child.  A timeout counts only if a second fresh
/// run of the same case times out as well (a real hang is deterministic; a
/// stall of an overloaded machine is not).
fn run_single(b: &dyn Block, bi: usize, i: u64, ctx: &Ctx, shared: &Shared, env: &mut Env) -> (Vec<(usize, Out)>, Option<iso::Died>) {
    let mut attempt = |env: &mut Env| {
        iso::run_child(&ctx.scratch, shared, |em| {
            shared.set_block(bi as u64);
            let mut out = Out::default();
            child_run_block(b, &Mode::Only(i), 0, env, shared, &mut out, HANG_CONFIRM_MULT, None, None);
            em.emit(bi, &out);
        })
    };
    let (outs, died) = attempt(env);
    match &died {
        Some(d) if d.how.starts_with("hang") => {
            let (outs2, died2) = attempt(env);
            match &died2 {
                Some(d2) if d2.how.starts_with("hang") => (outs2, died2),
                Some(_) => (outs2, died2),
                None => (outs2, None),
            }
        }
        _ => (outs, died),
    }
}

/// Run blocks `from..` in one forked child; on a death attribute the case,
/// confirm it alone in a fresh child (once per block and signature), skip it
/// and resume the block after its last completed chunk.
fn run_group(blocks: &[Box<dyn Block>], sels: &[Sel], from: usize, mut skips: BTreeMap<usize, Vec<u64>>, ctx: &Ctx, rep: &mut Reporter, shared: &Shared, env: &mut Env) {
    let max_deaths = ctx.tier.pick(2usize, 24usize);
    let mut start = from;
    let mut start_case = 0u64;
    let mut confirmed: BTreeSet<(usize, String)> = BTreeSet::new();
    while start < blocks.len() {
        rep.begin_case(&json!({"mode": "group", "tier": ctx.tier.name(), "block": blocks[start].info().key, "from": start, "skips": skips.iter().map(|(k, v)| (k.to_string(), v.clone())).collect::<BTreeMap<_, _>>(),
                               "sel": sels[start].json()}).to_string());
        let dl = ctx.deadline;
        let (outs, died) = iso::run_child(&ctx.scratch, shared, |em| {
            for bi in start..blocks.len() {
                let b = blocks[bi].as_ref();
                if b.info().n == 0 {
                    continue;
                }
                shared.set(u64::MAX);
                shared.set_block(bi as u64);
                let mut out = Out::default();
                if std::time::Instant::now() >= dl {
                    out.capped = Some(format!("deadline before block {}", b.info().key));
                    em.emit(bi, &out);
                    break;
                }
                let empty = Vec::new();
                let skip = skips.get(&bi).unwrap_or(&empty);
                let t0 = std::time::Instant::now();
                let first = if bi == start { start_case } else { 0 };
                {
                    let mut e = |o: &Out| em.emit(bi, o);
                    child_run_block(b, &Mode::All { sel: sels[bi], skip }, first, env, shared, &mut out, 1, Some(dl), Some(&mut e));
                }
                let top = b.info().dec.split('.').next().unwrap_or("").to_string();
                *out.counters.entry(format!("{top}.child_wall_ms")).or_insert(0) += t0.elapsed().as_millis() as u64;
                let stop = out.capped.is_some();
                em.emit(bi, &out);
                if stop {
                    break;
                }
            }
        });
        let mut capped = false;
        let mut resume: BTreeMap<usize, u64> = BTreeMap::new();
        for (bi, o) in &outs {
            merge_out(rep, blocks[*bi].info(), o);
            capped |= o.capped.is_some();
            let e = resume.entry(*bi).or_insert(0);
            *e = (*e).max(o.next);
        }
        let Some(d) = died else { break };
        if capped {
            break;
        }
        if d.block == u64::MAX || d.at == u64::MAX {
            vcore::machinery(&format!("child died ({}) outside any case (block {:?})", d.how, d.block));
        }
        let bi = d.block as usize;
        let b = blocks[bi].as_ref();
        let info = b.info();
        rep.count("child_deaths", 1);
        let skip_now = skips.get(&bi).cloned().unwrap_or_default();
        let ckey = (bi, format!("{}|{}", d.sub, d.how));
        if confirmed.contains(&ckey) && !d.how.starts_with("hang") {
            // same sub-decoder and signal as an already confirmed death of this block: record without a second confirmation run
            let sig = format!("C23/{}.{}/{}/{}", info.dec, d.sub, info.kind, d.how);
            rep.violation("C23", "no-crash", &sig, || death_case(b, d.at, "single", None, &[]), "call returns Ok or Err", &format!("child process died: {}", d.how));
        } else {
            let (single_outs, single) = run_single(b, bi, d.at, ctx, shared, env);
            match single {
                Some(d2) => {
                    let sig = format!("C23/{}.{}/{}/{}", info.dec, d2.sub, info.kind, d2.how);
                    rep.violation("C23", "no-crash", &sig, || death_case(b, d.at, "single", None, &[]), "call returns Ok or Err", &format!("child process died: {} (in block run: {})", d2.how, d.how));
                    confirmed.insert((bi, format!("{}|{}", d2.sub, d2.how)));
                }
                None if d.how.starts_with("hang") => {
                    // the case completes when run alone with a 3x limit: machine load, not a hang
                    for (_, o) in &single_outs {
                        merge_out(rep, info, o);
                    }
                    rep.count("timeouts_not_confirmed_alone", 1);
                    rep.note("a watchdog timeout inside a block was not confirmed when the case ran alone (completed): counted in timeouts_not_confirmed_alone, not a violation");
                }
                None => {
                    let sig = format!("C23/{}.{}/{}/{}-in-sequence", info.dec, d.sub, info.kind, d.how);
                    rep.violation("C23", "no-crash", &sig, || death_case(b, d.at, "prefix", Some(sels[bi]), &skip_now), "call returns Ok or Err", &format!("child process died: {} (only after the preceding cases of the block)", d.how));
                }
            }
        }
        let e = skips.entry(bi).or_default();
        e.push(d.at);
        let real_deaths = e.len();
        start_case = resume.get(&bi).copied().unwrap_or(if bi == start { start_case } else { 0 });
        if real_deaths >= max_deaths {
            // divergence: this block keeps killing the process; cut the rest of it for this worker
            let remaining = (info.n.saturating_sub(d.at)) / sels[bi].m.max(1);
            rep.pruned(remaining);
            rep.count("blocks_cut_after_repeated_deaths", 1);
            rep.note(&format!("a block is cut (rest pruned) for a worker after {max_deaths} deadly cases in it; see counter blocks_cut_after_repeated_deaths"));
            start = bi + 1;
            start_case = 0;
        } else {
            start = bi;
        }
    }
}

// ======================================================================
// mutations
// ======================================================================
#[derive(Clone, Copy, PartialEq, Debug)]
enum Kind {
    Identity,
    Subst,
    Trunc,
    Insert,
    Delete,
    InsShift,
    DelShift,
    ZeroTail,
    /// WAL only: substitute one byte of a frame header field and recompute the frame checksum
    WalFixSum,
}
impl Kind {
    fn name(self) -> &'static str {
        match self {
            Kind::Identity => "identity",
            Kind::Subst => "subst",
            Kind::Trunc => "trunc",
            Kind::Insert => "insert",
            Kind::Delete => "delete",
            Kind::InsShift => "insert-shift",
            Kind::DelShift => "delete-shift",
            Kind::ZeroTail => "zero-tail",
            Kind::WalFixSum => "hdr-subst-fixsum",
        }
    }
}

fn subst_values(len: usize) -> usize {
    if len <= ALL_VALUES_MAX_LEN {
        256
    } else {
        8
    }
}
fn subst_value(seed: &[u8], off: usize, j: usize) -> Option<u8> {
    let b = seed[off];
    if seed.len() <= ALL_VALUES_MAX_LEN {
        let v = j as u8;
        return if v == b { None } else { Some(v) };
    }
    let list = [0x00, 0x01, 0x7F, 0x80, 0xFE, 0xFF, b ^ 1, b ^ 0x80];
    let v = list[j];
    if v == b || list[..j].contains(&v) {
        None
    } else {
        Some(v)
    }
}

/// number of cases of (seed, kind) given the offset list
fn kind_count(seed: &[u8], kind: Kind, offs: &[u32]) -> u64 {
    match kind {
        Kind::Identity => 1,
        Kind::Subst => offs.len() as u64 * subst_values(seed.len()) as u64,
        Kind::Trunc | Kind::Delete | Kind::DelShift | Kind::ZeroTail => offs.len() as u64,
        Kind::Insert | Kind::InsShift => (offs.len() as u64 + 1) * 6,
        Kind::WalFixSum => (seed.len() / WAL_FRAME) as u64 * 24 * 8,
    }
}
const WAL_FRAME: usize = 32 + PAGE;

/// Build mutated bytes into `buf`; None = void case (identity or duplicate).
fn mutate(seed: &[u8], kind: Kind, i: u64, offs: &[u32], buf: &mut Vec<u8>) -> Option<Value> {
    buf.clear();
    match kind {
        Kind::Identity => {
            buf.extend_from_slice(seed);
            Some(json!({}))
        }
        Kind::Subst => {
            let nv = subst_values(seed.len()) as u64;
            let off = offs[(i / nv) as usize] as usize;
            let v = subst_value(seed, off, (i % nv) as usize)?;
            buf.extend_from_slice(seed);
            buf[off] = v;
            Some(json!({"off": off, "val": v}))
        }
        Kind::Trunc => {
            let l = offs[i as usize] as usize;
            buf.extend_from_slice(&seed[..l]);
            Some(json!({"len": l}))
        }
        Kind::Delete => {
            let off = offs[i as usize] as usize;
            buf.extend_from_slice(&seed[..off]);
            buf.extend_from_slice(&seed[off + 1..]);
            Some(json!({"off": off}))
        }
        Kind::DelShift => {
            let off = offs[i as usize] as usize;
            buf.extend_from_slice(&seed[..off]);
            buf.extend_from_slice(&seed[off + 1..]);
            buf.push(0);
            Some(json!({"off": off}))
        }
        Kind::ZeroTail => {
            let off = offs[i as usize] as usize;
            if seed[off..].iter().all(|b| *b == 0) {
                return None;
            }
            buf.extend_from_slice(&seed[..off]);
            buf.resize(seed.len(), 0);
            Some(json!({"off": off}))
        }
        Kind::WalFixSum => {
            let frame = (i / (24 * 8)) as usize;
            let off = ((i / 8) % 24) as usize;
            let b = seed[frame * WAL_FRAME + off];
            let list = [0x00, 0x01, 0x7F, 0x80, 0xFE, 0xFF, b ^ 1, b ^ 0x80];
            let j = (i % 8) as usize;
            let v = list[j];
            if v == b || list[..j].contains(&v) {
                return None;
            }
            buf.extend_from_slice(seed);
            let base = frame * WAL_FRAME;
            buf[base + off] = v;
            let sum = dec3::crc64_ecma(&[&buf[base..base + 24], &buf[base + 32..base + WAL_FRAME]]);
            buf[base + 24..base + 32].copy_from_slice(&sum.to_le_bytes());
            Some(json!({"frame": frame, "off": off, "val": v, "checksum_recomputed": true}))
        }
        Kind::Insert | Kind::InsShift => {
            let k = (i / 6) as usize;
            let off = if k < offs.len() { offs[k] as usize } else { seed.len() };
            let v = SMALL6[(i % 6) as usize];
            buf.extend_from_slice(&seed[..off]);
            buf.push(v);
            buf.extend_from_slice(&seed[off..]);
            if kind == Kind::InsShift {
                buf.truncate(seed.len());
                if buf[..] == seed[..] {
                    return None;
                }
            }
            Some(json!({"off": off, "val": v}))
        }
    }
}

// ======================================================================
// PART A: decoders
// ======================================================================
pub enum Aux {
    None,
    Schema { schema: turdb::records::Schema, opt_only: bool },
    Fields(usize),
    Probes(Vec<Vec<u8>>),
    Elem(turdb::records::DataType),
    Wal { file_id: u64, page_no: u32 },
}
pub struct Seed {
    pub name: String,
    pub bytes: Vec<u8>,
    pub aux: Aux,
    /// structural regions enumerated densely even in the quick tier (large seeds)
    pub dense: Vec<std::ops::Range<usize>>,
    /// left to the thorough tier (expensive file-based decoders)
    pub thorough_only: bool,
}
impl Seed {
    fn new(name: &str, bytes: Vec<u8>) -> Seed {
        Seed { name: name.to_string(), bytes, aux: Aux::None, dense: vec![], thorough_only: false }
    }
    fn aux(mut self, a: Aux) -> Seed {
        self.aux = a;
        self
    }
    fn thorough_only(mut self, t: bool) -> Seed {
        self.thorough_only = t;
        self
    }
    fn dense(mut self, d: Vec<std::ops::Range<usize>>) -> Seed {
        self.dense = d;
        self
    }
}
pub struct Decoder {
    /// cases do file I/O (watchdog re-armed per case)
    pub io: bool,
    pub name: &'static str,
    /// fixed-size page input (placed exactly filling the guarded area)
    pub page: bool,
    /// Short/Repeat byte-string families make sense
    pub strings: bool,
    pub seeds: Vec<Seed>,
    pub f: fn(&Seed, &[u8], &mut Rec),
}

fn offsets_for(seed: &Seed, quick: bool, stride_quick: usize, io: bool) -> Vec<u32> {
    let n = seed.bytes.len();
    // thorough: every offset, except the checksummed page payload of WAL segments (every 16th byte)
    let thorough_sparse = !quick && io && n > 2048;
    if (!quick && !thorough_sparse) || n <= if io { ALL_VALUES_MAX_LEN } else { 1024 } {
        return (0..n as u32).collect();
    }
    let stride_quick = if thorough_sparse { 16 } else { stride_quick };
    let mut keep = vec![false; n];
    for r in &seed.dense {
        for i in r.start.min(n)..r.end.min(n) {
            keep[i] = true;
        }
    }
    let mut i = 0;
    while i < n {
        keep[i] = true;
        i += stride_quick;
    }
    keep[n - 1] = true;
    (0..n as u32).filter(|i| keep[*i as usize]).collect()
}

struct ABlock {
    info: BlockInfo,
    dec: std::rc::Rc<Decoder>,
    seed: usize,
    kind: Kind,
    offs: Vec<u32>,
    /// the insertion at the end of the seed belongs to another block of the same seed and kind
    no_tail_insert: bool,
}
impl ABlock {
    fn exec(&self, bytes: &[u8], env_small: &mut GuardBuf, env_page: &mut GuardBuf, scratch: &Path, shared: &Shared, out: &mut Out, seen: &mut BTreeSet<(&'static str, u8)>, case: &dyn Fn() -> Value) {
        let seed = &self.dec.seeds[self.seed];
        let placed: &[u8] = if self.dec.page && bytes.len() <= PAGE { env_page.place(bytes) } else { env_small.place(bytes) };
        let mut rec = Rec { out, dec: self.dec.name, kind: &self.info.kind, case, seen, scratch, shared };
        (self.dec.f)(seed, placed, &mut rec);
    }
}
fn hex_clip(b: &[u8]) -> Value {
    if b.len() <= 256 {
        json!(vcore::util::hex(b))
    } else {
        json!(format!("{}…({} bytes)", vcore::util::hex(&b[..64]), b.len()))
    }
}
impl Block for ABlock {
    fn info(&self) -> &BlockInfo {
        &self.info
    }
    fn describe(&self, i: u64) -> Value {
        let seed = &self.dec.seeds[self.seed];
        let mut buf = Vec::new();
        let m = mutate(&seed.bytes, self.kind, i, &self.offs, &mut buf);
        json!({"part": "A", "tier": self.info.tier, "block": self.info.key, "i": i, "decoder": self.dec.name, "seed": seed.name, "kind": self.info.kind,
               "mutation": m, "seed_len": seed.bytes.len(), "input_hex": hex_clip(&buf)})
    }
    fn run(&self, i: u64, env: &mut Env, out: &mut Out, seen: &mut BTreeSet<(&'static str, u8)>) -> bool {
        let seed = &self.dec.seeds[self.seed];
        let mut buf = std::mem::take(&mut env.buf);
        let tail_dup = self.no_tail_insert && matches!(self.kind, Kind::Insert | Kind::InsShift) && (i / 6) as usize >= self.offs.len();
        let ok = !tail_dup && mutate(&seed.bytes, self.kind, i, &self.offs, &mut buf).is_some();
        if ok {
            let Env { small, page, scratch, shared, .. } = env;
            self.exec(&buf, small, page, scratch, shared, out, seen, &|| self.describe(i));
        }
        env.buf = buf;
        ok && self.kind != Kind::Identity
    }
}

/// byte-string families independent of a seed: all strings of length <= 2 over
/// all 256 values, length 3 over a 16-value alphabet; constant / periodic
/// strings of lengths 64, 1024, 16384.
struct SBlock {
    info: BlockInfo,
    dec: std::rc::Rc<Decoder>,
    repeat: bool,
    pats: Vec<Vec<u8>>,
}
const ALPHA16: [u8; 16] = [0x00, 0x01, 0x02, 0x03, 0x04, 0x05, 0x08, 0x10, 0x14, 0x20, 0x55, 0x60, 0x7F, 0x80, 0xFE, 0xFF];
const SHORT_N: u64 = 1 + 256 + 65536 + 4096;
const REP_LENS: [usize; 3] = [64, 1024, 16384];
fn repeat_patterns() -> Vec<Vec<u8>> {
    let mut v: Vec<Vec<u8>> = (0..=255u8).map(|b| vec![b]).collect();
    for p in [&[0x62u8, 0x00][..], &[0x62, 0x0C], &[0x65, 0, 0, 0, 0], &[0x64, 0, 0, 0, 0], &[0x60, 0x16], &[0x61, 0x60], &[0x55, 0x55], &[0x56, 0x61, 0x00, 0x00], &[0x56, 0x00, 0x00, 0x55], &[0x00, 0xFF], &[0xFF, 0x00], &[0x01, 0x00, 0x00, 0x10], &[0x02, 0x00, 0x00, 0x00]] {
        v.push(p.to_vec());
    }
    v
}
impl SBlock {
    fn bytes(&self, i: u64, buf: &mut Vec<u8>) {
        buf.clear();
        if self.repeat {
            let p = &self.pats[(i / REP_LENS.len() as u64) as usize];
            let l = REP_LENS[(i % REP_LENS.len() as u64) as usize];
            while buf.len() < l {
                buf.extend_from_slice(p);
            }
            buf.truncate(l);
        } else if i == 0 {
        } else if i < 257 {
            buf.push((i - 1) as u8);
        } else if i < 257 + 65536 {
            let x = i - 257;
            buf.push((x >> 8) as u8);
            buf.push(x as u8);
        } else {
            let x = (i - 257 - 65536) as usize;
            buf.push(ALPHA16[x >> 8]);
            buf.push(ALPHA16[(x >> 4) & 15]);
            buf.push(ALPHA16[x & 15]);
        }
    }
}
impl Block for SBlock {
    fn info(&self) -> &BlockInfo {
        &self.info
    }
    fn describe(&self, i: u64) -> Value {
        let mut buf = Vec::new();
        self.bytes(i, &mut buf);
        json!({"part": "A", "tier": self.info.tier, "block": self.info.key, "i": i, "decoder": self.dec.name, "kind": self.info.kind, "input_len": buf.len(), "input_hex": hex_clip(&buf)})
    }
    fn run(&self, i: u64, env: &mut Env, out: &mut Out, seen: &mut BTreeSet<(&'static str, u8)>) -> bool {
        let mut buf = std::mem::take(&mut env.buf);
        self.bytes(i, &mut buf);
        {
            let placed: &[u8] = env.small.place(&buf);
            let case = || self.describe(i);
            let mut rec = Rec { out, dec: self.dec.name, kind: &self.info.kind, case: &case, seen, scratch: &env.scratch, shared: &env.shared };
            (self.dec.f)(&self.dec.seeds[0], placed, &mut rec);
        }
        env.buf = buf;
        true
    }
}

mod dec {
    use super::*;
    use turdb::encoding::key::*;
    use turdb::encoding::varint::{decode_varint, encode_varint};

    fn d_varint(_s: &Seed, b: &[u8], r: &mut Rec) {
        r.call("decode_varint", || decode_varint(b));
    }
    fn varint() -> Decoder {
        let mut seeds = vec![];
        for v in [0u64, 240, 241, 2287, 2288, 67823, 67824, 0xFF_FFFF, 0x100_0000, 0xFFFF_FFFF, 0x1_0000_0000, u64::MAX] {
            let mut buf = [0u8; 9];
            let n = encode_varint(v, &mut buf);
            seeds.push(Seed::new(&format!("v{v}"), buf[..n].to_vec()));
        }
        Decoder { io: false, name: "varint", page: false, strings: true, seeds, f: d_varint }
    }

    fn d_key(_s: &Seed, b: &[u8], r: &mut Rec) {
        let mut pos = 0usize;
        let mut n = 0;
        while pos < b.len() && n < 64 {
            match r.call("decode_key", || decode_key(&b[pos..])) {
                Some((k, c)) if c > 0 && pos + c <= b.len() => {
                    std::hint::black_box(&k);
                    pos += c;
                    n += 1;
                }
                Some((_, c)) => {
                    if c == 0 || pos + c > b.len() {
                        r.count("key.consumed_out_of_range", 1);
                    }
                    break;
                }
                None => break,
            }
        }
        if b.is_empty() {
            r.call("decode_key", || decode_key(b));
        }
    }
    fn key() -> Decoder {
        let mut seeds = vec![];
        let mut add = |name: &str, f: &dyn Fn(&mut Vec<u8>)| {
            let mut v = Vec::new();
            f(&mut v);
            seeds.push(Seed::new(name, v));
        };
        add("null", &|b| encode_null(b));
        add("bool", &|b| encode_bool(true, b));
        add("int-pos", &|b| encode_int(1234567, b));
        add("int-neg", &|b| encode_int(-42, b));
        add("int-zero", &|b| encode_int(0, b));
        add("float-pos", &|b| encode_float(1.5, b));
        add("float-neg", &|b| encode_float(-2.25, b));
        add("float-nan", &|b| encode_float(f64::NAN, b));
        add("text", &|b| encode_text("he\u{0}llo\u{ff}é", b));
        add("blob", &|b| encode_blob(&[0, 1, 0xFF, 0xFE, 0, 0xFF], b));
        add("date", &|b| encode_date(19000, b));
        add("time", &|b| encode_time(123456789, b));
        add("timestamp", &|b| encode_timestamp(-5, b));
        add("timestamptz", &|b| encode_timestamptz(1_700_000_000_000_000, -300, b));
        add("interval", &|b| encode_interval(14, -3, 5_000_000, b));
        add("uuid", &|b| encode_uuid(&[7u8; 16], b));
        add("inet4", &|b| encode_inet(false, &[10, 0, 0, 1], 24, b));
        add("inet6", &|b| encode_inet(true, &[0x20; 16], 64, b));
        add("macaddr", &|b| encode_macaddr(&[1, 2, 3, 4, 5, 6], b));
        add("array-int", &|b| encode_array(&[1i64, -2, 0], b, |e, b| encode_int(*e, b)));
        add("array-nested", &|b| encode_array(&[vec![1i64], vec![], vec![2, 3]], b, |e, b| encode_array(e, b, |x, b| encode_int(*x, b))));
        add("tuple", &|b| encode_tuple(&["a", "bc"], b, |e, b| encode_text(e, b)));
        add("range", &|b| encode_range(Some(&3i64), Some(&9i64), true, false, b, |e, b| encode_int(*e, b)));
        add("range-open", &|b| encode_range(None, Some(&9i64), false, true, b, |e: &i64, b| encode_int(*e, b)));
        add("enum", &|b| encode_enum(77, 3, b));
        add("composite", &|b| encode_composite(9, &[5i64, 6], b, |e, b| encode_int(*e, b)));
        add("domain", &|b| encode_domain(4, &"x", b, |e, b| encode_text(e, b)));
        add("vector", &|b| encode_vector(&[1.0, -2.0, 0.5], b));
        add("json", &|b| {
            let arr = [JsonValue::Number(1.5), JsonValue::Null, JsonValue::Bool(false)];
            let obj = [("k", JsonValue::Array(&arr)), ("s", JsonValue::String("v\u{0}")), ("t", JsonValue::Bool(true))];
            encode_json(&JsonValue::Object(&obj), b)
        });
        add("multi-column", &|b| {
            encode_int(5, b);
            encode_text("ab", b);
            encode_null(b);
            encode_float(2.0, b);
        });
        Decoder { io: false, name: "key", page: false, strings: true, seeds, f: d_key }
    }

    pub const DB_SEEDED: [&str; 12] = ["meta_header", "table_header", "index_header", "hnsw_header", "hnsw_node", "hnsw_page", "page", "leaf", "interior", "catalog", "catalog_file", "wal"];
    /// `want`: only this decoder is needed (replay / --opt dec=): skip building the seed databases when possible
    pub fn all(scratch: &Path, want: Option<&str>) -> Vec<Decoder> {
        let mut v = vec![varint(), key()];
        v.extend(super::dec2::all());
        if want.map(|w| DB_SEEDED.contains(&w)).unwrap_or(true) {
            v.extend(super::dec3::all(scratch));
        }
        v
    }
}

mod dec2 {
    use super::*;
    use turdb::records::jsonb::{JsonbBuilder, JsonbBuilderValue, JsonbValue, JsonbView};
    use turdb::records::{ArrayBuilder, ArrayView, ColumnDef, CompositeView, DataType, RecordBuilder, RecordView, Schema};
    use turdb::storage::toast::{is_toast_pointer, make_chunk_key, parse_chunk_key, ToastPointer};
    use turdb::OwnedValue;

    // ---------------- TOAST ----------------
    fn d_toast_ptr(_s: &Seed, b: &[u8], r: &mut Rec) {
        r.inf("is_toast_pointer", || is_toast_pointer(b));
        if let Some(p) = r.call("decode", || ToastPointer::decode(b)) {
            r.inf("row_id", || p.row_id());
            r.inf("column_index", || p.column_index());
            r.inf("encode", || p.encode());
        }
    }
    fn d_toast_key(_s: &Seed, b: &[u8], r: &mut Rec) {
        r.call("parse_chunk_key", || parse_chunk_key(b));
    }
    fn toast() -> Vec<Decoder> {
        let p = vec![
            Seed::new("small", ToastPointer::new(1, 0, 3000).encode().to_vec()),
            Seed::new("big", ToastPointer::new(0x0000_FFFF_FFFF_FFFF, 0xFFFF, u64::MAX).encode().to_vec()),
            Seed::new("mid", ToastPointer::new(123456, 7, 1_000_000).encode().to_vec()),
        ];
        let k = vec![
            Seed::new("k0", make_chunk_key(1, 0).to_vec()),
            Seed::new("k1", make_chunk_key(u64::MAX, u32::MAX).to_vec()),
            Seed::new("k2", make_chunk_key(0x0102030405060708, 258).to_vec()),
        ];
        vec![
            Decoder { io: false, name: "toast_pointer", page: false, strings: true, seeds: p, f: d_toast_ptr },
            Decoder { io: false, name: "toast_chunk_key", page: false, strings: true, seeds: k, f: d_toast_key },
        ]
    }

    // ---------------- JSONB ----------------
    fn walk_value(v: &JsonbValue, r: &mut Rec, budget: &mut u32, depth: u32) {
        if *budget == 0 || depth > 24 {
            return;
        }
        *budget -= 1;
        r.call("value.to_json_string", || v.to_json_string());
        match v {
            JsonbValue::Array(a) | JsonbValue::Object(a) => walk_view(a, r, budget, depth + 1),
            _ => {}
        }
    }
    pub fn walk_view(v: &JsonbView, r: &mut Rec, budget: &mut u32, depth: u32) {
        if *budget == 0 {
            return;
        }
        *budget -= 1;
        r.inf("root_type", || v.root_type());
        r.inf("entry_count", || v.entry_count());
        r.call("to_json_string", || v.to_json_string());
        if let Some(x) = r.call("as_value", || v.as_value()) {
            if depth == 0 && !matches!(x, JsonbValue::Array(_) | JsonbValue::Object(_)) {
                r.call("value.to_json_string", || x.to_json_string());
            }
        }
        for k in ["a", "k", "o", "zz", ""] {
            if let Some(Some(x)) = r.call("get", || v.get(k)) {
                walk_value(&x, r, budget, depth + 1);
            }
        }
        r.call("get_path", || v.get_path(&["o", "k"]));
        r.call("get_path", || v.get_path(&[]));
        if let Some(n) = r.call("array_len", || v.array_len()) {
            for i in 0..n.min(24) {
                if let Some(Some(x)) = r.call("array_get", || v.array_get(i)) {
                    walk_value(&x, r, budget, depth + 1);
                }
            }
            r.call("array_get", || v.array_get(n));
            if n > 0 {
                r.call("array_get", || v.array_get(n - 1));
            }
        }
        r.call("object_len", || v.object_len());
        if let Some(it) = r.call("iter_object", || v.iter_object()) {
            let mut it = it;
            for _ in 0..64 {
                match r.inf("iter_object.next", || it.next()) {
                    Some(Some(Ok((_, x)))) => walk_value(&x, r, budget, depth + 1),
                    Some(Some(Err(_))) | Some(None) | None => break,
                }
            }
        }
        if let Some(it) = r.call("iter_array", || v.iter_array()) {
            let mut it = it;
            for _ in 0..64 {
                match r.inf("iter_array.next", || it.next()) {
                    Some(Some(Ok(_))) => {}
                    _ => break,
                }
            }
        }
    }
    fn d_jsonb(_s: &Seed, b: &[u8], r: &mut Rec) {
        if let Some(v) = r.call("new", || JsonbView::new(b)) {
            let mut budget = 400u32;
            walk_view(&v, r, &mut budget, 0);
        }
    }
    fn jsonb_seeds() -> Vec<Seed> {
        let mut seeds = vec![];
        seeds.push(Seed::new("null", JsonbBuilder::new_null().build()));
        seeds.push(Seed::new("bool", JsonbBuilder::new_bool(true).build()));
        seeds.push(Seed::new("number", JsonbBuilder::new_number(-12.5).build()));
        seeds.push(Seed::new("string", JsonbBuilder::new_string("héllo").build()));
        seeds.push(Seed::new("empty-array", JsonbBuilder::new_array().build()));
        seeds.push(Seed::new("empty-object", JsonbBuilder::new_object().build()));
        let mut a = JsonbBuilder::new_array();
        a.push(1i64);
        a.push("s");
        a.push(true);
        a.push(JsonbBuilderValue::Null);
        seeds.push(Seed::new("array-mixed", a.build()));
        let mut o = JsonbBuilder::new_object();
        o.set("a", 1i64);
        o.set("k", "x");
        o.set("zz", false);
        seeds.push(Seed::new("object-flat", o.build()));
        let mut o = JsonbBuilder::new_object();
        o.set("o", JsonbBuilderValue::Object(vec![("k".to_string(), JsonbBuilderValue::Array(vec![JsonbBuilderValue::Number(1.0), JsonbBuilderValue::Number(2.5)]))]));
        o.set("a", JsonbBuilderValue::Null);
        seeds.push(Seed::new("object-nested", o.build()));
        let mut a = JsonbBuilder::new_array();
        a.push(JsonbBuilderValue::Array(vec![JsonbBuilderValue::String("q".into())]));
        a.push(JsonbBuilderValue::Array(vec![]));
        a.push(JsonbBuilderValue::Object(vec![("a".to_string(), JsonbBuilderValue::Bool(true))]));
        seeds.push(Seed::new("array-nested", a.build()));
        seeds
    }

    // ---------------- arrays ----------------
    pub fn walk_array(v: &ArrayView, et: Option<DataType>, r: &mut Rec) {
        let t = r.inf("elem_type", || v.elem_type());
        r.inf("ndims", || v.ndims());
        r.inf("is_empty", || v.is_empty());
        let Some(n) = r.inf("len", || v.len()) else { return };
        let et = et.or(t).unwrap_or(DataType::Int4);
        let mut idx: Vec<usize> = (0..n.min(12)).collect();
        if n > 12 {
            idx.push(n - 1);
        }
        idx.push(n);
        for i in idx {
            r.inf("is_null", || v.is_null(i));
            match et {
                DataType::Int2 => drop(r.call("get_int2", || v.get_int2(i))),
                DataType::Int4 => drop(r.call("get_int4", || v.get_int4(i))),
                DataType::Int8 => drop(r.call("get_int8", || v.get_int8(i))),
                DataType::Float4 => drop(r.call("get_float4", || v.get_float4(i))),
                DataType::Float8 => drop(r.call("get_float8", || v.get_float8(i))),
                DataType::Bool => drop(r.call("get_bool", || v.get_bool(i))),
                DataType::Text => drop(r.call("get_text", || v.get_text(i))),
                _ => drop(r.call("get_blob", || v.get_blob(i))),
            }
        }
    }
    fn d_array(s: &Seed, b: &[u8], r: &mut Rec) {
        let et = if let Aux::Elem(t) = &s.aux { Some(*t) } else { None };
        if let Some(v) = r.call("new", || ArrayView::new(b)) {
            walk_array(&v, et, r);
        }
    }
    fn array_seeds() -> Vec<Seed> {
        let mut seeds = vec![];
        let mut b = ArrayBuilder::new(DataType::Int4);
        b.push_int4(10);
        b.push_null();
        b.push_int4(-30);
        seeds.push(Seed::new("int4-null", b.build()).aux(Aux::Elem(DataType::Int4)));
        let b = ArrayBuilder::new(DataType::Int4);
        seeds.push(Seed::new("int4-empty", b.build()).aux(Aux::Elem(DataType::Int4)));
        let mut b = ArrayBuilder::new(DataType::Int2);
        b.push_int2(1);
        b.push_int2(-2);
        b.push_int2(3);
        seeds.push(Seed::new("int2", b.build()).aux(Aux::Elem(DataType::Int2)));
        let mut b = ArrayBuilder::new(DataType::Int8);
        b.push_int8(i64::MAX);
        b.push_int8(0);
        seeds.push(Seed::new("int8", b.build()).aux(Aux::Elem(DataType::Int8)));
        let mut b = ArrayBuilder::new(DataType::Float4);
        b.push_float4(1.5);
        b.push_float4(-0.0);
        seeds.push(Seed::new("float4", b.build()).aux(Aux::Elem(DataType::Float4)));
        let mut b = ArrayBuilder::new(DataType::Float8);
        b.push_float8(2.5);
        b.push_null();
        seeds.push(Seed::new("float8", b.build()).aux(Aux::Elem(DataType::Float8)));
        let mut b = ArrayBuilder::new(DataType::Bool);
        b.push_bool(true);
        b.push_bool(false);
        b.push_null();
        seeds.push(Seed::new("bool", b.build()).aux(Aux::Elem(DataType::Bool)));
        let mut b = ArrayBuilder::new(DataType::Text);
        b.push_text("a");
        b.push_text("bcé");
        b.push_null();
        b.push_text("");
        seeds.push(Seed::new("text", b.build()).aux(Aux::Elem(DataType::Text)));
        let mut b = ArrayBuilder::new(DataType::Blob);
        b.push_blob(&[0, 255, 1]);
        b.push_blob(&[]);
        seeds.push(Seed::new("blob", b.build()).aux(Aux::Elem(DataType::Blob)));
        seeds
    }

    // ---------------- composites ----------------
    pub fn walk_composite(v: &CompositeView, n: usize, r: &mut Rec) {
        r.inf("field_count", || v.field_count());
        r.inf("depth", || v.depth());
        for i in 0..=n {
            r.inf("is_null", || v.is_null(i));
            r.call("get_field", || v.get_field(i));
            if let Some(c) = r.call("get_nested_composite", || v.get_nested_composite(i, 2)) {
                r.inf("nested.is_null", || c.is_null(0));
                r.call("nested.get_field", || c.get_field(0));
                r.call("nested.get_field", || c.get_field(1));
            }
        }
    }
    fn d_composite(s: &Seed, b: &[u8], r: &mut Rec) {
        let n = if let Aux::Fields(n) = &s.aux { *n } else { 2 };
        if let Some(v) = r.call("new", || CompositeView::new(b, n)) {
            walk_composite(&v, n, r);
        }
    }
    fn build_rec(cols: Vec<ColumnDef>, f: &dyn Fn(&mut RecordBuilder)) -> (Schema, Vec<u8>) {
        let schema = Schema::new(cols);
        let bytes = {
            let mut b = RecordBuilder::new(&schema);
            f(&mut b);
            b.build().expect("seed record builds")
        };
        (schema, bytes)
    }
    fn composite_seeds() -> Vec<Seed> {
        let mut seeds = vec![];
        let (_, b) = build_rec(vec![ColumnDef::new("x", DataType::Int4), ColumnDef::new("y", DataType::Int4)], &|b| {
            b.set_int4(0, 10).unwrap();
            b.set_int4(1, 20).unwrap();
        });
        seeds.push(Seed::new("int-int", b).aux(Aux::Fields(2)));
        let (_, b) = build_rec(vec![ColumnDef::new("x", DataType::Int4), ColumnDef::new("t", DataType::Text)], &|b| {
            b.set_null(0);
            b.set_text(1, "abc").unwrap();
        });
        seeds.push(Seed::new("null-text", b).aux(Aux::Fields(2)));
        let cols: Vec<ColumnDef> = (0..9).map(|i| ColumnDef::new(format!("c{i}"), DataType::Int2)).collect();
        let (_, b) = build_rec(cols, &|b| {
            for i in 0..9 {
                if i % 3 == 0 {
                    b.set_null(i)
                } else {
                    b.set_int2(i, i as i16).unwrap()
                }
            }
        });
        seeds.push(Seed::new("nine-fields", b).aux(Aux::Fields(9)));
        seeds
    }

    // ---------------- records ----------------
    fn d_record(s: &Seed, b: &[u8], r: &mut Rec) {
        let Aux::Schema { schema, opt_only } = &s.aux else { return };
        let Some(v) = r.call("new", || RecordView::new(b, schema)) else { return };
        r.inf("header_len", || v.header_len());
        r.inf("data_offset", || v.data_offset());
        r.inf("null_bitmap", || v.null_bitmap().len());
        r.inf("offset_table", || v.offset_table().len());
        r.inf("record_column_count", || v.record_column_count());
        for (i, col) in schema.columns().iter().enumerate() {
            let dt = col.data_type;
            r.inf("is_null", || v.is_null(i));
            r.inf("is_null_or_missing", || v.is_null_or_missing(i));
            r.call("from_record_column", || OwnedValue::from_record_column(&v, i, dt));
            macro_rules! g {
                ($get:ident, $opt:ident) => {{
                    if !*opt_only {
                        r.call(stringify!($get), || v.$get(i));
                    }
                    r.call(stringify!($opt), || v.$opt(i));
                }};
            }
            if dt.fixed_size().is_some() {
                if !*opt_only {
                    r.inf("get_fixed_col_offset", || v.get_fixed_col_offset(i));
                }
            } else if !*opt_only {
                r.call("get_var_bounds", || v.get_var_bounds(i));
                r.call("get_var_raw", || v.get_var_raw(i));
            }
            match dt {
                DataType::Bool => g!(get_bool, get_bool_opt),
                DataType::Int2 => g!(get_int2, get_int2_opt),
                DataType::Int4 => g!(get_int4, get_int4_opt),
                DataType::Int8 => g!(get_int8, get_int8_opt),
                DataType::Float4 => g!(get_float4, get_float4_opt),
                DataType::Float8 => g!(get_float8, get_float8_opt),
                DataType::Date => g!(get_date, get_date_opt),
                DataType::Time => g!(get_time, get_time_opt),
                DataType::Timestamp => g!(get_timestamp, get_timestamp_opt),
                DataType::TimestampTz => g!(get_timestamptz, get_timestamptz_opt),
                DataType::Uuid => g!(get_uuid, get_uuid_opt),
                DataType::MacAddr => g!(get_macaddr, get_macaddr_opt),
                DataType::Inet4 => g!(get_inet4, get_inet4_opt),
                DataType::Inet6 => g!(get_inet6, get_inet6_opt),
                DataType::Interval => g!(get_interval, get_interval_opt),
                DataType::Enum => g!(get_enum, get_enum_opt),
                DataType::Point => g!(get_point, get_point_opt),
                DataType::Box => g!(get_box, get_box_opt),
                DataType::Circle => g!(get_circle, get_circle_opt),
                DataType::Int4Range => g!(get_int4_range, get_int4_range_opt),
                DataType::Int8Range => g!(get_int8_range, get_int8_range_opt),
                DataType::DateRange => g!(get_date_range, get_date_range_opt),
                DataType::TimestampRange => g!(get_timestamp_range, get_timestamp_range_opt),
                DataType::Text => g!(get_text, get_text_opt),
                DataType::Varchar => {
                    if !*opt_only {
                        r.call("get_varchar", || v.get_varchar(i));
                    }
                    r.call("get_text_opt", || v.get_text_opt(i));
                }
                DataType::Char => {
                    if !*opt_only {
                        r.call("get_char", || v.get_char(i));
                    }
                    r.call("get_text_opt", || v.get_text_opt(i));
                }
                DataType::Blob => g!(get_blob, get_blob_opt),
                DataType::Vector => {
                    if !*opt_only {
                        r.call("get_vector", || v.get_vector(i));
                        r.call("get_vector_copy", || v.get_vector_copy(i));
                    }
                    r.call("get_vector_opt", || v.get_vector_opt(i));
                }
                DataType::Decimal => {
                    let d = if !*opt_only { r.call("get_decimal", || v.get_decimal(i)) } else { None };
                    let d2 = r.call("get_decimal_opt", || v.get_decimal_opt(i)).flatten();
                    if let Some(d) = d.or(d2) {
                        r.inf("decimal.is_negative", || d.is_negative());
                        r.inf("decimal.scale", || d.scale());
                        r.inf("decimal.digits", || d.digits());
                    }
                }
                DataType::Jsonb => {
                    let j = if !*opt_only { r.call("get_jsonb", || v.get_jsonb(i)) } else { None };
                    let j2 = r.call("get_jsonb_opt", || v.get_jsonb_opt(i)).flatten();
                    if let Some(j) = j.or(j2) {
                        let mut budget = 60u32;
                        walk_view(&j, r, &mut budget, 0);
                    }
                }
                DataType::Array => {
                    let a = if !*opt_only { r.call("get_array", || v.get_array(i)) } else { None };
                    let a2 = r.call("get_array_opt", || v.get_array_opt(i)).flatten();
                    if let Some(a) = a.or(a2) {
                        walk_array(&a, None, r);
                    }
                }
                DataType::Composite => {
                    let c = if !*opt_only { r.call("get_composite", || v.get_composite(i, 2)) } else { None };
                    let c2 = r.call("get_composite_opt", || v.get_composite_opt(i, 2)).flatten();
                    if let Some(c) = c.or(c2) {
                        walk_composite(&c, 2, r);
                    }
                }
            }
        }
    }
    fn rec_seed(name: &str, cols: Vec<ColumnDef>, f: &dyn Fn(&mut RecordBuilder)) -> Seed {
        let (schema, bytes) = build_rec(cols, f);
        Seed::new(name, bytes).aux(Aux::Schema { schema, opt_only: false })
    }
    fn record_seeds() -> Vec<Seed> {
        use DataType::*;
        let c = |n: &str, t: DataType| ColumnDef::new(n, t);
        let mut seeds = vec![];
        seeds.push(rec_seed("fixed-numeric", vec![c("b", Bool), c("i2", Int2), c("i4", Int4), c("i8", Int8), c("f4", Float4), c("f8", Float8), c("d", Date), c("t", Time), c("ts", Timestamp)], &|b| {
            b.set_bool(0, true).unwrap();
            b.set_int2(1, -2).unwrap();
            b.set_int4(2, 70000).unwrap();
            b.set_int8(3, -5_000_000_000).unwrap();
            b.set_float4(4, 1.5).unwrap();
            b.set_float8(5, -2.25).unwrap();
            b.set_date(6, 19000).unwrap();
            b.set_time(7, 3_600_000_000).unwrap();
            b.set_timestamp(8, 1_700_000_000_000_000).unwrap();
        }));
        seeds.push(rec_seed("fixed-net", vec![c("tz", TimestampTz), c("u", Uuid), c("m", MacAddr), c("i4", Inet4), c("e", Enum)], &|b| {
            b.set_timestamptz(0, 1_700_000_000_000_000, -18000).unwrap();
            b.set_uuid(1, &[9u8; 16]).unwrap();
            b.set_macaddr(2, &[1, 2, 3, 4, 5, 6]).unwrap();
            b.set_inet4(3, &[192, 168, 0, 1]).unwrap();
            b.set_enum(4, 3, 1).unwrap();
        }));
        seeds.push(rec_seed("fixed-range", vec![c("i6", Inet6), c("iv", Interval), c("r4", Int4Range), c("r8", Int8Range)], &|b| {
            b.set_inet6(0, &[0x20; 16]).unwrap();
            b.set_interval(1, 5_000_000, 3, 14).unwrap();
            b.set_int4_range(2, Some(1), Some(10), true, false).unwrap();
            b.set_int8_range(3, None, Some(99), false, true).unwrap();
        }));
        seeds.push(rec_seed("fixed-geo", vec![c("p", Point), c("bx", Box)], &|b| {
            b.set_point(0, 1.0, -2.0).unwrap();
            b.set_box(1, (0.0, 0.0), (3.0, 4.0)).unwrap();
        }));
        seeds.push(rec_seed("fixed-geo2", vec![c("ci", Circle), c("dr", DateRange), c("tr", TimestampRange)], &|b| {
            b.set_circle(0, (1.0, 1.0), 2.0).unwrap();
            b.set_date_range_empty(1).unwrap();
            b.set_timestamp_range(2, Some(5), None, true, false).unwrap();
        }));
        seeds.push(rec_seed("var-text", vec![c("t", Text), c("bl", Blob), ColumnDef::new_varchar("vc", Some(10)), ColumnDef::new_char("ch", 4), c("dec", Decimal)], &|b| {
            b.set_text(0, "héllo").unwrap();
            b.set_blob(1, &[0, 255, 7]).unwrap();
            b.set_varchar(2, "vc").unwrap();
            b.set_char(3, "ab").unwrap();
            b.set_decimal(4, 123456789, 2, true).unwrap();
        }));
        {
            let mut o = JsonbBuilder::new_object();
            o.set("a", 1i64);
            o.set("k", "x");
            let mut a = ArrayBuilder::new(Int4);
            a.push_int4(7);
            a.push_null();
            let arr = a.build();
            let (_, comp) = build_rec(vec![c("x", Int4), c("y", Int4)], &|b| {
                b.set_int4(0, 1).unwrap();
                b.set_int4(1, 2).unwrap();
            });
            seeds.push(rec_seed("var-nested", vec![c("v", Vector), c("j", Jsonb), c("a", Array), c("c", Composite)], &|b| {
                b.set_vector(0, &[1.0, -2.0, 0.5]).unwrap();
                b.set_jsonb(1, &o).unwrap();
                b.set_array(2, &arr).unwrap();
                b.set_composite(3, &comp).unwrap();
            }));
        }
        seeds.push(rec_seed("mixed-nulls", vec![c("id", Int8), c("n", Int4), c("t", Text), c("x", Float8), c("u", Text), c("b", Bool)], &|b| {
            b.set_int8(0, 42).unwrap();
            b.set_null(1);
            b.set_text(2, "row").unwrap();
            b.set_float8(3, 0.5).unwrap();
            b.set_null(4);
            b.set_bool(5, false).unwrap();
        }));
        {
            // record written with an older 2-column schema, read with the 4-column one (ALTER TABLE ADD COLUMN)
            let (_, bytes) = build_rec(vec![c("id", Int8), c("n", Int4)], &|b| {
                b.set_int8(0, 7).unwrap();
                b.set_int4(1, 8).unwrap();
            });
            let schema = Schema::new(vec![c("id", Int8), c("n", Int4), c("extra", Int8), c("flag", Bool)]);
            seeds.push(Seed::new("short-record", bytes).aux(Aux::Schema { schema, opt_only: true }));
        }
        seeds
    }

    pub fn all() -> Vec<Decoder> {
        let mut v = toast();
        v.push(Decoder { io: false, name: "jsonb", page: false, strings: true, seeds: jsonb_seeds(), f: d_jsonb });
        v.push(Decoder { io: false, name: "array", page: false, strings: true, seeds: array_seeds(), f: d_array });
        v.push(Decoder { io: false, name: "composite", page: false, strings: true, seeds: composite_seeds(), f: d_composite });
        v.push(Decoder { io: false, name: "record", page: false, strings: true, seeds: record_seeds(), f: d_record });
        v
    }
}
// ======================================================================
// seed databases (built with the real engine, in a forked child)
// ======================================================================
mod seeddb {
    use super::*;
    use checks::sqlh::*;

    pub struct Db {
        pub name: &'static str,
        /// (relative path, bytes), sorted by path
        pub files: Vec<(String, Vec<u8>)>,
    }

    fn fork_do(f: impl FnOnce()) {
        let pid = unsafe { libc::fork() };
        if pid < 0 {
            vcore::machinery("fork failed (seed build)");
        }
        if pid == 0 {
            let ok = vcore::catch(f).is_ok();
            unsafe { libc::_exit(if ok { 0 } else { 9 }) };
        }
        let mut status = 0;
        unsafe { libc::waitpid(pid, &mut status, 0) };
        if !(libc::WIFEXITED(status) && libc::WEXITSTATUS(status) == 0) {
            vcore::machinery(&format!("seed database build failed (status {status:#x})"));
        }
    }
    fn must(t: &TestDb, sql: &str) {
        let r = t.exec(sql);
        if !r.ok() {
            panic!("seed statement failed: {sql}: {}", r.show());
        }
    }
    fn read_tree(root: &Path) -> Vec<(String, Vec<u8>)> {
        fn rec(root: &Path, dir: &Path, out: &mut Vec<(String, Vec<u8>)>) {
            let mut ents: Vec<_> = std::fs::read_dir(dir).map(|d| d.filter_map(|e| e.ok()).map(|e| e.path()).collect()).unwrap_or_default();
            ents.sort();
            for p in ents {
                if p.is_dir() {
                    rec(root, &p, out);
                } else {
                    let rel = p.strip_prefix(root).unwrap().to_string_lossy().to_string();
                    out.push((rel, std::fs::read(&p).unwrap_or_default()));
                }
            }
        }
        let mut v = Vec::new();
        rec(root, root, &mut v);
        v.sort();
        v
    }

    pub const MAIN_TABLES: [(&str, &str, &str); 3] = [
        ("a", "SELECT * FROM a WHERE id = 7", "SELECT * FROM a WHERE n = 5"),
        ("b", "SELECT * FROM b WHERE id = 1", "SELECT id FROM b WHERE id = 2"),
        ("c", "SELECT * FROM c WHERE id = 555", "SELECT id FROM c WHERE id = 3"),
    ];
    pub const WAL_TABLES: [(&str, &str, &str); 1] = [("w", "SELECT * FROM w WHERE id = 7", "SELECT * FROM w WHERE n = 3")];

    fn build(scratch: &Path, name: &'static str, f: impl FnOnce(&Path)) -> Db {
        let base = scratch.join(format!("seed_{name}"));
        if !base.join("db").join("turdb.meta").exists() {
            let _ = std::fs::remove_dir_all(&base);
            std::fs::create_dir_all(&base).expect("seed dir");
            fork_do(|| f(&base));
        }
        Db { name, files: read_tree(&base.join("db")) }
    }

    /// 3 tables: `a` with a secondary index, `b` with TOAST-sized values, `c` with a 2-level tree; cleanly closed.
    pub fn main(scratch: &Path) -> Db {
        build(scratch, "main", |base| {
            let mut t = TestDb::create(base, "db").expect("create seed db");
            t.keep();
            must(&t, "CREATE TABLE a(id INT PRIMARY KEY, v TEXT, n INT)");
            must(&t, "CREATE INDEX a_n ON a(n)");
            must(&t, "CREATE TABLE b(id INT PRIMARY KEY, doc TEXT, raw BLOB)");
            must(&t, "CREATE TABLE c(id INT PRIMARY KEY, s TEXT)");
            for i in 0..40 {
                must(&t, &format!("INSERT INTO a VALUES ({i}, 'v{i}', {})", (i * 7) % 13));
            }
            for i in 0..3 {
                let big = "x".repeat(3000 + i * 2500);
                must(&t, &format!("INSERT INTO b VALUES ({i}, '{big}', x'{}')", "ab".repeat(1500)));
            }
            for i in 0..700 {
                must(&t, &format!("INSERT INTO c VALUES ({i}, '{}')", "p".repeat(40)));
            }
            t.db().close().expect("close seed db");
        })
    }

    /// WAL enabled, committed inserts, process exits without close (frames left in wal/).
    pub fn walcrash(scratch: &Path) -> Db {
        build(scratch, "walcrash", |base| {
            let mut t = TestDb::create(base, "db").expect("create seed db");
            t.keep();
            must(&t, "PRAGMA wal=ON");
            must(&t, "CREATE TABLE w(id INT PRIMARY KEY, v TEXT, n INT)");
            must(&t, "CREATE INDEX w_n ON w(n)");
            for i in 0..20 {
                must(&t, &format!("INSERT INTO w VALUES ({i}, 'w{i}', {})", i % 5));
            }
            unsafe { libc::_exit(0) };
        })
    }

    /// catalog files of databases with different DDL shapes
    pub fn catalogs(scratch: &Path) -> Vec<(String, Vec<u8>)> {
        let shapes: [(&'static str, &[&str]); 5] = [
            ("cat_empty", &[]),
            ("cat_one", &["CREATE TABLE t(id INT PRIMARY KEY, v TEXT)"]),
            ("cat_constraints", &["CREATE TABLE t(id BIGINT PRIMARY KEY, v VARCHAR(20) NOT NULL, u INT UNIQUE, d INT DEFAULT 5, f FLOAT, CHECK (d > 0))", "CREATE INDEX t_v ON t(v)", "CREATE UNIQUE INDEX t_fu ON t(f, u)"]),
            ("cat_fk", &["CREATE TABLE p(id INT PRIMARY KEY)", "CREATE TABLE ch(id INT PRIMARY KEY, pid INT REFERENCES p(id) ON DELETE CASCADE, b BLOB, j JSONB, ts TIMESTAMP)"]),
            ("cat_types", &["CREATE TABLE ty(a SMALLINT, b BOOLEAN, c DOUBLE, d DATE, e TIME, u UUID, v VECTOR(3), t TEXT)", "CREATE TABLE z(k INT, PRIMARY KEY (k))"]),
        ];
        let mut out = vec![];
        for (name, ddl) in shapes {
            let db = build(scratch, name, |base| {
                let mut t = TestDb::create(base, "db").expect("create seed db");
                t.keep();
                for s in ddl {
                    let r = t.exec(s);
                    if !r.ok() {
                        let _ = std::fs::write(base.join("ddl_failed.txt"), format!("{s}: {}", r.show()));
                    }
                }
                t.db().close().expect("close seed db");
            });
            if let Some((_, b)) = db.files.iter().find(|(p, _)| p == "turdb.catalog") {
                out.push((name.to_string(), b.clone()));
            }
        }
        out
    }
}

mod dec3 {
    use super::*;
    use turdb::btree::{InteriorNode, InteriorNodeMut, LeafNode, LeafNodeMut};
    use turdb::hnsw::storage::{HnswFileHeader, HnswPage, HnswPageRef};
    use turdb::hnsw::{DistanceFunction, HnswNode, HnswNodeInline, NodeId, QuantizationType};
    use turdb::schema::persistence::CatalogPersistence;
    use turdb::schema::Catalog;
    use turdb::storage::{validate_page, IndexFileHeader, MetaFileHeader, MmapStorage, PageHeader, TableFileHeader, TrunkHeader, Wal, WalFrameHeader, WalSegment};

    // ---------------- file headers ----------------
    fn d_meta(_s: &Seed, b: &[u8], r: &mut Rec) {
        if let Some(h) = r.call("from_bytes", || MetaFileHeader::from_bytes(b)) {
            r.inf("getters", || (h.version(), h.page_size(), h.schema_count(), h.default_schema_id(), h.next_table_id(), h.next_index_id(), h.flags()));
        }
    }
    fn d_table(_s: &Seed, b: &[u8], r: &mut Rec) {
        if let Some(h) = r.call("from_bytes", || TableFileHeader::from_bytes(b)) {
            r.inf("getters", || (h.table_id(), h.row_count(), h.root_page(), h.column_count(), h.first_free_page(), h.auto_increment(), h.rightmost_hint()));
        }
    }
    fn d_index(_s: &Seed, b: &[u8], r: &mut Rec) {
        if let Some(h) = r.call("from_bytes", || IndexFileHeader::from_bytes(b)) {
            r.inf("getters", || (h.index_id(), h.table_id(), h.root_page(), h.key_column_count(), h.is_unique(), h.index_type()));
        }
    }
    fn d_hnsw_hdr(_s: &Seed, b: &[u8], r: &mut Rec) {
        if let Some(h) = r.call("from_bytes", || HnswFileHeader::from_bytes(b)) {
            r.inf("getters", || (h.index_id(), h.table_id(), h.dimensions(), h.m(), h.m0(), h.ef_construction(), h.ef_search(), h.max_level(), h.node_count(), h.vector_count(), h.first_free_page()));
            r.inf("distance_fn", || h.distance_fn());
            r.inf("quantization", || h.quantization());
            r.inf("entry_point", || h.entry_point());
            r.inf("index_from_header", || turdb::hnsw::HnswIndex::from_header(h).dimensions());
        }
    }
    fn file_of<'a>(db: &'a seeddb::Db, p: &str) -> &'a [u8] {
        &db.files.iter().find(|(n, _)| n == p).unwrap_or_else(|| vcore::machinery(&format!("seed db lacks {p}"))).1
    }
    fn headers(db: &seeddb::Db, wdb: &seeddb::Db) -> Vec<Decoder> {
        let h = |p: &str| file_of(db, p)[..128].to_vec();
        let meta = vec![Seed::new("main", h("turdb.meta")), Seed::new("walcrash", file_of(wdb, "turdb.meta")[..128].to_vec()), Seed::new("page0", file_of(db, "turdb.meta")[..512].to_vec())];
        let table = vec![Seed::new("a", h("root/a.tbd")), Seed::new("c", h("root/c.tbd")), Seed::new("b_toast", h("root/b_toast.tbd")), Seed::new("sys", h("turdb_catalog/wal_stats.tbd"))];
        let index = vec![Seed::new("a_n", h("root/a_a_n.idx")), Seed::new("a_pk", h("root/a_id_pkey.idx")), Seed::new("c_pk", h("root/c_id_pkey.idx"))];
        let mut hn = vec![];
        for (name, hd, ep) in [
            ("l2", HnswFileHeader::new(3, 7, 128, 16, 200, 50, DistanceFunction::L2, QuantizationType::None), None),
            ("cos-sq8", HnswFileHeader::new(u64::MAX, 1, 3, 4, 10, 10, DistanceFunction::Cosine, QuantizationType::SQ8), Some(NodeId::new(5, 2))),
            ("ip-pq", HnswFileHeader::new(1, u64::MAX, 1536, 64, 400, 100, DistanceFunction::InnerProduct, QuantizationType::PQ), Some(NodeId::new(1, 0))),
        ] {
            let mut hd = hd;
            hd.set_entry_point(ep);
            hd.set_node_count(12);
            let mut buf = vec![0u8; 128];
            hd.write_to(&mut buf).expect("hnsw header write");
            hn.push(Seed::new(name, buf));
        }
        vec![
            Decoder { io: false, name: "meta_header", page: false, strings: true, seeds: meta, f: d_meta },
            Decoder { io: false, name: "table_header", page: false, strings: true, seeds: table, f: d_table },
            Decoder { io: false, name: "index_header", page: false, strings: true, seeds: index, f: d_index },
            Decoder { io: false, name: "hnsw_header", page: false, strings: true, seeds: hn, f: d_hnsw_hdr },
        ]
    }

    // ---------------- HNSW nodes and pages ----------------
    fn d_hnsw_node(_s: &Seed, b: &[u8], r: &mut Rec) {
        if let Some(n) = r.call("read_from", || HnswNode::read_from(b)) {
            r.inf("getters", || (n.row_id(), n.max_level(), n.level0_neighbor_count(), n.level0_neighbors().len(), n.serialized_size()));
            for l in [0u8, 1, 2, 255] {
                r.inf("neighbors_at_level", || n.neighbors_at_level(l).len());
            }
        }
        if let Some(n) = r.call("inline.read_from", || HnswNodeInline::read_from(b)) {
            r.inf("inline.getters", || (n.row_id(), n.max_level(), n.level0_neighbor_count(), n.level0_neighbors().len()));
            for l in [0u8, 1, 2, 255] {
                r.inf("inline.neighbors_at_level", || n.neighbors_at_level(l).len());
            }
        }
    }
    fn hnsw_node_bytes(levels: u8, l0: usize, per: usize) -> Vec<u8> {
        let mut n = HnswNode::new(99, levels);
        for i in 0..l0 {
            n.add_level0_neighbor(NodeId::new(i as u32 + 1, i as u16));
        }
        for l in 1..=levels {
            for i in 0..per {
                n.add_neighbor_at_level(l, NodeId::new(100 + i as u32, l as u16));
            }
        }
        let mut buf = vec![0u8; n.serialized_size()];
        let w = n.write_to(&mut buf);
        buf.truncate(w);
        buf
    }
    fn d_hnsw_page(_s: &Seed, b: &[u8], r: &mut Rec) {
        if let Some(p) = r.call("from_bytes", || HnswPageRef::from_bytes(b)) {
            r.inf("free_space", || p.free_space());
            r.inf("can_fit", || p.can_fit(100));
            let Some(n) = r.inf("slot_count", || p.slot_count()) else { return };
            let mut idx: Vec<u16> = (0..n.min(24)).collect();
            if n > 24 {
                idx.push(n - 1);
            }
            idx.push(n);
            for i in idx {
                r.inf("get_slot", || p.get_slot(i));
                if let Some(d) = r.call("read_node_data", || p.read_node_data(i)) {
                    r.call("node.read_from", || HnswNode::read_from(d));
                }
            }
        }
    }
    fn hnsw_page_seed(name: &str, nodes: &[Vec<u8>], delete: Option<u16>) -> Seed {
        let mut page = vec![0u8; PAGE];
        {
            let mut p = HnswPage::init(&mut page).expect("hnsw page init");
            for n in nodes {
                let s = p.allocate_slot(n.len() as u16).expect("hnsw slot");
                p.write_node_data(s, n).expect("hnsw write");
            }
            if let Some(d) = delete {
                p.mark_deleted(d).expect("hnsw delete");
            }
        }
        let used_low = 64 + nodes.len() * 4 + 8;
        let used_high = PAGE - nodes.iter().map(|n| n.len()).sum::<usize>() - 8;
        Seed::new(name, page).dense(vec![0..used_low, used_high..PAGE])
    }
    fn hnsw() -> Vec<Decoder> {
        let nodes = vec![Seed::new("l0-only", hnsw_node_bytes(0, 3, 0)), Seed::new("two-levels", hnsw_node_bytes(2, 2, 2)), Seed::new("empty", hnsw_node_bytes(0, 0, 0)), Seed::new("one-level-full", hnsw_node_bytes(1, 8, 6))];
        let pages = vec![
            hnsw_page_seed("empty", &[], None),
            hnsw_page_seed("one", &[hnsw_node_bytes(1, 2, 1)], None),
            hnsw_page_seed("three-deleted", &[hnsw_node_bytes(0, 3, 0), hnsw_node_bytes(2, 2, 2), hnsw_node_bytes(0, 0, 0)], Some(1)),
        ];
        vec![Decoder { io: false, name: "hnsw_node", page: false, strings: true, seeds: nodes, f: d_hnsw_node }, Decoder { io: false, name: "hnsw_page", page: true, strings: false, seeds: pages, f: d_hnsw_page }]
    }

    // ---------------- page header / validate_page / B-tree nodes ----------------
    fn d_page(_s: &Seed, b: &[u8], r: &mut Rec) {
        if let Some(h) = r.call("header.from_bytes", || PageHeader::from_bytes(b)) {
            r.inf("header.getters", || (h.page_type(), h.flags(), h.cell_count(), h.free_start(), h.free_end(), h.free_space(), h.frag_bytes(), h.right_child(), h.next_leaf()));
        }
        r.call("validate_page", || validate_page(b));
        if b.len() >= 16 {
            if let Some(t) = r.call("trunk.from_bytes", || TrunkHeader::from_bytes(&b[16..])) {
                r.inf("trunk.getters", || (t.next_trunk(), t.count(), t.is_full(), t.is_empty()));
            }
        }
    }
    fn slot_indexes(n: usize) -> Vec<usize> {
        let mut idx: Vec<usize> = (0..n.min(2048)).collect();
        if n > 2048 {
            idx.push(n - 1);
        }
        idx.push(n);
        idx
    }
    fn d_leaf(s: &Seed, b: &[u8], r: &mut Rec) {
        let Some(l) = r.call("from_page", || LeafNode::from_page(b)) else { return };
        r.inf("free_space", || l.free_space());
        r.inf("next_leaf", || l.next_leaf());
        let Some(n) = r.inf("cell_count", || l.cell_count() as usize) else { return };
        for i in slot_indexes(n) {
            r.call("slot_at", || l.slot_at(i).map(|s| (s.offset(), s.key_len(), s.prefix_as_u32())));
            r.call("key_at", || l.key_at(i).map(|k| k.len()));
            r.call("value_at", || l.value_at(i).map(|v| v.len()));
            r.call("value_len_at", || l.value_len_at(i));
        }
        if let Aux::Probes(ps) = &s.aux {
            for p in ps {
                r.inf("find_key", || l.find_key(p));
            }
        }
        r.inf("batch_iterator", || l.batch_iterator().take(70000).count());
    }
    fn d_interior(s: &Seed, b: &[u8], r: &mut Rec) {
        let Some(l) = r.call("from_page", || InteriorNode::from_page(b)) else { return };
        r.inf("right_child", || l.right_child());
        let Some(n) = r.inf("cell_count", || l.cell_count() as usize) else { return };
        for i in slot_indexes(n) {
            r.call("slot_at", || l.slot_at(i).map(|s| (s.offset(), s.key_len(), s.child_page())));
            r.call("key_at", || l.key_at(i).map(|k| k.len()));
        }
        if let Aux::Probes(ps) = &s.aux {
            for p in ps {
                r.call("find_child", || l.find_child(p));
            }
        }
    }
    fn used_ranges(page: &[u8]) -> Vec<std::ops::Range<usize>> {
        let h = PageHeader::from_bytes(page).expect("seed page header");
        vec![0..(h.free_start() as usize + 16).min(PAGE), (h.free_end() as usize).saturating_sub(16)..PAGE]
    }
    fn probes_for(keys: &[Vec<u8>]) -> Vec<Vec<u8>> {
        let mut p: Vec<Vec<u8>> = vec![vec![], vec![0], vec![0xFF; 12]];
        for k in keys.iter().take(6) {
            p.push(k.clone());
            let mut x = k.clone();
            x.push(0);
            p.push(x);
        }
        if let Some(k) = keys.last() {
            p.push(k.clone());
        }
        p
    }
    fn leaf_seed(name: &str, cells: &[(Vec<u8>, Vec<u8>)], next: u32) -> Seed {
        let mut page = vec![0u8; PAGE];
        {
            let mut l = LeafNodeMut::init(&mut page).expect("leaf init");
            for (k, v) in cells {
                l.insert_cell(k, v).expect("leaf insert");
            }
            l.set_next_leaf(next).expect("next leaf");
        }
        let keys: Vec<Vec<u8>> = cells.iter().map(|c| c.0.clone()).collect();
        let d = used_ranges(&page);
        Seed::new(name, page).aux(Aux::Probes(probes_for(&keys))).dense(d)
    }
    fn interior_seed(name: &str, seps: &[(Vec<u8>, u32)], right: u32) -> Seed {
        let mut page = vec![0u8; PAGE];
        {
            let mut l = InteriorNodeMut::init(&mut page, right).expect("interior init");
            for (k, c) in seps {
                l.insert_separator(k, *c).expect("separator insert");
            }
        }
        let keys: Vec<Vec<u8>> = seps.iter().map(|c| c.0.clone()).collect();
        let d = used_ranges(&page);
        Seed::new(name, page).aux(Aux::Probes(probes_for(&keys))).dense(d)
    }
    fn rowkey(i: u64) -> Vec<u8> {
        i.to_be_bytes().to_vec()
    }
    fn db_page(db: &seeddb::Db, file: &str, want: u8) -> Option<Vec<u8>> {
        let f = file_of(db, file);
        (1..f.len() / PAGE).map(|p| &f[p * PAGE..(p + 1) * PAGE]).find(|p| p[0] == want).map(|p| p.to_vec())
    }
    fn db_leaf_seed(name: &str, page: Vec<u8>) -> Seed {
        let keys: Vec<Vec<u8>> = {
            let l = LeafNode::from_page(&page).expect("db leaf");
            (0..l.cell_count() as usize).step_by((l.cell_count() as usize / 5).max(1)).map(|i| l.key_at(i).expect("db leaf key").to_vec()).collect()
        };
        let d = used_ranges(&page);
        Seed::new(name, page).aux(Aux::Probes(probes_for(&keys))).dense(d)
    }
    fn btree(db: &seeddb::Db) -> Vec<Decoder> {
        let mut leaves = vec![leaf_seed("empty", &[], 0)];
        leaves.push(leaf_seed("one", &[(rowkey(1), vec![1, 2, 3])], 7));
        leaves.push(leaf_seed("short-keys", &[(vec![], vec![]), (vec![1], vec![9]), (vec![1, 2], vec![]), (vec![1, 2, 3], vec![8; 300])], 0));
        leaves.push(leaf_seed("eight-shared-prefix", &(0..8u64).map(|i| (rowkey(i), vec![i as u8; 10])).collect::<Vec<_>>(), 3));
        leaves.push(leaf_seed("text-keys-20", &(0..20u32).map(|i| (format!("key-{:03}-{}", i * 7 % 20, "z".repeat(i as usize % 5)).into_bytes(), vec![0xAB; (i as usize * 37) % 400])).collect::<Vec<_>>(), 0));
        leaves.push(leaf_seed("big-values", &[(rowkey(1), vec![5; 4000]), (rowkey(2), vec![6; 4000]), (rowkey(3), vec![7; 3000])], 9));
        if let Some(p) = db_page(db, "root/a.tbd", 2) {
            leaves.push(db_leaf_seed("db-table-a", p));
        }
        if let Some(p) = db_page(db, "root/a_a_n.idx", 2) {
            leaves.push(db_leaf_seed("db-index-a_n", p));
        }
        let mut ints = vec![interior_seed("empty", &[], 2)];
        ints.push(interior_seed("one", &[(rowkey(100), 2)], 3));
        ints.push(interior_seed("ten", &(0..10u64).map(|i| (rowkey(i * 50), i as u32 + 2)).collect::<Vec<_>>(), 99));
        ints.push(interior_seed("text-seps", &(0..12u32).map(|i| (format!("sep{:02}{}", i, "q".repeat(i as usize % 4)).into_bytes(), i + 2)).collect::<Vec<_>>(), 50));
        if let Some(p) = db_page(db, "root/c.tbd", 1) {
            let keys: Vec<Vec<u8>> = {
                let l = InteriorNode::from_page(&p).expect("db interior");
                (0..l.cell_count() as usize).map(|i| l.key_at(i).expect("db sep").to_vec()).collect()
            };
            let d = used_ranges(&p);
            ints.push(Seed::new("db-table-c-root", p).aux(Aux::Probes(probes_for(&keys))).dense(d));
        }
        let mut pages = vec![Seed::new("zero", vec![0u8; PAGE])];
        pages.push(Seed::new("leaf", leaves[3].bytes.clone()).dense(vec![0..64]));
        pages.push(Seed::new("interior", ints[2].bytes.clone()).dense(vec![0..64]));
        {
            let mut p = vec![0u8; PAGE];
            PageHeader::new(turdb::storage::PageType::FreeList).write_to(&mut p).expect("page header write");
            TrunkHeader::with_next(5).write_to(&mut p[16..]).expect("trunk write");
            pages.push(Seed::new("freelist-trunk", p).dense(vec![0..64]));
        }
        vec![
            Decoder { io: false, name: "page", page: true, strings: false, seeds: pages, f: d_page },
            Decoder { io: false, name: "leaf", page: true, strings: false, seeds: leaves, f: d_leaf },
            Decoder { io: false, name: "interior", page: true, strings: false, seeds: ints, f: d_interior },
        ]
    }

    // ---------------- catalog ----------------
    fn d_catalog(_s: &Seed, b: &[u8], r: &mut Rec) {
        let mut c = Catalog::new();
        if r.call("deserialize", || CatalogPersistence::deserialize(b, &mut c)).is_some() {
            r.call("reserialize", || CatalogPersistence::serialize(&c));
        }
    }
    fn d_catalog_file(_s: &Seed, b: &[u8], r: &mut Rec) {
        let p = r.scratch.join("cat_case.catalog");
        std::fs::write(&p, b).expect("write catalog case");
        let mut c = Catalog::new();
        if r.call("load", || CatalogPersistence::load(&p, &mut c)).is_some() {
            r.call("reserialize", || CatalogPersistence::serialize(&c));
        }
    }
    fn catalog(scratch: &Path, db: &seeddb::Db) -> Vec<Decoder> {
        let mut files: Vec<(String, Vec<u8>)> = seeddb::catalogs(scratch);
        files.push(("main-db".to_string(), file_of(db, "turdb.catalog").to_vec()));
        let body: Vec<Seed> = files.iter().map(|(n, b)| Seed::new(n, b[128..].to_vec())).collect();
        let whole: Vec<Seed> = files.iter().map(|(n, b)| Seed::new(n, b.clone()).dense(vec![0..128]).thorough_only(!(n == "cat_constraints" || n == "main-db"))).collect();
        vec![
            Decoder { io: false, name: "catalog", page: false, strings: true, seeds: body, f: d_catalog },
            Decoder { io: true, name: "catalog_file", page: false, strings: false, seeds: whole, f: d_catalog_file },
        ]
    }

    // ---------------- WAL ----------------
    fn d_wal(s: &Seed, b: &[u8], r: &mut Rec) {
        let Aux::Wal { file_id, page_no } = &s.aux else { return };
        let dir = r.scratch.join("wal_case");
        let _ = std::fs::remove_dir_all(&dir);
        std::fs::create_dir_all(&dir).expect("wal case dir");
        let seg = dir.join("wal.000001");
        std::fs::write(&seg, b).expect("write wal case");
        if let Some(mut sg) = r.call("segment.open", || WalSegment::open(&seg, 1)) {
            for _ in 0..6 {
                if r.call("segment.read_frame", || sg.read_frame().map(|(h, p)| (h.frame_type(), h.actual_file_id(), h.undo_table_id(), h.undo_txn_id(), p.len()))).is_none() {
                    break;
                }
            }
            if r.call("segment.reset_position", || sg.reset_position()).is_some() {
                for _ in 0..6 {
                    if r.call("segment.read_header_only", || sg.read_header_only().map(|h| (h.is_undo_frame(), h.is_redo_frame()))).is_none() {
                        break;
                    }
                }
                if r.call("segment.reset_position", || sg.reset_position()).is_some() {
                    let mut buf = vec![0u8; 32 + PAGE];
                    r.call("segment.read_frame_into", || sg.read_frame_into(&mut buf));
                }
            }
        }
        if let Some(w) = r.call("wal.open", || Wal::open(&dir)) {
            r.inf("wal.frame_count", || (w.frame_count(), w.total_wal_size_bytes(), w.needs_checkpoint()));
            r.call("wal.read_page", || w.read_page(*file_id, *page_no).map(|p| p.map(|v| v.len())));
            r.call("wal.read_page", || w.read_page(0, 0).map(|p| p.map(|v| v.len())));
            let st = r.scratch.join("wal_case_storage.tbd");
            let _ = std::fs::remove_file(&st);
            if let Some(mut storage) = r.call("storage.create", || MmapStorage::create(&st, 2)) {
                r.call("wal.recover", || w.recover(&mut storage));
                r.call("wal.recover_for_file", || w.recover_for_file(&mut storage, *file_id));
                r.inf("storage.page_count", || storage.page_count());
            }
        }
    }
    fn wal_frame(file_id: u64, page_no: u32, db_size: u32, fill: u8, undo: Option<(u32, u32)>) -> Vec<u8> {
        let mut page = vec![0u8; PAGE];
        for (i, b) in page.iter_mut().enumerate() {
            *b = fill.wrapping_add((i % 251) as u8);
        }
        let mut h = match undo {
            Some((t, x)) => WalFrameHeader::new_undo_frame(page_no, db_size, 0x1111, 0x2222, 0, t, x),
            None => WalFrameHeader::new_with_file_id(page_no, db_size, 0x1111, 0x2222, 0, file_id),
        };
        h.checksum = frame_checksum(&h, &page);
        let mut v = frame_header_bytes(&h);
        v.extend_from_slice(&page);
        v
    }
    /// CRC-64/ECMA-182 (poly 42F0E1EBA9EA3693, init 0, not reflected, xorout 0) over
    /// file_id, page_no, db_size, salt1, salt2 (LE) and the page image — the
    /// engine's `compute_checksum` is not exported; the identity cases prove agreement.
    pub fn crc64_ecma(chunks: &[&[u8]]) -> u64 {
        let mut crc = 0u64;
        for c in chunks {
            for &b in *c {
                crc ^= (b as u64) << 56;
                for _ in 0..8 {
                    crc = if crc & (1 << 63) != 0 { (crc << 1) ^ 0x42F0_E1EB_A9EA_3693 } else { crc << 1 };
                }
            }
        }
        crc
    }
    pub fn frame_checksum(h: &WalFrameHeader, page: &[u8]) -> u64 {
        crc64_ecma(&[&h.file_id.to_le_bytes(), &h.page_no.to_le_bytes(), &h.db_size.to_le_bytes(), &h.salt1.to_le_bytes(), &h.salt2.to_le_bytes(), page])
    }
    pub fn frame_header_bytes(h: &WalFrameHeader) -> Vec<u8> {
        let mut v = Vec::with_capacity(32);
        v.extend_from_slice(&h.file_id.to_le_bytes());
        v.extend_from_slice(&h.page_no.to_le_bytes());
        v.extend_from_slice(&h.db_size.to_le_bytes());
        v.extend_from_slice(&h.salt1.to_le_bytes());
        v.extend_from_slice(&h.salt2.to_le_bytes());
        v.extend_from_slice(&h.checksum.to_le_bytes());
        v
    }
    fn wal(wdb: &seeddb::Db) -> Decoder {
        let mut seeds = vec![];
        seeds.push(Seed::new("one-frame", wal_frame(0, 1, 2, 3, None)).aux(Aux::Wal { file_id: 0, page_no: 1 }).dense(vec![0..96]));
        let mut two = wal_frame(5, 0, 2, 9, None);
        two.extend(wal_frame(5, 1, 2, 77, None));
        seeds.push(Seed::new("two-frames-file5", two).aux(Aux::Wal { file_id: 5, page_no: 1 }).dense(vec![0..96, 16416..16416 + 96]).thorough_only(true));
        let mut un = wal_frame(0, 1, 2, 1, Some((3, 44)));
        un.extend(wal_frame(3, 1, 2, 2, None));
        let undo_id = (1u64 << 56) | (3u64 << 32) | 44;
        seeds.push(Seed::new("undo-then-redo", un).aux(Aux::Wal { file_id: undo_id, page_no: 1 }).dense(vec![0..96, 16416..16416 + 96]));
        {
            // first two frames written by the real engine (WAL-crashed seed database)
            let f = file_of(wdb, "wal/wal.000001");
            if f.len() >= 2 * 16416 {
                let fid = u64::from_le_bytes(f[0..8].try_into().unwrap());
                let pno = u32::from_le_bytes(f[8..12].try_into().unwrap());
                seeds.push(Seed::new("engine-two-frames", f[..2 * 16416].to_vec()).aux(Aux::Wal { file_id: fid, page_no: pno }).dense(vec![0..128, 16416..16416 + 128]));
            }
        }
        Decoder { io: true, name: "wal", page: false, strings: false, seeds, f: d_wal }
    }

    pub fn all(scratch: &Path) -> Vec<Decoder> {
        let db = seeddb::main(scratch);
        let wdb = seeddb::walcrash(scratch);
        let mut v = headers(&db, &wdb);
        v.extend(hnsw());
        v.extend(btree(&db));
        v.extend(catalog(scratch, &db));
        v.push(wal(&wdb));
        v
    }
}

// ======================================================================
// plan: the deterministic list of blocks
// ======================================================================
fn part_a_blocks(ctx: &Ctx, only_key: Option<&str>) -> Vec<Box<dyn Block>> {
    let quick = ctx.quick();
    let want: Option<String> = only_key.and_then(|k| k.split('/').nth(1)).map(|s| s.to_string()).or_else(|| ctx.opt("dec").map(|s| s.to_string()));
    let decs = dec::all(&ctx.scratch, want.as_deref());
    let mut blocks: Vec<Box<dyn Block>> = Vec::new();
    for d in decs {
        if let Some(f) = &want {
            if f != d.name {
                continue;
            }
        }
        let d = std::rc::Rc::new(d);
        // identity block: every seed must decode without panic (seed validity)
        for (si, seed) in d.seeds.iter().enumerate() {
            if quick && seed.thorough_only && only_key.is_none() {
                continue;
            }
            let kinds: &[Kind] = if d.page { &[Kind::Identity, Kind::Subst, Kind::Trunc, Kind::InsShift, Kind::DelShift, Kind::ZeroTail] } else { &[Kind::Identity, Kind::Subst, Kind::Trunc, Kind::Insert, Kind::Delete] };
            let mut kinds: Vec<Kind> = kinds.to_vec();
            if d.name == "wal" {
                kinds.push(Kind::WalFixSum);
            }
            for k in kinds {
                let stride = if d.io { if seed.bytes.len() <= 2048 { 16 } else { 1024 } } else if k == Kind::Subst { 64 } else { 256 };
                let offs = if k == Kind::Identity { vec![] } else { offsets_for(seed, quick, stride, d.io) };
                // file-based decoders: header regions and the rest are separate blocks, so that a
                // header field whose corruption kills the process cannot cut the exploration of the body
                let split = d.io && !seed.dense.is_empty() && !matches!(k, Kind::Identity | Kind::WalFixSum);
                let parts: Vec<(&str, Vec<u32>)> = if split {
                    let in_dense = |o: u32| seed.dense.iter().any(|r| r.contains(&(o as usize)));
                    vec![("@hdr", offs.iter().copied().filter(|o| in_dense(*o)).collect()), ("@body", offs.iter().copied().filter(|o| !in_dense(*o)).collect())]
                } else {
                    vec![("", offs)]
                };
                for (suffix, offs) in parts {
                    let key = format!("A/{}/{}/{}{}", d.name, seed.name, k.name(), suffix);
                    if let Some(o) = only_key {
                        if o != key {
                            continue;
                        }
                    }
                    let n = kind_count(&seed.bytes, k, &offs);
                    blocks.push(Box::new(ABlock { info: BlockInfo { key, dec: d.name.to_string(), kind: k.name().to_string(), n, hang_s: HANG_A_S, alarm_every: if d.io { 1 } else { 64 }, tier: ctx.tier.name() }, dec: d.clone(), seed: si, kind: k, offs, no_tail_insert: suffix == "@hdr" }));
                }
            }
        }
        if d.strings {
            for (repeat, kn, n) in [(false, "short", SHORT_N), (true, "repeat", (repeat_patterns().len() * REP_LENS.len()) as u64)] {
                let key = format!("A/{}/-/{}", d.name, kn);
                if let Some(o) = only_key {
                    if o != key {
                        continue;
                    }
                }
                blocks.push(Box::new(SBlock { info: BlockInfo { key, dec: d.name.to_string(), kind: kn.to_string(), n, hang_s: HANG_A_S, alarm_every: if d.io { 1 } else { 64 }, tier: ctx.tier.name() }, dec: d.clone(), repeat, pats: repeat_patterns() }));
            }
        }
    }
    blocks
}

fn all_blocks(ctx: &Ctx, only_key: Option<&str>) -> Vec<Box<dyn Block>> {
    let mut v = Vec::new();
    let want_a = only_key.map(|k| k.starts_with("A/")).unwrap_or(true) && ctx.opt("part").map(|p| p == "A").unwrap_or(true);
    let want_b = only_key.map(|k| k.starts_with("B/")).unwrap_or(true) && ctx.opt("part").map(|p| p == "B").unwrap_or(true);
    // order: pure decoders, whole-database part, then the file-based decoders (slowest per case)
    let mut tail: Vec<Box<dyn Block>> = Vec::new();
    if want_a {
        for b in part_a_blocks(ctx, only_key) {
            if b.info().alarm_every == 1 {
                tail.push(b);
            } else {
                v.push(b);
            }
        }
    }
    if want_b {
        v.extend(partb::blocks(ctx, only_key));
    }
    v.extend(tail);
    v
}

// ======================================================================
// PART B: corrupted copies of whole databases
// ======================================================================
mod partb {
    use super::*;
    use std::rc::Rc;
    use turdb::btree::{InteriorNode, LeafNode};
    use turdb::encoding::varint::decode_varint;
    use turdb::Database;

    const FRAME: usize = 32 + PAGE;

    pub struct Plan {
        pub db: seeddb::Db,
        pub tables: &'static [(&'static str, &'static str, &'static str)],
    }
    #[derive(Clone, Copy)]
    enum BCase {
        Identity,
        Subst { off: u32, vi: u8 },
        Len(u64),
    }
    pub struct BBlock {
        info: BlockInfo,
        plan: Rc<Plan>,
        file: usize,
        cases: Vec<BCase>,
        /// quick tier: query only the table that owns the corrupted file (None = every table)
        only_table: Option<&'static str>,
    }
    fn subst_val(b: u8, vi: u8) -> Option<u8> {
        let list = [0x00, 0xFF, b ^ 1, b ^ 0x80];
        let v = list[vi as usize];
        if v == b || list[..vi as usize].contains(&v) {
            None
        } else {
            Some(v)
        }
    }
    fn class_of(rel: &str) -> &'static str {
        if rel == "turdb.meta" {
            "meta"
        } else if rel == "turdb.catalog" {
            "catalog"
        } else if rel.starts_with("wal/") {
            "wal"
        } else if rel.starts_with("turdb_catalog/") {
            "systable"
        } else if rel.ends_with("_toast.tbd") {
            "toast"
        } else if rel.ends_with(".idx") {
            "index"
        } else {
            "table"
        }
    }

    /// offsets of one file grouped by region kind
    fn regions(rel: &str, f: &[u8], quick: bool) -> BTreeMap<&'static str, Vec<u32>> {
        let mut m: BTreeMap<&'static str, BTreeSet<u32>> = BTreeMap::new();
        let other_stride = if quick { 4096 } else { 64 };
        let cell_limit = if quick { 1 } else { usize::MAX };
        let cell_tail = if quick { 1 } else { 2 };
        let cell_value_bytes = if quick { 8 } else { 24 };
        let mut add = |k: &'static str, r: std::ops::Range<usize>, len: usize| {
            let e = m.entry(k).or_default();
            for i in r.start.min(len)..r.end.min(len) {
                e.insert(i as u32);
            }
        };
        let n = f.len();
        match class_of(rel) {
            "catalog" => {
                add("subst.cataloghdr", 0..128, n);
                for i in (128..n).step_by(if quick { 8 } else { 1 }) {
                    add("subst.catalog", i..i + 1, n);
                }
            }
            "wal" => {
                let frames = n / FRAME;
                for k in 0..frames {
                    if quick && k >= 2 && k + 1 < frames {
                        continue;
                    }
                    let b = k * FRAME;
                    add("subst.walhdr", b..b + 32, n);
                    add("subst.pagehdr", b + 32..b + 32 + 24, n);
                }
            }
            _ => {
                if quick {
                    add("subst.filehdr", 16..64, n);
                    for i in (0..16).step_by(4).chain((64..128).step_by(16)) {
                        add("subst.filehdr", i..i + 1, n);
                    }
                } else {
                    add("subst.filehdr", 0..128, n);
                }
                for p in 1..n / PAGE {
                    let base = p * PAGE;
                    let page = &f[base..base + PAGE];
                    match page[0] {
                        0x02 => {
                            add("subst.pagehdr", base..base + 24, n);
                            if let Ok(l) = LeafNode::from_page(page) {
                                let cnt = l.cell_count() as usize;
                                for i in 0..cnt {
                                    if i >= cell_limit && i + cell_tail < cnt {
                                        continue;
                                    }
                                    add("subst.slots", base + 24 + i * 8..base + 24 + (i + 1) * 8, n);
                                    if let Ok(s) = l.slot_at(i) {
                                        let off = s.offset() as usize;
                                        let kl = s.key_len() as usize;
                                        let vs = off + kl;
                                        let vn = decode_varint(&page[vs.min(PAGE - 1)..]).map(|x| x.1).unwrap_or(1);
                                        add("subst.cell", base + off..base + (vs + vn + cell_value_bytes).min(PAGE), n);
                                    }
                                }
                            }
                        }
                        0x01 => {
                            add("subst.pagehdr", base..base + 16, n);
                            if let Ok(l) = InteriorNode::from_page(page) {
                                let cnt = l.cell_count() as usize;
                                for i in 0..cnt {
                                    if i >= cell_limit && i + cell_tail < cnt {
                                        continue;
                                    }
                                    add("subst.slots", base + 16 + i * 12..base + 16 + (i + 1) * 12, n);
                                    if let Ok(s) = l.slot_at(i) {
                                        let off = s.offset() as usize;
                                        add("subst.cell", base + off..base + (off + s.key_len() as usize).min(PAGE), n);
                                    }
                                }
                            }
                        }
                        _ => add("subst.pagehdr", base..base + 24, n),
                    }
                }
            }
        }
        // everything else in strides
        let taken: BTreeSet<u32> = m.values().flat_map(|s| s.iter().copied()).collect();
        let e = m.entry("subst.other").or_default();
        let mut i = 0;
        while i < n {
            if !taken.contains(&(i as u32)) {
                e.insert(i as u32);
            }
            i += other_stride;
        }
        if n > 0 && !taken.contains(&(n as u32 - 1)) {
            e.insert(n as u32 - 1);
        }
        m.into_iter().map(|(k, v)| (k, v.into_iter().collect())).collect()
    }

    fn trunc_lengths(rel: &str, n: usize, quick: bool) -> Vec<u64> {
        let mut v = BTreeSet::new();
        match class_of(rel) {
            "catalog" => {
                for l in (0..=n + 1).step_by(if quick { 8 } else { 1 }) {
                    v.insert(l as u64);
                }
                v.insert(n as u64 - 1);
                v.insert(n as u64 + 1);
            }
            c => {
                let unit = if c == "wal" { FRAME } else { PAGE };
                for k in 0..=n / unit + 1 {
                    for d in [-1i64, 0, 1] {
                        let l = (k * unit) as i64 + d;
                        if l >= 0 {
                            v.insert(l as u64);
                        }
                    }
                }
            }
        }
        v.remove(&(n as u64));
        v.into_iter().collect()
    }

    fn restore_tree(work: &Path, files: &[(String, Vec<u8>)], patched_idx: usize, patched: Option<&[u8]>) {
        use std::io::Write;
        fn clean(dir: &Path, root: &Path, keep: &BTreeSet<&str>) {
            if let Ok(rd) = std::fs::read_dir(dir) {
                for e in rd.filter_map(|e| e.ok()) {
                    let p = e.path();
                    let rel = p.strip_prefix(root).unwrap().to_string_lossy().to_string();
                    if p.is_dir() {
                        if keep.iter().any(|k| k.starts_with(&format!("{rel}/"))) {
                            clean(&p, root, keep);
                        } else {
                            let _ = std::fs::remove_dir_all(&p);
                        }
                    } else if !keep.contains(rel.as_str()) {
                        let _ = std::fs::remove_file(&p);
                    }
                }
            }
        }
        let keep: BTreeSet<&str> = files.iter().map(|f| f.0.as_str()).collect();
        if work.exists() {
            clean(work, work, &keep);
        }
        for (fi, (r, bytes)) in files.iter().enumerate() {
            let p = work.join(r);
            let data: &[u8] = if fi == patched_idx { patched.unwrap_or(bytes) } else { bytes };
            let mut f = match std::fs::OpenOptions::new().write(true).open(&p) {
                Ok(f) => f,
                Err(_) => {
                    if let Some(d) = p.parent() {
                        std::fs::create_dir_all(d).expect("mkdir work");
                    }
                    std::fs::OpenOptions::new().write(true).create(true).open(&p).expect("create work file")
                }
            };
            f.write_all(data).expect("write work file");
            f.set_len(data.len() as u64).expect("set_len work file");
        }
    }

    impl BBlock {
        fn exec(&self, i: u64, env: &mut Env, out: &mut Out, seen: &mut BTreeSet<(&'static str, u8)>) -> bool {
            let (rel, orig) = &self.plan.db.files[self.file];
            let patched: Option<Vec<u8>> = match self.cases[i as usize] {
                BCase::Identity => None,
                BCase::Subst { off, vi } => {
                    let Some(v) = subst_val(orig[off as usize], vi) else { return false };
                    let mut b = orig.clone();
                    b[off as usize] = v;
                    Some(b)
                }
                BCase::Len(l) => {
                    let mut b = orig.clone();
                    b.resize(l as usize, 0);
                    Some(b)
                }
            };
            // restore the working copy in place (no truncate/unlink of the pristine files: page
            // allocation is very expensive on the sandbox VM), remove whatever the engine added
            let work = env.scratch.join(format!("b_work_{}", self.plan.db.name));
            restore_tree(&work, &self.plan.db.files, self.file, patched.as_deref());
            let _ = rel;
            let case = || self.describe(i);
            let mut r = Rec { out, dec: &self.info.dec, kind: &self.info.kind, case: &case, seen, scratch: &env.scratch, shared: &env.shared };
            if let Some(db) = r.call("open", || Database::open(&work)) {
                for (t, pk, ix) in self.plan.tables {
                    if self.only_table.map(|o| o != *t).unwrap_or(false) {
                        continue;
                    }
                    r.call("select_all", || db.query(&format!("SELECT * FROM {t}")).map(|v| v.len()));
                    r.call("count", || db.query(&format!("SELECT COUNT(*) FROM {t}")).map(|v| v.len()));
                    r.call("pk_lookup", || db.query(pk).map(|v| v.len()));
                    r.call("index_lookup", || db.query(ix).map(|v| v.len()));
                }
                r.call("close", || db.close());
                r.inf("drop", move || drop(db));
            }
            !matches!(self.cases[i as usize], BCase::Identity)
        }
    }
    impl Block for BBlock {
        fn info(&self) -> &BlockInfo {
            &self.info
        }
        fn describe(&self, i: u64) -> Value {
            let (rel, orig) = &self.plan.db.files[self.file];
            let m = match self.cases[i as usize] {
                BCase::Identity => json!({"identity": true}),
                BCase::Subst { off, vi } => json!({"off": off, "page": off as usize / PAGE, "in_page": off as usize % PAGE, "old": orig[off as usize], "val": subst_val(orig[off as usize], vi)}),
                BCase::Len(l) => json!({"new_len": l, "old_len": orig.len()}),
            };
            json!({"part": "B", "tier": self.info.tier, "block": self.info.key, "i": i, "db": self.plan.db.name, "file": rel, "kind": self.info.kind, "mutation": m})
        }
        fn run(&self, i: u64, env: &mut Env, out: &mut Out, seen: &mut BTreeSet<(&'static str, u8)>) -> bool {
            self.exec(i, env, out, seen)
        }
    }

    pub fn blocks(ctx: &Ctx, only_key: Option<&str>) -> Vec<Box<dyn Block>> {
        let quick = ctx.quick();
        let mut v: Vec<Box<dyn Block>> = Vec::new();
        let plans = [Plan { db: seeddb::main(&ctx.scratch), tables: &seeddb::MAIN_TABLES }, Plan { db: seeddb::walcrash(&ctx.scratch), tables: &seeddb::WAL_TABLES }];
        for plan in plans {
            let plan = Rc::new(plan);
            let mut push = |v: &mut Vec<Box<dyn Block>>, file: usize, kind: &str, cases: Vec<BCase>| {
                let (rel, _) = &plan.db.files[file];
                let key = format!("B/{}/{}/{}", plan.db.name, rel, kind);
                if only_key.map(|k| k != key).unwrap_or(false) || cases.is_empty() {
                    return;
                }
                if only_key.is_none() && ctx.opt("bsel").map(|f| !key.contains(f)).unwrap_or(false) {
                    return;
                }
                let n = cases.len() as u64;
                // files root/<table>.tbd, root/<table>_<index>.idx, root/<table>_toast.tbd belong to one table
                let owner: Option<&'static str> = if quick { rel.strip_prefix("root/").and_then(|f| plan.tables.iter().map(|t| t.0).find(|t| f.starts_with(&format!("{t}.")) || f.starts_with(&format!("{t}_")))) } else { None };
                v.push(Box::new(BBlock { info: BlockInfo { key, dec: format!("db.{}", class_of(rel)), kind: kind.to_string(), n, hang_s: ctx.opt("hang_s").and_then(|v| v.parse().ok()).unwrap_or(HANG_B_S), alarm_every: 1, tier: ctx.tier.name() }, plan: plan.clone(), file, cases, only_table: owner }));
            };
            push(&mut v, 0, "identity", vec![BCase::Identity]);
            for fi in 0..plan.db.files.len() {
                let (rel, bytes) = &plan.db.files[fi];
                if quick {
                    // structurally redundant files are left to the thorough tier
                    let skip = match plan.db.name {
                        "main" => ["root/a_toast.tbd", "root/c_toast.tbd", "turdb_catalog/memory_stats.tbd"].contains(&rel.as_str()),
                        _ => !(rel.starts_with("wal/") || rel == "root/w.tbd" || rel == "turdb.catalog" || rel == "turdb.meta"),
                    };
                    if skip {
                        continue;
                    }
                }
                // the WAL-crashed database differs from the main one only by its wal/ directory and table w:
                // its system tables / meta are enumerated too (recovery runs before them)
                for (kind, offs) in regions(rel, bytes, quick) {
                    let cases: Vec<BCase> = offs.iter().flat_map(|o| (0..4u8).map(move |vi| BCase::Subst { off: *o, vi })).collect();
                    push(&mut v, fi, kind, cases);
                }
                push(&mut v, fi, "trunc", trunc_lengths(rel, bytes.len(), quick).into_iter().map(BCase::Len).collect());
            }
        }
        // small blocks first: under a time cap every (file class, region) gets explored before the
        // big cell/slot regions of the 700-row table consume the budget (stable, deterministic)
        v.sort_by_key(|b| b.info().n);
        v
    }
}

// ======================================================================
// the check
// ======================================================================
struct C23;

impl Check for C23 {
    fn specs(&self) -> Vec<Spec> {
        let mut s = Spec::new(
            "C23",
            "fault_enumeration",
            "PART A: for every pub decoder and every seed (a valid encoding built with the real encoder, one per structural shape): every single-byte substitution at every offset (all 256 values for seeds <= 160 bytes, else {00,01,7F,80,FE,FF,b^1,b^80}), every truncation length, every single-byte insertion ({00,01,7F,80,FE,FF}) and deletion at every offset (page-sized inputs: size-preserving shift variants and zeroed tails), all byte strings of length <= 2 over 256 values and length 3 over 16 values, constant/periodic strings of length 64/1024/16384; inputs end at a PROT_NONE page. PART B: for every file of a real 3-table database (secondary index, TOAST values, 2-level tree) and of a WAL-crashed database: byte substitutions {00,FF,b^1,b^80} over file headers, page headers, slot arrays, cell headers (other bytes in strides) and truncations to every page multiple and +-1, each followed by Database::open, SELECT *, COUNT(*), PK lookup, indexed lookup per table, close. A case is one mutated input; cases are pairwise distinct by construction (identity and duplicate substitutions are skipped); every case differs from a valid encoding (non-trivial).",
        );
        s.assumptions = &[
            "oracle = every call returns Ok or Err in bounded time: a panic (caught per call), abort, SIGSEGV/SIGBUS (guard page), stack overflow or hang (a case consuming more than 2 s of CPU time — or 60 s of wall time without CPU — inside its block AND 3x that in each of two re-runs alone in fresh processes) is a violation; an abort after the child grew beyond 256 MiB RSS is classified together with CPU timeouts as 'hang-runaway-cpu-or-memory' (a non-terminating loop trips whichever limit comes first); returned values are not compared",
            "children run with RLIMIT_AS = 1.5 GiB and RLIMIT_FSIZE = 1 GiB: an allocation or file growth beyond that requested by a <= 64 KiB input counts as abort / Err",
            "built with debug-assertions and overflow-checks on (workspace dev profile): arithmetic overflow panics are reported with class *-overflow",
            "two or more simultaneous byte errors are outside the bound (except zeroed tails, truncations and checksum-consistent WAL header edits)",
        ];
        s.crash_is_verdict = true;
        s.cap_quick_s = 95;
        s.cap_thorough_s = 1500;
        vec![s]
    }

    fn run(&self, ctx: &Ctx, rep: &mut Reporter) {
        quiet_env();
        let shared = std::rc::Rc::new(Shared::new());
        let mut env = Env::new(&ctx.scratch, shared.clone());
        let blocks = all_blocks(ctx, None);
        rep.bound("subst_all_256_values_up_to_len", json!(ALL_VALUES_MAX_LEN));
        rep.bound("part_a_offsets", if ctx.quick() {
            json!("quick: every offset for seeds <= 1024 bytes (file-based decoders catalog_file/wal: <= 160 bytes); larger seeds: structural regions (headers, used page areas) dense + stride 64 (subst) / 256 (other kinds); file-based decoders: header regions dense + stride 16 (<= 2 KiB) / 1024")
        } else {
            json!("thorough: every offset of every seed for every mutation kind (WAL segment seeds: frame headers and page headers dense, checksummed page payload every 16th byte)")
        });
        rep.bound("blocks", json!(blocks.len()));
        rep.bound("hang_limit_s", json!({"A": HANG_A_S, "B": HANG_B_S}));
        rep.bound("part_b_density", if ctx.quick() {
            json!("quick: files = main db without its two empty toast tables and one of the two system tables, WAL-crashed db: wal segment, table w, catalog, meta; file header fields (bytes 16..64) dense, magic every 4th, reserved every 16th; page headers dense; slot entries and cell headers (key + length varint + 8 value bytes) of the first and last cell of every page; catalog header dense + every 8th body byte and length; WAL frame headers of the first 2 and the last frame; all other bytes every 4096; x {00,FF,b^1,b^80}; after open, the queries run on the table owning the corrupted file (all tables for meta, catalog, system-table and WAL files)")
        } else {
            json!("thorough: every byte of file headers, page headers, slot arrays, cell headers (key + length varint + 24 value bytes) of every cell, catalog, every WAL frame header; all other bytes every 64; x {00,FF,b^1,b^80}")
        });
        let nb: u64 = blocks.iter().filter(|b| b.info().key.starts_with("B/")).map(|b| b.info().n).sum();
        rep.bound("part_b_case_slots", json!(nb));
        let mut by_kind: BTreeMap<String, u64> = BTreeMap::new();
        for b in blocks.iter().filter(|b| b.info().key.starts_with("B/")) {
            *by_kind.entry(format!("{}/{}", b.info().dec, b.info().kind)).or_insert(0) += b.info().n;
        }
        rep.bound("part_b_slots_by_kind", json!(by_kind));
        let mut base = 0u64;
        let mut sels = Vec::new();
        for b in &blocks {
            sels.push(Sel { m: ctx.workers as u64, r: ctx.worker as u64, s: ctx.seed, base });
            base += b.info().n;
        }
        run_group(&blocks, &sels, 0, BTreeMap::new(), ctx, rep, &shared, &mut env);
        rep.bound("enumerated_case_slots", json!(base));
        if ctx.opt("dec").is_none() && ctx.opt("part").is_none() && ctx.opt("bsel").is_none() {
            // rejections (Err) must have been exercised by every decoder family, and the whole-database part must have run
            for k in ["varint.calls_err", "key.calls_err", "record.calls_err", "jsonb.calls_err", "array.calls_err", "leaf.calls_err", "interior.calls_err", "catalog.calls_err", "table_header.calls_err", "db.table.calls_err", "db.table.calls_ok", "db.index.cases"] {
                rep.expect_nonzero(k);
            }
        }
    }

    fn replay(&self, ctx: &Ctx, case: &Value, rep: &mut Reporter) {
        quiet_env();
        // offsets (hence case indexes) depend on the tier the case was recorded in
        let mut ctx2 = ctx.clone();
        match case["tier"].as_str() {
            Some("thorough") => ctx2.tier = vcore::Tier::Thorough,
            Some("quick") => ctx2.tier = vcore::Tier::Quick,
            _ => {}
        }
        let ctx = &ctx2;
        let shared = std::rc::Rc::new(Shared::new());
        let mut env = Env::new(&ctx.scratch, shared.clone());
        let key = case["block"].as_str().unwrap_or_else(|| vcore::machinery("C23 replay: case without block key"));
        let blocks = all_blocks(ctx, Some(key));
        let b = blocks.iter().find(|b| b.info().key == key).unwrap_or_else(|| vcore::machinery(&format!("C23 replay: unknown block {key}")));
        let info = b.info();
        let mode = case["mode"].as_str().unwrap_or("single");
        let skip: Vec<u64> = case["skip"].as_array().map(|a| a.iter().filter_map(|x| x.as_u64()).collect()).unwrap_or_default();
        let bi = blocks.iter().position(|x| x.info().key == key).unwrap();
        match mode {
            "group" => {
                // fallback descriptor written with begin_case: re-run from that block on
                let all = all_blocks(ctx, None);
                let mut sels = Vec::new();
                let s0 = Sel::from_json(&case["sel"]);
                let mut base = 0u64;
                for b in &all {
                    sels.push(Sel { base, ..s0 });
                    base += b.info().n;
                }
                let from = case["from"].as_u64().unwrap_or(0) as usize;
                let mut skips = BTreeMap::new();
                if let Some(o) = case["skips"].as_object() {
                    for (k, v) in o {
                        skips.insert(k.parse::<usize>().unwrap_or(0), v.as_array().map(|a| a.iter().filter_map(|x| x.as_u64()).collect()).unwrap_or_default());
                    }
                }
                run_group(&all, &sels, from, skips, ctx, rep, &shared, &mut env);
            }
            "prefix" => {
                let i = case["i"].as_u64().unwrap_or(0);
                let sel = Sel::from_json(&case["sel"]);
                let (outs, died) = iso::run_child(&ctx.scratch, &shared, |em| {
                    shared.set_block(bi as u64);
                    let mut out = Out::default();
                    child_run_block(b.as_ref(), &Mode::Prefix { sel, upto: i, skip: &skip }, 0, &mut env, &shared, &mut out, 1, None, None);
                    em.emit(bi, &out);
                });
                for (_, o) in &outs {
                    merge_out(rep, info, o);
                }
                if let Some(d) = died {
                    rep.bulk(1, 1);
                    let sig = format!("C23/{}.{}/{}/{}-in-sequence", info.dec, d.sub, info.kind, d.how);
                    rep.violation("C23", "no-crash", &sig, || case.clone(), "call returns Ok or Err", &format!("child process died: {}", d.how));
                }
            }
            _ => {
                let i = case["i"].as_u64().unwrap_or(0);
                if i >= info.n {
                    vcore::machinery("C23 replay: case index out of range");
                }
                let (outs, died) = run_single(b.as_ref(), bi, i, ctx, &shared, &mut env);
                for (_, o) in &outs {
                    merge_out(rep, info, o);
                }
                if let Some(d) = died {
                    rep.bulk(1, 1);
                    let sig = format!("C23/{}.{}/{}/{}", info.dec, d.sub, info.kind, d.how);
                    rep.violation("C23", "no-crash", &sig, || case.clone(), "call returns Ok or Err", &format!("child process died: {}", d.how));
                }
            }
        }
    }
}

/// eyre captures (and `expect` prints) a symbolized backtrace per error when
/// RUST_BACKTRACE is set: milliseconds per Err.  Decided once per process by
/// std, so fix it before the first error is created.
fn quiet_env() {
    std::env::set_var("RUST_BACKTRACE", "0");
    std::env::set_var("RUST_LIB_BACKTRACE", "0");
    // brk/mmap/munmap are very expensive on the sandbox VM: keep freed heap, grow in big steps
    unsafe {
        libc::mallopt(libc::M_TRIM_THRESHOLD, 1 << 30);
        libc::mallopt(libc::M_TOP_PAD, 64 << 20);
        libc::mallopt(libc::M_MMAP_THRESHOLD, 1 << 20);
    }
}

fn main() {
    vcore::main(&C23)
}
