//! C33 — spilled rows round-trip through the spill format (exhaustive input enumeration).
//!
//! Subject: `turdb::sql::row_serde::RowSerde` (`serialize_row_into`, `deserialize_row_into`,
//! `row_size`) and its two users that expose a public round-trip path:
//! `sql::partition_spiller::PartitionSpiller` (Grace hash join spill, RowSerde on a file) and
//! `sql::subquery::SpillableBuffer` (subquery materialization spill of `OwnedValue` rows).
//!
//! The oracle is the identity: what was written must come back, same variant, floats compared by
//! bit pattern (any NaN is accepted for a NaN, the only tolerance).  Every buffer handed to the
//! decoder ends exactly at a PROT_NONE page (`checks::guard::GuardBuf`), so an over-read kills
//! the worker and is a verdict (`crash_is_verdict`).
//!
//! Passes
//!   rows    : every row of length 0..=3 over the value domain D (one representative + the
//!             boundary values of every `Value` variant, 72 values)           [thorough: 0..=4 over D minus the 70 KB values]
//!   seqs    : every sequence of 1..=3 rows over R (empty row, all 1-value rows, 6 mixed rows) in ONE buffer
//!             [thorough adds every pair of rows of length <= 2]
//!   trunc   : every strict prefix of the encoding of every row of length <= 2 (sampled only inside 70 KB payloads) and of 2-row buffers
//!   spiller : PartitionSpiller, 2 partitions, every sequence of 1..=3 rows over a 26-row set x 3 memory budgets
//!   osp     : SpillableBuffer, every OwnedValue row of length <= 2 alone, every sequence of 1..=3 rows over a 28-row set, x 2 limits
use checks::guard::GuardBuf;
use std::borrow::Cow;
use std::sync::OnceLock;
use turdb::sql::partition_spiller::PartitionSpiller;
use turdb::sql::row_serde::RowSerde;
use turdb::sql::subquery::{MaterializedRow, SpillableBuffer};
use turdb::types::{OwnedValue, Value};
use vcore::{json, Check, Ctx, Reporter, Spec, Value as J};

type V = Value<'static>;
const BIG: usize = 70 * 1024;

fn vname(v: &Value<'_>) -> &'static str {
    match v {
        Value::Null => "Null",
        Value::Int(_) => "Int",
        Value::Float(_) => "Float",
        Value::Text(_) => "Text",
        Value::Blob(_) => "Blob",
        Value::Vector(_) => "Vector",
        Value::Uuid(_) => "Uuid",
        Value::MacAddr(_) => "MacAddr",
        Value::Inet4(_) => "Inet4",
        Value::Inet6(_) => "Inet6",
        Value::Jsonb(_) => "Jsonb",
        Value::TimestampTz { .. } => "TimestampTz",
        Value::Interval { .. } => "Interval",
        Value::Point { .. } => "Point",
        Value::GeoBox { .. } => "GeoBox",
        Value::Circle { .. } => "Circle",
        Value::Enum { .. } => "Enum",
        Value::Decimal { .. } => "Decimal",
        Value::ToastPointer(_) => "ToastPointer",
    }
}

// domain values borrow leaked statics so that cloning a row in the harness never copies a payload
fn leak<T: ?Sized>(b: std::boxed::Box<T>) -> &'static T {
    std::boxed::Box::leak(b)
}
fn text(s: String) -> V {
    Value::Text(Cow::Borrowed(leak(s.into_boxed_str())))
}
fn bytes(b: Vec<u8>) -> Cow<'static, [u8]> {
    Cow::Borrowed(leak(b.into_boxed_slice()))
}
fn blob(b: Vec<u8>) -> V {
    Value::Blob(bytes(b))
}
fn vector(v: Vec<f32>) -> V {
    Value::Vector(Cow::Borrowed(leak(v.into_boxed_slice())))
}

/// D: (label, value); labels are "<Variant>:<what>"
fn domain() -> &'static Vec<(&'static str, V)> {
    static D: OnceLock<Vec<(&'static str, V)>> = OnceLock::new();
    D.get_or_init(|| {
        let big_text: String = (0..BIG).map(|i| (b'a' + (i % 26) as u8) as char).collect();
        let big_blob: Vec<u8> = (0..BIG).map(|i| (i * 31 % 256) as u8).collect();
        let nan_payload = f64::from_bits(0xFFF8_0000_0000_0001);
        vec![
            ("Null", Value::Null),
            ("Int:0", Value::Int(0)),
            ("Int:1", Value::Int(1)),
            ("Int:-1", Value::Int(-1)),
            ("Int:42", Value::Int(42)),
            ("Int:MIN", Value::Int(i64::MIN)),
            ("Int:MAX", Value::Int(i64::MAX)),
            ("Float:1.5", Value::Float(1.5)),
            ("Float:-1.5", Value::Float(-1.5)),
            ("Float:0.0", Value::Float(0.0)),
            ("Float:-0.0", Value::Float(-0.0)),
            ("Float:NaN", Value::Float(f64::NAN)),
            ("Float:-NaN-payload", Value::Float(nan_payload)),
            ("Float:+inf", Value::Float(f64::INFINITY)),
            ("Float:-inf", Value::Float(f64::NEG_INFINITY)),
            ("Float:MIN_POSITIVE", Value::Float(f64::MIN_POSITIVE)),
            ("Float:subnormal", Value::Float(f64::from_bits(1))),
            ("Float:MAX", Value::Float(f64::MAX)),
            ("Float:MIN", Value::Float(f64::MIN)),
            ("Text:empty", text(String::new())),
            ("Text:a", text("a".into())),
            ("Text:multibyte", text("h\u{e9}llo \u{2713} \u{1F600}\0".into())),
            ("Text:70KB", text(big_text)),
            ("Blob:empty", blob(vec![])),
            ("Blob:00", blob(vec![0])),
            ("Blob:ff0001", blob(vec![0xFF, 0x00, 0x01])),
            ("Blob:70KB", blob(big_blob.clone())),
            ("Vector:empty", vector(vec![])),
            ("Vector:1", vector(vec![1.0])),
            ("Vector:special", vector(vec![f32::NAN, -0.0, f32::INFINITY, f32::NEG_INFINITY, f32::MIN, f32::MAX, f32::from_bits(1), f32::from_bits(0xFFC0_0001)])),
            ("Vector:1536", vector((0..1536).map(|i| i as f32 * 0.5 - 100.0).collect())),
            ("Uuid:00", Value::Uuid([0; 16])),
            ("Uuid:ff", Value::Uuid([0xFF; 16])),
            ("Uuid:typical", Value::Uuid([0x00, 0x11, 0x22, 0x33, 0x44, 0x55, 0x66, 0x77, 0x88, 0x99, 0xAA, 0xBB, 0xCC, 0xDD, 0xEE, 0x01])),
            ("MacAddr:00", Value::MacAddr([0; 6])),
            ("MacAddr:ff", Value::MacAddr([0xFF; 6])),
            ("MacAddr:typical", Value::MacAddr([0xDE, 0xAD, 0xBE, 0xEF, 0x00, 0x01])),
            ("Inet4:00", Value::Inet4([0; 4])),
            ("Inet4:ff", Value::Inet4([0xFF; 4])),
            ("Inet4:typical", Value::Inet4([192, 168, 1, 7])),
            ("Inet6:00", Value::Inet6([0; 16])),
            ("Inet6:ff", Value::Inet6([0xFF; 16])),
            ("Inet6:loopback", Value::Inet6([0, 0, 0, 0, 0, 0, 0, 0, 0, 0, 0, 0, 0, 0, 0, 1])),
            ("Jsonb:empty", Value::Jsonb(bytes(vec![]))),
            ("Jsonb:typical", Value::Jsonb(bytes(vec![0x02, 0x00, 0x00, 0x20, 0x61, 0x00, 0x01, 0x02, 0xFE]))),
            ("Jsonb:70KB", Value::Jsonb(bytes(big_blob))),
            ("TimestampTz:zero", Value::TimestampTz { micros: 0, offset_secs: 0 }),
            ("TimestampTz:MIN", Value::TimestampTz { micros: i64::MIN, offset_secs: i32::MIN }),
            ("TimestampTz:MAX", Value::TimestampTz { micros: i64::MAX, offset_secs: i32::MAX }),
            ("TimestampTz:typical", Value::TimestampTz { micros: 1_700_000_000_000_000, offset_secs: -3600 }),
            ("Interval:zero", Value::Interval { micros: 0, days: 0, months: 0 }),
            ("Interval:MIN", Value::Interval { micros: i64::MIN, days: i32::MIN, months: i32::MIN }),
            ("Interval:MAX", Value::Interval { micros: i64::MAX, days: i32::MAX, months: i32::MAX }),
            ("Interval:typical", Value::Interval { micros: 3_600_000_000, days: -5, months: 14 }),
            ("Point:zero", Value::Point { x: 0.0, y: 0.0 }),
            ("Point:-0.0,NaN", Value::Point { x: -0.0, y: f64::NAN }),
            ("Point:inf,-inf", Value::Point { x: f64::INFINITY, y: f64::NEG_INFINITY }),
            ("Point:typical", Value::Point { x: 1.5, y: -2.5 }),
            ("GeoBox:typical", Value::GeoBox { low: (0.5, -1.0), high: (10.25, 1e300) }),
            ("GeoBox:special", Value::GeoBox { low: (-0.0, f64::NAN), high: (f64::MIN, f64::MAX) }),
            ("Circle:typical", Value::Circle { center: (1.0, 2.0), radius: 3.5 }),
            ("Circle:special", Value::Circle { center: (-0.0, f64::NEG_INFINITY), radius: f64::from_bits(1) }),
            ("Enum:0", Value::Enum { type_id: 0, ordinal: 0 }),
            ("Enum:MAX", Value::Enum { type_id: u16::MAX, ordinal: u16::MAX }),
            ("Enum:typical", Value::Enum { type_id: 7, ordinal: 3 }),
            ("Decimal:0", Value::Decimal { digits: 0, scale: 0 }),
            ("Decimal:MIN", Value::Decimal { digits: i128::MIN, scale: i16::MIN }),
            ("Decimal:MAX", Value::Decimal { digits: i128::MAX, scale: i16::MAX }),
            ("Decimal:typical", Value::Decimal { digits: 1_234_567, scale: 2 }),
            ("Decimal:negative", Value::Decimal { digits: -1_234_567, scale: 2 }),
            ("ToastPointer:empty", Value::ToastPointer(bytes(vec![]))),
            ("ToastPointer:17", Value::ToastPointer(bytes({
                let mut p = vec![0x11u8; 17];
                p[0] = 0xFE;
                p
            }))),
        ]
    })
}

fn is_big(v: &V) -> bool {
    match v {
        Value::Text(s) => s.len() >= BIG,
        Value::Blob(b) | Value::Jsonb(b) => b.len() >= BIG,
        _ => false,
    }
}

fn fb(a: f64, b: f64, nan_canon: &mut bool) -> bool {
    if a.is_nan() {
        if b.is_nan() && a.to_bits() != b.to_bits() {
            *nan_canon = true;
        }
        return b.is_nan();
    }
    a.to_bits() == b.to_bits()
}

/// strict equality of one value: Err(aspect)
fn veq(w: &Value<'_>, g: &Value<'_>, nan_canon: &mut bool) -> Result<(), &'static str> {
    if std::mem::discriminant(w) != std::mem::discriminant(g) {
        return Err("type-changed");
    }
    let same = match (w, g) {
        (Value::Float(a), Value::Float(b)) => fb(*a, *b, nan_canon),
        (Value::Vector(a), Value::Vector(b)) => a.len() == b.len() && a.iter().zip(b.iter()).all(|(x, y)| x.to_bits() == y.to_bits()),
        (Value::Point { x, y }, Value::Point { x: a, y: b }) => fb(*x, *a, nan_canon) && fb(*y, *b, nan_canon),
        (Value::GeoBox { low, high }, Value::GeoBox { low: l, high: h }) => fb(low.0, l.0, nan_canon) && fb(low.1, l.1, nan_canon) && fb(high.0, h.0, nan_canon) && fb(high.1, h.1, nan_canon),
        (Value::Circle { center, radius }, Value::Circle { center: c, radius: r }) => fb(center.0, c.0, nan_canon) && fb(center.1, c.1, nan_canon) && fb(*radius, *r, nan_canon),
        (a, b) => a == b,
    };
    if same {
        Ok(())
    } else {
        Err("value-changed")
    }
}

fn showv(v: &Value<'_>) -> String {
    let s = match v {
        Value::Float(f) => format!("Float({f:?} bits={:#018x})", f.to_bits()),
        other => format!("{other:?}"),
    };
    vcore::util::clip(&s, 120)
}

/// decode one row at `*off`; panics are caught
fn de(data: &[u8], off: &mut usize) -> Result<Result<Vec<V>, String>, String> {
    vcore::catch(|| {
        let mut out = Default::default();
        match RowSerde::deserialize_row_into(data, off, &mut out) {
            Ok(()) => Ok(out.into_iter().collect::<Vec<V>>()),
            Err(e) => Err(e.to_string()),
        }
    })
}

struct W {
    guard: GuardBuf,
    enc: Vec<u8>,
}

struct Viol {
    oracle: &'static str,
    sig: String,
    expected: String,
    observed: String,
}
fn push(out: &mut Vec<Viol>, oracle: &'static str, variant: &str, aspect: &str, expected: String, observed: String) {
    let sig = format!("C33/{oracle}/{variant}/{aspect}");
    if !out.iter().any(|v| v.sig == sig) {
        out.push(Viol { oracle, sig, expected, observed });
    }
}

/// compare a decoded row with the written one; blames the first differing column's variant
fn cmp_rows(oracle: &'static str, pre: &str, want: &[&V], got: &[V], out: &mut Vec<Viol>, rep: &mut Reporter) {
    if want.len() != got.len() {
        push(out, oracle, "row", &format!("{pre}row-length-changed"), want.len().to_string(), got.len().to_string());
        return;
    }
    let mut canon = false;
    for (w, g) in want.iter().zip(got) {
        if let Err(a) = veq(w, g, &mut canon) {
            push(out, oracle, vname(w), &format!("{pre}{a}"), showv(w), showv(g));
        }
    }
    if canon {
        rep.count("nan_payload_canonicalized", 1);
    }
}

fn row_size(row: &[V]) -> usize {
    RowSerde::row_size(row)
}

/// size oracle for one row: row_size == bytes appended; blames the first value whose own size is off
fn size_check(row: &[&V], appended: usize, out: &mut Vec<Viol>) {
    let owned: Vec<V> = row.iter().map(|v| (*v).clone()).collect();
    let computed = match vcore::catch(|| row_size(&owned)) {
        Ok(c) => c,
        Err(p) => {
            push(out, "size", "row", "row_size-panic", "a size".into(), p);
            return;
        }
    };
    if computed == appended {
        return;
    }
    for v in row {
        let one = [(*v).clone()];
        let mut b = Vec::new();
        RowSerde::serialize_row_into(&one, &mut b);
        let c1 = row_size(&one);
        if c1 != b.len() {
            push(out, "size", vname(v), "size-mismatch", format!("row_size = bytes appended = {}", b.len()), format!("row_size = {c1}"));
            return;
        }
    }
    push(out, "size", "row", "size-mismatch", format!("row_size = bytes appended = {appended}"), format!("row_size = {computed}"));
}

/// pass rows: one row, serialized after a 3-byte prefix, decoded from a guarded copy
fn check_row(w: &mut W, row: &[&V], rep: &mut Reporter) -> Vec<Viol> {
    let mut out = Vec::new();
    let owned: Vec<V> = row.iter().map(|v| (*v).clone()).collect();
    w.enc.clear();
    w.enc.extend_from_slice(&[0xEE, 0xEE, 0xEE]);
    if let Err(p) = vcore::catch(|| RowSerde::serialize_row_into(&owned, &mut w.enc)) {
        push(&mut out, "roundtrip", row.first().map(|v| vname(v)).unwrap_or("row"), "serialize-panic", "bytes".into(), p);
        return out;
    }
    if w.enc[..3] != [0xEE, 0xEE, 0xEE] {
        push(&mut out, "roundtrip", "row", "serialize-overwrote-existing-bytes", "append only".into(), vcore::util::hex(&w.enc[..3]));
    }
    size_check(row, w.enc.len() - 3, &mut out);
    let data = w.guard.place(&w.enc);
    let mut off = 3usize;
    match de(data, &mut off) {
        Err(p) => push(&mut out, "roundtrip", row.first().map(|v| vname(v)).unwrap_or("row"), "decode-panic", "Ok(row)".into(), p),
        Ok(Err(e)) => push(&mut out, "roundtrip", row.first().map(|v| vname(v)).unwrap_or("row"), "decode-error", "Ok(row)".into(), e),
        Ok(Ok(got)) => {
            if off != data.len() {
                push(&mut out, "roundtrip", "row", "offset-not-at-end", data.len().to_string(), off.to_string());
            }
            cmp_rows("roundtrip", "", row, &got, &mut out, rep);
        }
    }
    out
}

/// pass seqs: several rows appended to ONE buffer decode in order, each advancing by its size
fn check_seq(w: &mut W, rows: &[&Vec<&'static V>], rep: &mut Reporter) -> Vec<Viol> {
    let mut out = Vec::new();
    w.enc.clear();
    let mut ends = Vec::new();
    for r in rows {
        let owned: Vec<V> = r.iter().map(|v| (*v).clone()).collect();
        let before = w.enc.len();
        RowSerde::serialize_row_into(&owned, &mut w.enc);
        size_check(r, w.enc.len() - before, &mut out);
        ends.push(w.enc.len());
    }
    let data = w.guard.place(&w.enc);
    let mut off = 0usize;
    for (i, r) in rows.iter().enumerate() {
        let pre = format!("row{}of{}-", i + 1, rows.len());
        match de(data, &mut off) {
            Err(p) => {
                push(&mut out, "sequence", r.first().map(|v| vname(v)).unwrap_or("row"), &format!("{pre}decode-panic"), "Ok(row)".into(), p);
                return out;
            }
            Ok(Err(e)) => {
                push(&mut out, "sequence", r.first().map(|v| vname(v)).unwrap_or("row"), &format!("{pre}decode-error"), "Ok(row)".into(), e);
                return out;
            }
            Ok(Ok(got)) => {
                cmp_rows("sequence", "", r, &got, &mut out, rep);
                if off != ends[i] {
                    push(&mut out, "sequence", "row", &format!("{pre}offset-mismatch"), ends[i].to_string(), off.to_string());
                    return out;
                }
            }
        }
    }
    // nothing after the last row
    match de(data, &mut off) {
        Ok(Err(_)) => {}
        Ok(Ok(g)) => push(&mut out, "sequence", "row", "row-decoded-past-end-of-buffer", "Err".into(), format!("Ok({} values)", g.len())),
        Err(p) => push(&mut out, "sequence", "row", "panic-at-end-of-buffer", "Err".into(), p),
    }
    out
}

/// truncation lengths to try for an encoding of `len` bytes whose rows contain a 70 KB payload or not
fn cuts(len: usize, big: bool) -> Vec<usize> {
    if !big {
        return (0..len).collect();
    }
    let mut v: Vec<usize> = (0..64.min(len)).collect();
    v.extend(len.saturating_sub(64)..len);
    v.extend((1..=16).map(|i| len * i / 17));
    // around the payload boundaries of a second 70 KB value
    v.extend((BIG.saturating_sub(8)..BIG + 24).filter(|x| *x < len));
    v.sort();
    v.dedup();
    v
}

/// pass trunc: every strict prefix of a buffer of `rows` is rejected; complete leading rows still decode
fn check_trunc(w: &mut W, rows: &[&Vec<&'static V>], rep: &mut Reporter) -> Vec<Viol> {
    let mut out = Vec::new();
    w.enc.clear();
    let mut ends = Vec::new();
    for r in rows {
        let owned: Vec<V> = r.iter().map(|v| (*v).clone()).collect();
        RowSerde::serialize_row_into(&owned, &mut w.enc);
        ends.push(w.enc.len());
    }
    let big = rows.iter().any(|r| r.iter().any(|v| is_big(v)));
    let enc = std::mem::take(&mut w.enc);
    let blame = |ri: usize| rows[ri].first().map(|v| vname(v)).unwrap_or("row");
    for t in cuts(enc.len(), big) {
        let data = w.guard.place(&enc[..t]);
        let mut off = 0usize;
        rep.count("truncations", 1);
        for (i, r) in rows.iter().enumerate() {
            let complete = ends[i] <= t;
            match de(data, &mut off) {
                Err(p) => {
                    push(&mut out, "truncation", blame(i), "panic", "Err".into(), p);
                    break;
                }
                Ok(Ok(got)) => {
                    if complete {
                        cmp_rows("truncation", "complete-leading-row-", r, &got, &mut out, rep);
                    } else {
                        push(&mut out, "truncation", blame(i), "truncated-row-accepted", format!("Err for {t} of {} bytes", ends[i]), format!("Ok({} values)", got.len()));
                        break;
                    }
                }
                Ok(Err(e)) => {
                    if complete {
                        push(&mut out, "truncation", blame(i), "complete-leading-row-rejected", "Ok(row)".into(), e);
                    } else {
                        rep.count("truncations_rejected", 1);
                        rep.outcome(&format!("trunc-err:{}", vcore::util::clip(&e, 60)));
                    }
                    break;
                }
            }
        }
    }
    w.enc = enc;
    out
}

// ---- PartitionSpiller ------------------------------------------------------------------------
/// rows[j] goes to partition j % 2; budget mode 0 = spill on the first row, 1 = the first row of
/// each partition stays in memory and the next one spills it, 2 = nothing spills
fn check_spiller(dir: &std::path::Path, qid: u64, rows: &[&Vec<&'static V>], mode: u8, rep: &mut Reporter) -> Vec<Viol> {
    let mut out = Vec::new();
    let first = rows.first().map(|r| r.iter().map(|v| (*v).clone()).collect::<Vec<V>>()).unwrap_or_default();
    let budget = match mode {
        0 => 0,
        1 => 2 * rows.iter().map(|r| RowSerde::row_size(&r.iter().map(|v| (*v).clone()).collect::<Vec<V>>())).max().unwrap_or(0).max(RowSerde::row_size(&first)),
        _ => usize::MAX / 4,
    };
    let r = vcore::catch(|| -> Result<(), String> {
        let mut sp = PartitionSpiller::new(dir.to_path_buf(), 2, budget, qid, 'L').map_err(|e| format!("new: {e}"))?;
        for (j, r) in rows.iter().enumerate() {
            sp.write_row(j % 2, r.iter().map(|v| (*v).clone()).collect()).map_err(|e| format!("write_row: {e}"))?;
        }
        for p in 0..2usize {
            let want: Vec<&&Vec<&'static V>> = rows.iter().enumerate().filter(|(j, _)| j % 2 == p).map(|(_, r)| r).collect();
            if sp.partition_is_spilled(p) {
                rep.count("spiller_partitions_spilled", 1);
                if want.len() > 1 {
                    rep.count("spiller_rows_appended_after_spill", (want.len() - 1) as u64);
                }
            } else if !want.is_empty() {
                rep.count("spiller_partitions_in_memory", 1);
            }
            if sp.partition_row_count(p) != want.len() {
                push(&mut out, "spiller", "row", "row-count-wrong", want.len().to_string(), sp.partition_row_count(p).to_string());
            }
            sp.start_read(p).map_err(|e| format!("start_read: {e}"))?;
            for (i, w) in want.iter().enumerate() {
                match sp.read_next() {
                    Err(e) => {
                        push(&mut out, "spiller", w.first().map(|v| vname(v)).unwrap_or("row"), "read-error", "Ok(Some(row))".into(), e.to_string());
                        break;
                    }
                    Ok(None) => {
                        push(&mut out, "spiller", "row", "row-lost", format!("row {i} of partition {p}"), "None".into());
                        break;
                    }
                    Ok(Some(got)) => {
                        let got: Vec<V> = got.to_vec();
                        cmp_rows("spiller", "", w, &got, &mut out, rep);
                    }
                }
            }
            match sp.read_next() {
                Ok(None) => {}
                Ok(Some(g)) => push(&mut out, "spiller", "row", "extra-row", "None".into(), format!("{} values", g.len())),
                Err(e) => push(&mut out, "spiller", "row", "error-at-end", "None".into(), e.to_string()),
            }
            sp.end_read();
        }
        sp.cleanup().map_err(|e| format!("cleanup: {e}"))?;
        Ok(())
    });
    match r {
        Ok(Ok(())) => {}
        Ok(Err(e)) => push(&mut out, "spiller", "row", "api-error", "Ok".into(), e),
        Err(p) => push(&mut out, "spiller", rows.first().and_then(|r| r.first()).map(|v| vname(v)).unwrap_or("row"), "panic", "Ok".into(), p),
    }
    out
}

// ---- SpillableBuffer (OwnedValue rows) --------------------------------------------------------
fn oname(v: &OwnedValue) -> &'static str {
    match v {
        OwnedValue::Null => "Null",
        OwnedValue::Bool(_) => "Bool",
        OwnedValue::Int(_) => "Int",
        OwnedValue::Float(_) => "Float",
        OwnedValue::Text(_) => "Text",
        OwnedValue::Blob(_) => "Blob",
        OwnedValue::Vector(_) => "Vector",
        OwnedValue::Date(_) => "Date",
        OwnedValue::Time(_) => "Time",
        OwnedValue::Timestamp(_) => "Timestamp",
        OwnedValue::TimestampTz(..) => "TimestampTz",
        OwnedValue::Uuid(_) => "Uuid",
        OwnedValue::MacAddr(_) => "MacAddr",
        OwnedValue::Inet4(_) => "Inet4",
        OwnedValue::Inet6(_) => "Inet6",
        OwnedValue::Interval(..) => "Interval",
        OwnedValue::Point(..) => "Point",
        OwnedValue::Box(..) => "Box",
        OwnedValue::Circle(..) => "Circle",
        OwnedValue::Jsonb(_) => "Jsonb",
        OwnedValue::Decimal(..) => "Decimal",
        OwnedValue::Enum(..) => "Enum",
        OwnedValue::ToastPointer(_) => "ToastPointer",
    }
}

fn odomain() -> &'static Vec<(String, OwnedValue)> {
    static D: OnceLock<Vec<(String, OwnedValue)>> = OnceLock::new();
    D.get_or_init(|| {
        let mut v: Vec<(String, OwnedValue)> = domain().iter().map(|(l, x)| (l.to_string(), OwnedValue::from(x))).collect();
        for (l, x) in [
            ("Bool:false", OwnedValue::Bool(false)),
            ("Bool:true", OwnedValue::Bool(true)),
            ("Date:MIN", OwnedValue::Date(i32::MIN)),
            ("Date:MAX", OwnedValue::Date(i32::MAX)),
            ("Date:typical", OwnedValue::Date(19_737)),
            ("Time:MIN", OwnedValue::Time(i64::MIN)),
            ("Time:MAX", OwnedValue::Time(i64::MAX)),
            ("Time:typical", OwnedValue::Time(43_200_000_000)),
            ("Timestamp:MIN", OwnedValue::Timestamp(i64::MIN)),
            ("Timestamp:MAX", OwnedValue::Timestamp(i64::MAX)),
            ("Timestamp:typical", OwnedValue::Timestamp(1_700_000_000_000_000)),
        ] {
            v.push((l.to_string(), x));
        }
        v
    })
}

fn oeq(w: &OwnedValue, g: &OwnedValue) -> Result<(), &'static str> {
    let mut c = false;
    match (w, g) {
        (OwnedValue::Bool(a), OwnedValue::Bool(b)) => return if a == b { Ok(()) } else { Err("value-changed") },
        (OwnedValue::Date(a), OwnedValue::Date(b)) => return if a == b { Ok(()) } else { Err("value-changed") },
        (OwnedValue::Time(a), OwnedValue::Time(b)) | (OwnedValue::Timestamp(a), OwnedValue::Timestamp(b)) if std::mem::discriminant(w) == std::mem::discriminant(g) => return if a == b { Ok(()) } else { Err("value-changed") },
        _ => {}
    }
    if std::mem::discriminant(w) != std::mem::discriminant(g) {
        return Err("type-changed");
    }
    // same variant and not Bool/Date/Time/Timestamp: compare through the borrowed Value form
    veq(&w.to_value(), &g.to_value(), &mut c)
}

fn check_osp(rows: &[Vec<&'static OwnedValue>], limit: usize, rep: &mut Reporter) -> Vec<Viol> {
    let mut out = Vec::new();
    let r = vcore::catch(|| -> Result<Vec<MaterializedRow>, String> {
        let mut sb = SpillableBuffer::new(limit);
        for r in rows {
            sb.push(MaterializedRow::new(r.iter().map(|v| (*v).clone()).collect())).map_err(|e| format!("push: {e}"))?;
        }
        if sb.is_spilled() {
            rep.count("osp_spilled", 1);
        } else {
            rep.count("osp_in_memory", 1);
        }
        if sb.row_count() != rows.len() {
            return Err(format!("row_count {} != {}", sb.row_count(), rows.len()));
        }
        sb.into_vec().map_err(|e| format!("into_vec: {e}"))
    });
    match r {
        Err(p) => push(&mut out, "subquery-spill", rows.first().and_then(|r| r.first()).map(|v| oname(v)).unwrap_or("row"), "panic", "Ok(rows)".into(), p),
        Ok(Err(e)) => push(&mut out, "subquery-spill", rows.first().and_then(|r| r.first()).map(|v| oname(v)).unwrap_or("row"), "api-error", "Ok(rows)".into(), e),
        Ok(Ok(got)) => {
            if got.len() != rows.len() {
                push(&mut out, "subquery-spill", "row", "row-count-changed", rows.len().to_string(), got.len().to_string());
                return out;
            }
            for (w, g) in rows.iter().zip(&got) {
                if w.len() != g.values.len() {
                    push(&mut out, "subquery-spill", "row", "row-length-changed", w.len().to_string(), g.values.len().to_string());
                    continue;
                }
                for (a, b) in w.iter().zip(&g.values) {
                    if let Err(asp) = oeq(a, b) {
                        push(&mut out, "subquery-spill", oname(a), asp, vcore::util::clip(&format!("{a:?}"), 120), vcore::util::clip(&format!("{b:?}"), 120));
                    }
                }
            }
        }
    }
    out
}

// ---- row sets ---------------------------------------------------------------------------------
fn by_label(l: &str) -> &'static V {
    &domain().iter().find(|(x, _)| *x == l).unwrap_or_else(|| panic!("no domain value {l}")).1
}

/// R: empty row, every 1-value row, 6 mixed rows
fn seq_rows() -> &'static Vec<Vec<&'static V>> {
    static R: OnceLock<Vec<Vec<&'static V>>> = OnceLock::new();
    R.get_or_init(|| {
        let mut r: Vec<Vec<&'static V>> = vec![vec![]];
        r.extend(domain().iter().map(|(_, v)| vec![v]));
        for labels in [
            vec!["Int:1", "Text:a", "Null"],
            vec!["Float:1.5", "Blob:ff0001", "Vector:special"],
            vec!["Null", "Null"],
            vec!["Text:70KB", "Int:MIN"],
            vec!["Uuid:typical", "Decimal:negative", "Jsonb:typical"],
            vec!["Text:empty", "Blob:empty", "Vector:empty"],
        ] {
            r.push(labels.into_iter().map(by_label).collect());
        }
        r
    })
}

/// spiller rows: one representative per variant + a few boundaries + mixed rows
fn spill_rows() -> Vec<Vec<&'static V>> {
    let mut r: Vec<Vec<&'static V>> = vec![vec![]];
    for l in [
        "Null", "Int:0", "Int:MIN", "Float:1.5", "Float:0.0", "Float:NaN", "Text:empty", "Text:multibyte", "Blob:ff0001", "Vector:special",
        "Uuid:typical", "MacAddr:typical", "Inet4:typical", "Inet6:loopback", "Jsonb:typical", "TimestampTz:MIN", "Interval:typical",
        "Point:-0.0,NaN", "GeoBox:typical", "Circle:typical", "Enum:MAX", "Decimal:MIN", "ToastPointer:17", "Text:70KB",
    ] {
        r.push(vec![by_label(l)]);
    }
    r.push(vec![by_label("Int:1"), by_label("Text:a"), by_label("Null")]);
    r
}

fn osp_seq_rows() -> Vec<Vec<&'static OwnedValue>> {
    let d = odomain();
    let get = |l: &str| &d.iter().find(|(x, _)| x == l).unwrap_or_else(|| panic!("no odomain value {l}")).1;
    let mut r: Vec<Vec<&'static OwnedValue>> = vec![vec![]];
    for l in [
        "Null", "Bool:true", "Int:0", "Int:MIN", "Float:0.0", "Float:-0.0", "Float:NaN", "Text:empty", "Text:multibyte", "Blob:ff0001",
        "Vector:special", "Date:MIN", "Time:typical", "Timestamp:MAX", "TimestampTz:MIN", "Uuid:typical", "MacAddr:typical", "Inet4:typical",
        "Inet6:loopback", "Interval:typical", "Point:-0.0,NaN", "GeoBox:typical", "Circle:typical", "Jsonb:typical", "Decimal:MIN", "Enum:MAX",
        "ToastPointer:17",
    ] {
        r.push(vec![get(l)]);
    }
    r
}

fn labels_of(row: &[&V]) -> Vec<&'static str> {
    row.iter().map(|v| domain().iter().find(|(_, x)| std::ptr::eq(x, *v)).map(|(l, _)| *l).unwrap_or("?")).collect()
}

fn report(viols: Vec<Viol>, case: impl Fn() -> J, rep: &mut Reporter) {
    for v in viols {
        rep.outcome(&v.sig);
        rep.violation("C33", v.oracle, &v.sig, &case, &v.expected, &v.observed);
    }
}

fn idxs(v: &J) -> Vec<usize> {
    v.as_array().map(|a| a.iter().map(|x| x.as_u64().unwrap_or(0) as usize).collect()).unwrap_or_default()
}

struct C33;

impl C33 {
    fn rows_pass(&self, ctx: &Ctx, w: &mut W, rep: &mut Reporter, idx: &mut u64, maxlen: usize, skip_big: bool) -> bool {
        let d: Vec<(usize, &'static V)> = domain().iter().enumerate().filter(|(_, (_, v))| !(skip_big && is_big(v))).map(|(i, (_, v))| (i, v)).collect();
        // unit of work: a prefix of length len-1 (all rows sharing it), shortest rows first
        for len in 0..=maxlen {
            let plen = len.saturating_sub(1);
            let nprefix = d.len().pow(plen as u32);
            for code in 0..nprefix {
                *idx += 1;
                if !ctx.mine(*idx) {
                    continue;
                }
                let mut x = code;
                let mut pre = vec![0usize; plen];
                for p in (0..plen).rev() {
                    pre[p] = x % d.len();
                    x /= d.len();
                }
                rep.begin_case(&json!({"pass": "rows", "prefix": pre.iter().map(|i| d[*i].0).collect::<Vec<_>>(), "len": len}).to_string());
                let lasts: Vec<Option<usize>> = if len == 0 { vec![None] } else { (0..d.len()).map(Some).collect() };
                let mut n = 0u64;
                for last in lasts {
                    let mut ids: Vec<usize> = pre.iter().map(|i| d[*i].0).collect();
                    if let Some(l) = last {
                        ids.push(d[l].0);
                    }
                    let row: Vec<&V> = ids.iter().map(|i| &domain()[*i].1).collect();
                    let v = check_row(w, &row, rep);
                    n += 1;
                    if row.iter().any(|v| is_big(v)) {
                        rep.count("rows_with_70KB_value", 1);
                    }
                    if v.is_empty() {
                        rep.outcome("row:roundtrip-ok");
                    } else {
                        let lab = labels_of(&row);
                        report(v, || json!({"pass": "rows", "row": ids, "labels": lab}), rep);
                    }
                }
                rep.bulk(n, if len == 0 { 0 } else { n });
                rep.count("rows", n);
                if code % 256 == 0 && ctx.expired() {
                    rep.capped("deadline in pass rows");
                    return false;
                }
            }
        }
        true
    }
}

impl Check for C33 {
    fn specs(&self) -> Vec<Spec> {
        let mut s = Spec::new(
            "C33",
            "exploration",
            "a case is one buffer of rows pushed through the real serializer and read back from a guard-paged copy. rows: every row of length 0..=3 over D = 72 values (one representative + boundary values of all 19 Value variants: ints incl. MIN/MAX/0, floats incl. +-0.0/NaN/NaN-payload/+-inf/subnormal/MIN/MAX by bits, empty and 70 KB text/blob/jsonb, vectors incl. 1536 dims and special floats, uuid/mac/inet, timestamptz/interval extremes, geometric values with NaN/-0.0, enum, decimal i128 extremes, toast pointer) = 378,505 rows (thorough: length 0..=4 over the 69 small values = 23 M); seqs: every sequence of 1..=3 rows over R (79 rows: empty, every 1-value row, 6 mixed) in one buffer (thorough: + every pair of rows of length <= 2 over the small values); trunc: every strict prefix (sampled inside 70 KB payloads) of every row of length <= 2 and of every 2-row buffer over R; spiller: PartitionSpiller with 2 partitions, every sequence of 1..=3 rows over 26 rows x 3 memory budgets (spill at once / after one row / never); osp: SpillableBuffer, every OwnedValue row of length <= 2 over 83 values and every sequence of 1..=3 rows over 28 rows x 2 memory limits. Distinct by construction; non-trivial = at least one value.",
        );
        s.assumptions = &[
            "identity oracle: floats and vector elements are compared by bit pattern, except that any NaN is accepted for a NaN (payload canonicalisation is counted, not flagged)",
            "every decoder input ends at a PROT_NONE page; a worker death is attributed to the unit recorded with begin_case",
            "a strict prefix of one encoded row can never be a valid row (length-prefixed, count-prefixed format), so Ok on a truncated row is a violation",
        ];
        s.cap_quick_s = 100;
        s.cap_thorough_s = 1500;
        s.crash_is_verdict = true;
        vec![s]
    }

    fn run(&self, ctx: &Ctx, rep: &mut Reporter) {
        for n in ["rows", "rows_with_70KB_value", "sequences", "truncations", "truncations_rejected", "spiller_partitions_spilled", "spiller_rows_appended_after_spill", "spiller_partitions_in_memory", "osp_spilled", "osp_in_memory", "nan_payload_canonicalized"] {
            rep.expect_nonzero(n);
        }
        std::env::set_var("TMPDIR", &ctx.scratch); // SpillableBuffer spills into std::env::temp_dir()
        let mut w = W { guard: GuardBuf::new(512 * 1024), enc: Vec::with_capacity(256 * 1024) };
        let only = ctx.opt("pass");
        let on = |p: &str| only.map(|o| o == p).unwrap_or(true);
        let mut idx = 0u64;
        rep.bound("domain_values", json!(domain().len()));
        rep.bound("value_labels", json!(domain().iter().map(|(l, _)| *l).collect::<Vec<_>>()));

        // ---- rows -----------------------------------------------------------------------------
        if on("rows") {
            rep.bound("rows_max_len_full_domain", json!(3));
            if !self.rows_pass(ctx, &mut w, rep, &mut idx, 3, false) {
                return;
            }
            rep.sample(|| json!({"pass": "rows", "row": [5, 22, 10], "labels": ["Int:MIN", "Text:70KB", "Float:-0.0"]}));
        }
        // ---- seqs -----------------------------------------------------------------------------
        let r = seq_rows();
        if on("seqs") {
            rep.bound("seq_row_set", json!(r.len()));
            for len in 1..=3usize {
                let nprefix = r.len().pow(len as u32 - 1);
                for code in 0..nprefix {
                    idx += 1;
                    if !ctx.mine(idx) {
                        continue;
                    }
                    let mut x = code;
                    let mut pre = vec![0usize; len - 1];
                    for p in (0..len - 1).rev() {
                        pre[p] = x % r.len();
                        x /= r.len();
                    }
                    rep.begin_case(&json!({"pass": "seqs", "prefix": pre, "len": len}).to_string());
                    for last in 0..r.len() {
                        let mut ids = pre.clone();
                        ids.push(last);
                        let rows: Vec<&Vec<&'static V>> = ids.iter().map(|i| &r[*i]).collect();
                        let v = check_seq(&mut w, &rows, rep);
                        if v.is_empty() {
                            rep.outcome("seq:in-order-ok");
                        } else {
                            let lab: Vec<Vec<&str>> = rows.iter().map(|r| labels_of(r)).collect();
                            report(v, || json!({"pass": "seqs", "rows": ids, "labels": lab}), rep);
                        }
                    }
                    rep.bulk(r.len() as u64, r.len() as u64);
                    rep.count("sequences", r.len() as u64);
                    if code % 64 == 0 && ctx.expired() {
                        rep.capped("deadline in pass seqs");
                        return;
                    }
                }
            }
        }
        // ---- trunc ----------------------------------------------------------------------------
        if on("trunc") {
            // (a) every row of length <= 2 over D
            let d = domain();
            let mut rows2: Vec<Vec<usize>> = vec![vec![]];
            rows2.extend((0..d.len()).map(|i| vec![i]));
            for i in 0..d.len() {
                for j in 0..d.len() {
                    rows2.push(vec![i, j]);
                }
            }
            for ids in rows2 {
                idx += 1;
                if !ctx.mine(idx) {
                    continue;
                }
                rep.begin_case(&json!({"pass": "trunc", "row": ids}).to_string());
                let row: Vec<&'static V> = ids.iter().map(|i| &d[*i].1).collect();
                let v = check_trunc(&mut w, &[&row], rep);
                rep.bulk(1, 1);
                if !v.is_empty() {
                    let lab = labels_of(&row);
                    report(v, || json!({"pass": "trunc", "row": ids, "labels": lab}), rep);
                }
            }
            // (b) every 2-row buffer over R
            for a in 0..r.len() {
                for b in 0..r.len() {
                    idx += 1;
                    if !ctx.mine(idx) {
                        continue;
                    }
                    rep.begin_case(&json!({"pass": "trunc", "rows": [a, b]}).to_string());
                    let v = check_trunc(&mut w, &[&r[a], &r[b]], rep);
                    rep.bulk(1, 1);
                    if !v.is_empty() {
                        let lab = vec![labels_of(&r[a]), labels_of(&r[b])];
                        report(v, || json!({"pass": "trunc", "rows": [a, b], "labels": lab}), rep);
                    }
                }
                if ctx.expired() {
                    rep.capped("deadline in pass trunc");
                    return;
                }
            }
        }
        // ---- spiller --------------------------------------------------------------------------
        if on("spiller") {
            let sr = spill_rows();
            rep.bound("spiller_row_set", json!(sr.len()));
            let dir = ctx.scratch.join("spill");
            let mut qid = 0u64;
            // quick: sequences of 1..=2 rows over all 26 rows, of 3 rows over the first 9 (empty row,
            // Null, Int 0/MIN, Float 1.5/0.0/NaN, Text empty/multibyte) + the 70 KB text; thorough: all
            let sub: Vec<usize> = (0..9).chain([sr.len() - 2]).collect();
            rep.bound("spiller_len3_row_subset_quick", json!(sub.len()));
            for len in 1..=3usize {
                let pick: Vec<usize> = if len == 3 && ctx.quick() { sub.clone() } else { (0..sr.len()).collect() };
                for code in 0..pick.len().pow(len as u32) {
                    idx += 1;
                    if !ctx.mine(idx) {
                        continue;
                    }
                    let mut x = code;
                    let mut ids = vec![0usize; len];
                    for p in (0..len).rev() {
                        ids[p] = pick[x % pick.len()];
                        x /= pick.len();
                    }
                    let rows: Vec<&Vec<&'static V>> = ids.iter().map(|i| &sr[*i]).collect();
                    for mode in 0..3u8 {
                        qid += 1;
                        let v = check_spiller(&dir, qid, &rows, mode, rep);
                        rep.count("spiller_cases", 1);
                        if !v.is_empty() {
                            let lab: Vec<Vec<&str>> = rows.iter().map(|r| labels_of(r)).collect();
                            report(v, || json!({"pass": "spiller", "rows": ids, "mode": mode, "labels": lab}), rep);
                        }
                    }
                    rep.bulk(3, 3);
                    if code % 64 == 0 && ctx.expired() {
                        rep.capped("deadline in pass spiller");
                        return;
                    }
                }
            }
        }
        // ---- osp ------------------------------------------------------------------------------
        if on("osp") {
            let od = odomain();
            rep.bound("osp_domain_values", json!(od.len()));
            let mut single: Vec<Vec<usize>> = vec![vec![]];
            single.extend((0..od.len()).map(|i| vec![i]));
            for i in 0..od.len() {
                for j in 0..od.len() {
                    single.push(vec![i, j]);
                }
            }
            for ids in single {
                idx += 1;
                if !ctx.mine(idx) {
                    continue;
                }
                let row: Vec<&'static OwnedValue> = ids.iter().map(|i| &od[*i].1).collect();
                for limit in [0usize, 200] {
                    let v = check_osp(&[row.clone()], limit, rep);
                    if !v.is_empty() {
                        let lab: Vec<&str> = ids.iter().map(|i| od[*i].0.as_str()).collect();
                        report(v, || json!({"pass": "osp", "row": ids, "limit": limit, "labels": lab}), rep);
                    }
                }
                rep.bulk(2, if ids.is_empty() { 0 } else { 2 });
                rep.count("osp_cases", 2);
            }
            let or = osp_seq_rows();
            for len in 2..=3usize {
                for code in 0..or.len().pow(len as u32) {
                    idx += 1;
                    if !ctx.mine(idx) {
                        continue;
                    }
                    let mut x = code;
                    let mut ids = vec![0usize; len];
                    for p in (0..len).rev() {
                        ids[p] = x % or.len();
                        x /= or.len();
                    }
                    let rows: Vec<Vec<&'static OwnedValue>> = ids.iter().map(|i| or[*i].clone()).collect();
                    for limit in [0usize, 200] {
                        let v = check_osp(&rows, limit, rep);
                        if !v.is_empty() {
                            report(v, || json!({"pass": "osp", "seq": ids, "limit": limit}), rep);
                        }
                    }
                    rep.bulk(2, 2);
                    rep.count("osp_cases", 2);
                }
                if ctx.expired() {
                    rep.capped("deadline in pass osp");
                    return;
                }
            }
        }
        // ---- thorough extras --------------------------------------------------------------------
        if !ctx.quick() && on("rows4") {
            rep.bound("rows_max_len_small_values", json!(4));
            // only the length-4 rows are new; lengths 0..=3 over the small values repeat pass rows
            let d: Vec<usize> = domain().iter().enumerate().filter(|(_, (_, v))| !is_big(v)).map(|(i, _)| i).collect();
            for code in 0..d.len().pow(3) {
                idx += 1;
                if !ctx.mine(idx) {
                    continue;
                }
                let pre = [d[code / (d.len() * d.len())], d[code / d.len() % d.len()], d[code % d.len()]];
                rep.begin_case(&json!({"pass": "rows", "prefix": pre, "len": 4}).to_string());
                for l in &d {
                    let ids = [pre[0], pre[1], pre[2], *l];
                    let row: Vec<&V> = ids.iter().map(|i| &domain()[*i].1).collect();
                    let v = check_row(&mut w, &row, rep);
                    if !v.is_empty() {
                        let lab = labels_of(&row);
                        report(v, || json!({"pass": "rows", "row": ids, "labels": lab}), rep);
                    }
                }
                rep.bulk(d.len() as u64, d.len() as u64);
                rep.count("rows", d.len() as u64);
                if code % 256 == 0 && ctx.expired() {
                    rep.capped("deadline in pass rows4");
                    return;
                }
            }
        }
        if !ctx.quick() && on("seqs2") {
            // every pair of rows of length <= 2 over the small values, in one buffer
            let d: Vec<&'static V> = domain().iter().filter(|(_, v)| !is_big(v)).map(|(_, v)| v).collect();
            let mut rows: Vec<Vec<&'static V>> = vec![vec![]];
            rows.extend(d.iter().map(|v| vec![*v]));
            for a in &d {
                for b in &d {
                    rows.push(vec![*a, *b]);
                }
            }
            rep.bound("seqs2_row_set", json!(rows.len()));
            for a in 0..rows.len() {
                idx += 1;
                if !ctx.mine(idx) {
                    continue;
                }
                rep.begin_case(&json!({"pass": "seqs2", "first": a}).to_string());
                for b in 0..rows.len() {
                    let v = check_seq(&mut w, &[&rows[a], &rows[b]], rep);
                    if !v.is_empty() {
                        let lab = vec![labels_of(&rows[a]), labels_of(&rows[b])];
                        report(v, || json!({"pass": "seqs2", "pair": [a, b], "labels": lab}), rep);
                    }
                }
                rep.bulk(rows.len() as u64, rows.len() as u64);
                rep.count("sequences", rows.len() as u64);
                if ctx.expired() {
                    rep.capped("deadline in pass seqs2");
                    return;
                }
            }
        }
    }

    fn replay(&self, ctx: &Ctx, case: &J, rep: &mut Reporter) {
        std::env::set_var("TMPDIR", &ctx.scratch);
        let mut w = W { guard: GuardBuf::new(512 * 1024), enc: Vec::new() };
        let d = domain();
        let r = seq_rows();
        rep.case(vcore::util::hash_str(&case.to_string()), true);
        let pass = case["pass"].as_str().unwrap_or("");
        let c = case.clone();
        let viols = match pass {
            "rows" => {
                let row: Vec<&V> = idxs(&case["row"]).iter().filter_map(|i| d.get(*i)).map(|x| &x.1).collect();
                check_row(&mut w, &row, rep)
            }
            "seqs" => {
                let rows: Vec<&Vec<&'static V>> = idxs(&case["rows"]).iter().filter_map(|i| r.get(*i)).collect();
                check_seq(&mut w, &rows, rep)
            }
            "seqs2" => {
                let dd: Vec<&'static V> = d.iter().filter(|(_, v)| !is_big(v)).map(|(_, v)| v).collect();
                let mut rows: Vec<Vec<&'static V>> = vec![vec![]];
                rows.extend(dd.iter().map(|v| vec![*v]));
                for a in &dd {
                    for b in &dd {
                        rows.push(vec![*a, *b]);
                    }
                }
                let p = idxs(&case["pair"]);
                if p.len() == 2 && p[0] < rows.len() && p[1] < rows.len() {
                    check_seq(&mut w, &[&rows[p[0]], &rows[p[1]]], rep)
                } else {
                    vec![]
                }
            }
            "trunc" => {
                if case.get("row").is_some() {
                    let row: Vec<&'static V> = idxs(&case["row"]).iter().filter_map(|i| d.get(*i)).map(|x| &x.1).collect();
                    check_trunc(&mut w, &[&row], rep)
                } else {
                    let rows: Vec<&Vec<&'static V>> = idxs(&case["rows"]).iter().filter_map(|i| r.get(*i)).collect();
                    check_trunc(&mut w, &rows, rep)
                }
            }
            "spiller" => {
                let sr = spill_rows();
                let rows: Vec<&Vec<&'static V>> = idxs(&case["rows"]).iter().filter_map(|i| sr.get(*i)).collect();
                check_spiller(&ctx.scratch.join("spill"), 1, &rows, case["mode"].as_u64().unwrap_or(0) as u8, rep)
            }
            "osp" => {
                let od = odomain();
                let limit = case["limit"].as_u64().unwrap_or(0) as usize;
                if case.get("row").is_some() {
                    let row: Vec<&'static OwnedValue> = idxs(&case["row"]).iter().filter_map(|i| od.get(*i)).map(|x| &x.1).collect();
                    check_osp(&[row], limit, rep)
                } else {
                    let or = osp_seq_rows();
                    let rows: Vec<Vec<&'static OwnedValue>> = idxs(&case["seq"]).iter().filter_map(|i| or.get(*i)).cloned().collect();
                    check_osp(&rows, limit, rep)
                }
            }
            _ => {
                rep.note("replay: unknown pass");
                vec![]
            }
        };
        report(viols, || c.clone(), rep);
    }
}

fn main() {
    // harness-side allocator tuning only: keep 70 KB payload buffers on the heap and never trim it
    // (page faults dominate the run time in the sandbox VM otherwise)
    unsafe {
        libc::mallopt(libc::M_MMAP_THRESHOLD, 32 << 20);
        libc::mallopt(libc::M_TRIM_THRESHOLD, 1 << 30);
        libc::mallopt(libc::M_TOP_PAD, 64 << 20);
    }
    let _ = domain();
    vcore::main(&C33)
}
