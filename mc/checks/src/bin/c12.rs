//! C12 — AUTO_INCREMENT values are unique and increasing.
//!
//! Engine SQLH, oracle taken from the property statement only (no SQL semantics, no model):
//! the harness records every value the column `id` of `t(id INT PRIMARY KEY AUTO_INCREMENT, a INT)`
//! has EVER held (explicit inserts, generated values — also inside rolled-back transactions —
//! and everything `SELECT *` shows after every step) and the last generated value.  Every value
//! generated for an omitted / NULL id must be (1) distinct from every value ever held,
//! (2) greater than the previously generated value; and a statement whose explicit ids are fresh
//! and pairwise distinct must not fail with a duplicate-key error caused by the generator
//! handing out a value that is already in use.
//! Every history over the alphabet below up to a depth is executed from a fresh database
//! (no merging: the counter lives in the table header, the row-id counter in memory).
//!
//! Options (development / self test only): `--opt pass=<full|no-known-triggers|core|core-small>`,
//! `--opt maxdepth=N`, `--opt verbose=1`, `--opt plant=restart-identity` (the truncate op becomes
//! `TRUNCATE TABLE t RESTART IDENTITY`, an explicit counter reset: the harness must report
//! `[insert omitted;truncate;insert omitted]/reused-value`).
use checks::sqlh::{Res, TestDb};
use refmodel::val::{Row, V};
use std::collections::{BTreeMap, BTreeSet};
use turdb::OwnedValue;
use vcore::{json, Check, Ctx, Reporter, Spec, Value};

const LARGE: i64 = 1000;
static PLANT_RESTART: std::sync::atomic::AtomicBool = std::sync::atomic::AtomicBool::new(false);
const DDL: &str = "CREATE TABLE t (id INT PRIMARY KEY AUTO_INCREMENT, a INT)";

#[derive(Clone, Copy, PartialEq, Eq, Debug, PartialOrd, Ord, Hash)]
enum Op {
    InsOmit,
    InsNull,
    InsExplicit1,
    InsExplicitNext,
    InsExplicitNext5,
    InsExplicitLarge,
    /// `(next, ..), (NULL, ..)`: explicit id equal to the value the omitted one will get
    MultiNextOmit,
    /// `(NULL, ..), (next+1, ..), (NULL, ..)`
    MultiOmitNext1Omit,
    /// `(next+2, ..), (NULL, ..)`: explicit id AHEAD of the counter, then a generated one in the same statement
    /// (the statement must leave the counter at or above the explicit id: two more omitted inserts climb to it)
    MultiAheadOmit,
    MultiOmitOmit,
    DelMax,
    DelAll,
    /// `UPDATE t SET id = next WHERE id = <max>`: the column then holds a value the counter never saw
    UpdMaxToNext,
    Truncate,
    TxnRollbackIns,
    SavepointRollbackIns,
    TxnCommitIns,
    Reopen,
    BatchNext,
    BatchNull,
}
use Op::*;

const ALL_OPS: [Op; 20] = [
    InsOmit, InsNull, InsExplicit1, InsExplicitNext, InsExplicitNext5, InsExplicitLarge, MultiNextOmit, MultiOmitNext1Omit, MultiAheadOmit, MultiOmitOmit, DelMax, DelAll, UpdMaxToNext, Truncate, TxnRollbackIns, SavepointRollbackIns, TxnCommitIns, Reopen,
    BatchNext, BatchNull,
];

impl Op {
    fn label(self) -> &'static str {
        match self {
            InsOmit => "insert omitted",
            InsNull => "insert null",
            InsExplicit1 => "insert explicit 1",
            InsExplicitNext => "insert explicit next",
            InsExplicitNext5 => "insert explicit next+5",
            InsExplicitLarge => "insert explicit large",
            MultiNextOmit => "insert (explicit next, omitted)",
            MultiOmitNext1Omit => "insert (omitted, explicit next+1, omitted)",
            MultiAheadOmit => "insert (explicit next+2, omitted)",
            MultiOmitOmit => "insert (omitted, omitted)",
            DelMax => "delete max",
            DelAll => "delete all",
            UpdMaxToNext => "update max id to next",
            Truncate => "truncate",
            TxnRollbackIns => "begin+insert omitted+rollback",
            SavepointRollbackIns => "savepoint+insert omitted+rollback to",
            TxnCommitIns => "begin+insert omitted+commit",
            Reopen => "reopen",
            BatchNext => "insert_batch explicit next",
            BatchNull => "insert_batch null",
        }
    }
    fn name(self) -> String {
        format!("{self:?}")
    }
    fn parse(s: &str) -> Option<Op> {
        ALL_OPS.iter().copied().find(|o| o.name() == s)
    }
    /// simpler ops that may stand in for this one in a minimal pattern (most preferred first)
    fn simpler(self) -> &'static [Op] {
        match self {
            InsNull | MultiOmitOmit | TxnCommitIns | TxnRollbackIns | InsExplicit1 | InsExplicitNext => &[InsOmit],
            SavepointRollbackIns => &[InsOmit, TxnRollbackIns],
            InsExplicitNext5 => &[InsOmit, InsExplicitNext],
            InsExplicitLarge => &[InsOmit, InsExplicitNext, InsExplicitNext5],
            DelAll => &[DelMax],
            _ => &[],
        }
    }
    /// can `self` (in a found history) be reduced to `p` (in a minimal pattern)?
    fn reduces_to(self, p: Op) -> bool {
        self == p || self.simpler().contains(&p)
    }
    fn is_insert(self) -> bool {
        !matches!(self, DelMax | DelAll | UpdMaxToNext | Truncate | Reopen)
    }
}

// ---------------------------------------------------------------------------
// oracle state (facts observed, nothing computed from SQL semantics)
// ---------------------------------------------------------------------------

#[derive(Clone, Default)]
struct Facts {
    /// every value the column ever held
    ever: BTreeSet<i64>,
    last_generated: Option<i64>,
    /// ids currently stored (multiset, sorted), from the last `SELECT *`
    table: Vec<i64>,
    /// what happened since the previous generation (vacuity evidence)
    since_delete: bool,
    since_rollback: bool,
    since_reopen: bool,
    since_truncate: bool,
}
impl Facts {
    fn next(&self) -> i64 {
        self.ever.iter().next_back().copied().unwrap_or(0) + 1
    }
}

#[derive(Clone, Debug, PartialEq)]
struct Viol {
    class: &'static str,
    expected: String,
    observed: String,
}

enum StepEnd {
    Ok,
    Violation(Viol),
    /// the history cannot be continued / judged (nothing to do with the property)
    Cut(&'static str, String),
    /// op not applicable in this state (only possible in shrink candidates)
    NotApplicable,
}

fn ids_of(rows: &[Row]) -> Vec<i64> {
    let mut v: Vec<i64> = rows.iter().filter_map(|r| if let Some(V::Int(i)) = r.first() { Some(*i) } else { None }).collect();
    v.sort();
    v
}
/// multiset difference a − b of sorted vectors
fn msub(a: &[i64], b: &[i64]) -> Vec<i64> {
    let mut out = vec![];
    let mut j = 0;
    for &x in a {
        while j < b.len() && b[j] < x {
            j += 1;
        }
        if j < b.len() && b[j] == x {
            j += 1;
        } else {
            out.push(x);
        }
    }
    out
}

struct Runner<'a> {
    ctx: &'a Ctx,
    executed: u64,
}

/// one INSERT statement: per row `Some(id)` explicit / `None` omitted
struct InsertSpec {
    sql: String,
    rows: Vec<Option<i64>>,
}

fn insert_sql(rows: &[Option<i64>], null_literal: bool) -> String {
    if rows.iter().all(|r| r.is_none()) && !null_literal {
        let vals: Vec<&str> = rows.iter().map(|_| "(0)").collect();
        return format!("INSERT INTO t (a) VALUES {} RETURNING id", vals.join(", "));
    }
    let vals: Vec<String> = rows.iter().map(|r| match r { Some(i) => format!("({i}, 0)"), None => "(NULL, 0)".to_string() }).collect();
    format!("INSERT INTO t (id, a) VALUES {} RETURNING id", vals.join(", "))
}

impl<'a> Runner<'a> {
    fn count(rep: &mut Option<&mut Reporter>, name: &str) {
        if let Some(r) = rep.as_deref_mut() {
            r.count(name, 1);
        }
    }

    fn observe(t: &TestDb) -> Result<Vec<i64>, String> {
        match t.exec("SELECT * FROM t") {
            Res::Rows(r) => Ok(ids_of(&r)),
            o => Err(o.show()),
        }
    }

    /// judge generated values in statement order
    fn judge_generated(f: &mut Facts, gens: &[i64], how: &str, rep: &mut Option<&mut Reporter>) -> Option<Viol> {
        for &g in gens {
            if let Some(r) = rep.as_deref_mut() {
                r.count("generated-values", 1);
                if f.since_delete {
                    r.count("generated-after-delete", 1);
                }
                if f.since_rollback {
                    r.count("generated-after-rollback", 1);
                }
                if f.since_reopen {
                    r.count("generated-after-reopen", 1);
                }
                if f.since_truncate {
                    r.count("generated-after-truncate", 1);
                }
            }
            if f.ever.contains(&g) {
                return Some(Viol { class: "reused-value", expected: format!("a generated value distinct from every value the column ever held {:?}", f.ever), observed: format!("{how} generated {g}") });
            }
            if let Some(l) = f.last_generated {
                if g <= l {
                    return Some(Viol { class: "not-increasing", expected: format!("a generated value greater than the previously generated {l}"), observed: format!("{how} generated {g}") });
                }
            }
            f.ever.insert(g);
            f.last_generated = Some(g);
        }
        if !gens.is_empty() {
            f.since_delete = false;
            f.since_rollback = false;
            f.since_reopen = false;
            f.since_truncate = false;
        }
        None
    }

    /// run one INSERT (autocommit or inside the caller's transaction) and judge it
    fn do_insert(t: &TestDb, f: &mut Facts, spec: &InsertSpec, will_persist: bool, rep: &mut Option<&mut Reporter>) -> StepEnd {
        let explicit: Vec<i64> = spec.rows.iter().filter_map(|r| *r).collect();
        let n_omitted = spec.rows.iter().filter(|r| r.is_none()).count();
        let mut distinct = explicit.clone();
        distinct.sort();
        distinct.dedup();
        let explicit_fresh = distinct.len() == explicit.len() && explicit.iter().all(|e| !f.table.contains(e));
        let before = f.table.clone();
        let res = t.exec(&spec.sql);
        let after = match Self::observe(t) {
            Ok(a) => a,
            Err(e) => return StepEnd::Cut("observation-failed", e),
        };
        let end = match &res {
            Res::Affected(_, Some(ret)) if ret.len() == spec.rows.len() => {
                Self::count(rep, "insert.ok");
                let mut viol = None;
                for (row, r) in spec.rows.iter().zip(ret) {
                    match (row, r.first()) {
                        (Some(e), _) => {
                            f.ever.insert(*e);
                        }
                        (None, Some(V::Int(g))) => {
                            if let Some(v) = Self::judge_generated(f, &[*g], &spec.sql, rep) {
                                viol = Some(v);
                                break;
                            }
                            if will_persist && !after.contains(g) {
                                Self::count(rep, "tolerated.returned-id-not-in-table");
                            }
                        }
                        (None, other) => return StepEnd::Cut("returning-without-id", format!("{} => {:?}", spec.sql, other)),
                    }
                }
                match viol {
                    Some(v) => StepEnd::Violation(v),
                    None => StepEnd::Ok,
                }
            }
            Res::Affected(..) => StepEnd::Cut("returning-shape", format!("{} => {}", spec.sql, res.show())),
            Res::Err(e) => {
                let dup = e.contains("PRIMARY KEY constraint violated");
                Self::count(rep, if dup { "err.pk-duplicate" } else if e.contains("already exists") { "err.key-already-exists" } else { "err.other" });
                // rows that a failing statement left behind: values that are new and not explicit were generated
                let newids = msub(&after, &before);
                let mut expl_sorted = explicit.clone();
                expl_sorted.sort();
                let gens = msub(&newids, &expl_sorted);
                for e in &explicit {
                    if after.contains(e) {
                        f.ever.insert(*e);
                    }
                }
                if let Some(v) = Self::judge_generated(f, &gens, &format!("{} (failed: {}; rows kept)", spec.sql, vcore::util::clip(e, 120)), rep) {
                    StepEnd::Violation(v)
                } else if dup && n_omitted > 0 && explicit_fresh {
                    StepEnd::Violation(Viol {
                        class: "duplicate-key-error",
                        expected: format!("the statement succeeds: its explicit ids {explicit:?} are pairwise distinct and not stored (table ids {before:?}), so only a generated value can collide"),
                        observed: format!("{} => Err({}); table ids now {after:?}", spec.sql, vcore::util::clip(e, 200)),
                    })
                } else {
                    if !dup || explicit_fresh {
                        Self::count(rep, "tolerated.insert-error-not-about-generation");
                    }
                    StepEnd::Ok
                }
            }
            Res::Panic(p) => StepEnd::Cut("insert-panicked", format!("{} => PANIC {p}", spec.sql)),
            o => StepEnd::Cut("insert-result-shape", format!("{} => {}", spec.sql, o.show())),
        };
        for x in &after {
            f.ever.insert(*x);
        }
        f.table = after;
        end
    }

    fn refresh(t: &TestDb, f: &mut Facts) -> StepEnd {
        match Self::observe(t) {
            Ok(a) => {
                for x in &a {
                    f.ever.insert(*x);
                }
                f.table = a;
                StepEnd::Ok
            }
            Err(e) => StepEnd::Cut("observation-failed", e),
        }
    }

    fn step(t: &mut TestDb, f: &mut Facts, op: Op, rep: &mut Option<&mut Reporter>) -> StepEnd {
        let next = f.next();
        let simple = |rows: Vec<Option<i64>>, null_literal: bool| InsertSpec { sql: insert_sql(&rows, null_literal), rows };
        let ctl = |t: &TestDb, sql: &str| -> Result<(), StepEnd> {
            let r = t.exec(sql);
            if r.ok() {
                Ok(())
            } else {
                Err(StepEnd::Cut("transaction-control-refused", format!("{sql} => {}", r.show())))
            }
        };
        match op {
            InsOmit => Self::do_insert(t, f, &simple(vec![None], false), true, rep),
            InsNull => Self::do_insert(t, f, &simple(vec![None], true), true, rep),
            InsExplicit1 => Self::do_insert(t, f, &simple(vec![Some(1)], false), true, rep),
            InsExplicitNext => Self::do_insert(t, f, &simple(vec![Some(next)], false), true, rep),
            InsExplicitNext5 => Self::do_insert(t, f, &simple(vec![Some(next + 5)], false), true, rep),
            InsExplicitLarge => Self::do_insert(t, f, &simple(vec![Some(LARGE.max(next))], false), true, rep),
            MultiNextOmit => Self::do_insert(t, f, &simple(vec![Some(next), None], false), true, rep),
            MultiOmitNext1Omit => Self::do_insert(t, f, &simple(vec![None, Some(next + 1), None], false), true, rep),
            MultiAheadOmit => Self::do_insert(t, f, &simple(vec![Some(next + 2), None], false), true, rep),
            MultiOmitOmit => Self::do_insert(t, f, &simple(vec![None, None], false), true, rep),
            DelMax | DelAll => {
                let Some(&m) = f.table.last() else { return StepEnd::NotApplicable };
                let sql = if op == DelMax { format!("DELETE FROM t WHERE id = {m}") } else { "DELETE FROM t".to_string() };
                let r = t.exec(&sql);
                if !r.ok() {
                    return StepEnd::Cut("delete-refused", format!("{sql} => {}", r.show()));
                }
                f.since_delete = true;
                Self::refresh(t, f)
            }
            UpdMaxToNext => {
                let Some(&m) = f.table.last() else { return StepEnd::NotApplicable };
                let sql = format!("UPDATE t SET id = {next} WHERE id = {m}");
                let r = t.exec(&sql);
                if !r.ok() {
                    return StepEnd::Cut("update-refused", format!("{sql} => {}", r.show()));
                }
                Self::refresh(t, f)
            }
            Truncate => {
                // self test of the harness (`--opt plant=restart-identity`): an explicit counter reset must be caught
                let r = t.exec(if PLANT_RESTART.load(std::sync::atomic::Ordering::Relaxed) { "TRUNCATE TABLE t RESTART IDENTITY" } else { "TRUNCATE TABLE t" });
                if !r.ok() {
                    return StepEnd::Cut("truncate-refused", r.show());
                }
                f.since_truncate = true;
                Self::refresh(t, f)
            }
            TxnRollbackIns | TxnCommitIns => {
                if let Err(e) = ctl(t, "BEGIN") {
                    return e;
                }
                let end = Self::do_insert(t, f, &simple(vec![None], false), op == TxnCommitIns, rep);
                let fin = if op == TxnCommitIns { "COMMIT" } else { "ROLLBACK" };
                let closed = ctl(t, fin);
                if let StepEnd::Violation(_) = end {
                    return end;
                }
                if let Err(e) = closed {
                    return e;
                }
                if op == TxnRollbackIns {
                    f.since_rollback = true;
                }
                match end {
                    StepEnd::Ok => Self::refresh(t, f),
                    o => o,
                }
            }
            SavepointRollbackIns => {
                if let Err(e) = ctl(t, "BEGIN") {
                    return e;
                }
                if let Err(e) = ctl(t, "SAVEPOINT s") {
                    let _ = t.exec("ROLLBACK");
                    return e;
                }
                let end = Self::do_insert(t, f, &simple(vec![None], false), false, rep);
                let a = ctl(t, "ROLLBACK TO SAVEPOINT s");
                let b = ctl(t, "COMMIT");
                if let StepEnd::Violation(_) = end {
                    return end;
                }
                if let Err(e) = a.and(b) {
                    return e;
                }
                f.since_rollback = true;
                match end {
                    StepEnd::Ok => Self::refresh(t, f),
                    o => o,
                }
            }
            Reopen => match t.reopen() {
                Ok(()) => {
                    f.since_reopen = true;
                    Self::refresh(t, f)
                }
                Err(e) => StepEnd::Cut("reopen-failed", e),
            },
            BatchNext | BatchNull => {
                let before = f.table.clone();
                let idv = if op == BatchNext { OwnedValue::Int(next) } else { OwnedValue::Null };
                let rows = vec![vec![idv, OwnedValue::Int(0)]];
                let db = t.db().clone();
                let r = vcore::catch(move || db.insert_batch("t", &rows).map_err(|e| format!("{e:#}")));
                match r {
                    Ok(Ok(_)) => Self::count(rep, "batch.ok"),
                    Ok(Err(_)) => Self::count(rep, "batch.err"),
                    Err(p) => return StepEnd::Cut("insert_batch-panicked", p),
                }
                let after = match Self::observe(t) {
                    Ok(a) => a,
                    Err(e) => return StepEnd::Cut("observation-failed", e),
                };
                let mut newids = msub(&after, &before);
                if op == BatchNext {
                    if let Some(p) = newids.iter().position(|x| *x == next) {
                        newids.remove(p);
                        f.ever.insert(next);
                    }
                }
                let v = Self::judge_generated(f, &newids, "insert_batch", rep);
                for x in &after {
                    f.ever.insert(*x);
                }
                f.table = after;
                match v {
                    Some(v) => StepEnd::Violation(v),
                    None => StepEnd::Ok,
                }
            }
        }
    }

    /// Execute `hist` from a fresh database.  Returns the facts after the last step and the
    /// first event (index, end); steps `< judge_from` are replayed without counting.
    fn run(&mut self, hist: &[Op], judge_from: usize, mut rep: Option<&mut Reporter>) -> (Facts, Option<(usize, StepEnd)>) {
        self.executed += 1;
        let mut t = TestDb::create(&self.ctx.scratch, "db").unwrap_or_else(|e| vcore::machinery(&format!("C12: cannot create database: {e}")));
        let r = t.exec(DDL);
        if !r.ok() {
            vcore::machinery(&format!("C12: {DDL} => {}", r.show()));
        }
        let mut f = Facts::default();
        for (k, &op) in hist.iter().enumerate() {
            let mut none = None;
            let end = Self::step(&mut t, &mut f, op, if k >= judge_from { &mut rep } else { &mut none });
            if k >= judge_from {
                if let Some(r) = rep.as_deref_mut() {
                    r.count(&format!("op.{}", op.name()), 1);
                }
            }
            match end {
                StepEnd::Ok => {}
                other => return (f, Some((k, other))),
            }
        }
        (f, None)
    }

    fn reproduces(&mut self, hist: &[Op], class: &str) -> Option<Viol> {
        if hist.is_empty() {
            return None;
        }
        match self.run(hist, hist.len(), None).1 {
            Some((k, StepEnd::Violation(v))) if k == hist.len() - 1 && v.class == class => Some(v),
            _ => None,
        }
    }

    /// Minimal history with the same violation class at its last step: single removals (the last
    /// op stays), then replacement of an op by a simpler one, until neither applies.
    /// Deterministic and a fixpoint of itself.
    fn shrink(&mut self, hist: &[Op], class: &str) -> Vec<Op> {
        let mut cur = hist.to_vec();
        'outer: loop {
            for i in 0..cur.len().saturating_sub(1) {
                let mut c = cur.clone();
                c.remove(i);
                if self.reproduces(&c, class).is_some() {
                    cur = c;
                    continue 'outer;
                }
            }
            for i in 0..cur.len() {
                for &r in cur[i].simpler() {
                    let mut c = cur.clone();
                    c[i] = r;
                    if self.reproduces(&c, class).is_some() {
                        cur = c;
                        continue 'outer;
                    }
                }
            }
            return cur;
        }
    }
}

fn pattern(h: &[Op]) -> String {
    format!("[{}]", h.iter().map(|o| o.label()).collect::<Vec<_>>().join(";"))
}
/// `p` is obtained from `h` by removing ops (not the last) and replacing ops by simpler ones
fn is_subsequence_ending(p: &[Op], h: &[Op]) -> bool {
    if p.is_empty() || h.is_empty() || !h[h.len() - 1].reduces_to(p[p.len() - 1]) {
        return false;
    }
    let mut i = 0;
    for &x in &h[..h.len() - 1] {
        if i < p.len() - 1 && x.reduces_to(p[i]) {
            i += 1;
        }
    }
    i == p.len() - 1
}

struct Pass {
    name: &'static str,
    ops: Vec<Op>,
    depth_quick: usize,
    depth_thorough: usize,
}

fn passes() -> Vec<Pass> {
    let without = |x: &[Op]| ALL_OPS.iter().copied().filter(|o| !x.contains(o)).collect::<Vec<_>>();
    vec![
        // everything, shallow: every op is exercised in every context of length <= 2 (3)
        Pass { name: "full", ops: ALL_OPS.to_vec(), depth_quick: 3, depth_thorough: 4 },
        // the known triggers (statement-local counter, insert_batch, explicit ids the counter never sees)
        // removed so that the remainder reaches full depth (the explicit-ahead two-row statement is not a
        // known trigger; it is left to the passes `full` and `core` only to keep this alphabet at 11 ops)
        Pass { name: "no-known-triggers", ops: without(&[MultiNextOmit, MultiOmitNext1Omit, MultiAheadOmit, BatchNext, BatchNull, UpdMaxToNext, InsNull, TxnCommitIns, InsExplicitLarge]), depth_quick: 4, depth_thorough: 5 },
        // no multi-row statement at all: the deepest pass
        Pass { name: "core-small", ops: vec![InsOmit, InsExplicitNext5, DelMax, Truncate, TxnRollbackIns, Reopen], depth_quick: 5, depth_thorough: 7 },
        // generation, deletion, rollback, savepoint, reopen, two-row generation (reaches KF-C12-04 at depth 5), and the
        // two-row statement whose explicit id lies ahead of the counter (delete it, then climb to it: depth 4)
        Pass { name: "core", ops: vec![InsOmit, InsExplicitNext, MultiOmitOmit, MultiAheadOmit, DelMax, Truncate, TxnRollbackIns, SavepointRollbackIns, Reopen], depth_quick: 4, depth_thorough: 6 },
    ]
}

struct Walker<'a, 'b> {
    run: Runner<'a>,
    rep: &'b mut Reporter,
    split_depth: usize,
    shallow_seq: u64,
    unit_seq: u64,
    memo: BTreeMap<&'static str, Vec<Vec<Op>>>,
    seen: BTreeSet<Vec<Op>>,
    stop: bool,
}

impl<'a, 'b> Walker<'a, 'b> {
    fn report(&mut self, hist: &[Op], v: &Viol) {
        let known = self.memo.get(v.class).and_then(|l| l.iter().find(|p| is_subsequence_ending(p, hist)).cloned());
        let (min, viol) = match known {
            Some(p) => (p, v.clone()),
            None => {
                let m = self.run.shrink(hist, v.class);
                self.rep.count("shrink.runs", 1);
                let vv = if m.len() == hist.len() { v.clone() } else { self.run.reproduces(&m, v.class).unwrap_or_else(|| v.clone()) };
                self.memo.entry(v.class).or_default().push(m.clone());
                (m, vv)
            }
        };
        let sig = format!("C12/{}/{}", pattern(&min), v.class);
        self.rep.count(&format!("verdict.{}", v.class), 1);
        let names = |h: &[Op]| h.iter().map(|o| o.name()).collect::<Vec<_>>();
        self.rep.violation("C12", v.class, &sig, || json!({"ops": names(&min), "pattern": pattern(&min), "found_in": names(hist), "ddl": DDL}), &viol.expected, &viol.observed);
    }

    fn dfs(&mut self, pass: &Pass, prefix: &mut Vec<Op>, table_empty: bool, maxd: usize, owned: bool) {
        for &op in &pass.ops {
            if self.stop {
                return;
            }
            if table_empty && matches!(op, DelMax | DelAll | UpdMaxToNext) {
                continue;
            }
            prefix.push(op);
            let depth = prefix.len();
            // nodes above the split depth are executed by every worker (their verdict decides whether
            // to descend) and reported by one; a node AT the split depth roots a unit of work that
            // exactly one worker executes, reports and descends into
            let (execute, reporting, child_owned) = if depth < self.split_depth {
                let m = self.run.ctx.mine(self.shallow_seq);
                self.shallow_seq += 1;
                (true, m, owned)
            } else if depth == self.split_depth {
                let m = self.run.ctx.mine(self.unit_seq);
                self.unit_seq += 1;
                (m, m, m)
            } else {
                (true, true, owned)
            };
            if !execute {
                prefix.pop();
                continue;
            }
            if self.run.ctx.expired() {
                self.rep.capped("deadline reached during history enumeration");
                self.stop = true;
                prefix.pop();
                return;
            }
            let (facts, ev) = self.run.run(prefix, depth - 1, if reporting { Some(&mut *self.rep) } else { None });
            if reporting {
                self.rep.case(vcore::util::hash_of(&prefix[..]), op.is_insert());
                self.rep.add_states(1);
                self.rep.add_transitions(1);
                self.rep.add_traces_validated(1);
                self.rep.count(&format!("pass.{}.nodes", pass.name), 1);
                if depth == maxd && ev.is_none() {
                    self.rep.count(&format!("pass.{}.full-depth-histories", pass.name), 1);
                }
                self.rep.sample(|| json!({"ops": prefix.iter().map(|o| o.label()).collect::<Vec<_>>()}));
            }
            match ev {
                None => {
                    if reporting {
                        self.rep.outcome(&format!("{}:ok", op.name()));
                    }
                    if depth < maxd && (depth < self.split_depth || child_owned) {
                        self.dfs(pass, prefix, facts.table.is_empty(), maxd, child_owned);
                    }
                }
                Some((_, StepEnd::Violation(v))) => {
                    if reporting {
                        self.rep.outcome(&format!("{}:{}", op.name(), v.class));
                        self.rep.pruned(1);
                        self.rep.count(&format!("pass.{}.cut-at-violation", pass.name), 1);
                        // the same history reached in two passes is reported once
                        if self.seen.insert(prefix.clone()) {
                            let h = prefix.clone();
                            self.report(&h, &v);
                        }
                    }
                }
                Some((_, StepEnd::Cut(why, detail))) => {
                    if reporting {
                        self.rep.outcome(&format!("{}:cut:{why}", op.name()));
                        self.rep.pruned(1);
                        self.rep.count(&format!("cut.{why}"), 1);
                        if self.run.ctx.opt("verbose").is_some() {
                            self.rep.note(&format!("cut {why} {}: {}", pattern(prefix), vcore::util::clip(&detail, 300)));
                        }
                    }
                }
                Some((_, StepEnd::Ok)) | Some((_, StepEnd::NotApplicable)) => {
                    vcore::machinery("C12: generator produced an inapplicable op");
                }
            }
            prefix.pop();
        }
    }
}

struct C12;

impl Check for C12 {
    fn specs(&self) -> Vec<Spec> {
        let mut s = Spec::new(
            "C12",
            "model_checking",
            "every history over {insert with omitted id, with NULL id, with explicit id 1 / next / next+5 / large, multi-row inserts mixing omitted and explicit ids (explicit = the value the next omitted one gets, or explicit two ahead of it followed by an omitted one), two omitted; delete max row, delete all, TRUNCATE; BEGIN+insert+ROLLBACK, SAVEPOINT+insert+ROLLBACK TO, BEGIN+insert+COMMIT; reopen; insert_batch with explicit next / NULL id; UPDATE of the max id to next} on t(id INT PRIMARY KEY AUTO_INCREMENT, a INT): all 20 ops to depth 3 (quick) / 4 (thorough), 11 ops without the known triggers to depth 4 / 5, 6 ops to depth 5 / 7, 9 core ops to depth 4 / 6, each history executed from a fresh database (no merging: header counter, in-memory row-id counter, index state are hidden); 'next' is resolved against the set of values the harness has seen in the column; a case is one history, non-trivial when its last op attempts an insert; generated values are read from RETURNING id and cross-checked with SELECT *",
        );
        s.assumptions = &[
            "oracle = property statement only: generated values are distinct from every value the column ever held (explicit, generated, rolled back) and increase among themselves; a statement whose explicit ids are fresh and distinct must not fail with a PRIMARY KEY duplicate caused by a generated value",
            "inserts that fail for reasons unrelated to value generation (e.g. the row-id counter restarting after reopen, C04) generate no value and are tolerated, counted under tolerated.*",
            "TRUNCATE ... RESTART IDENTITY (an explicit request to reset) is not in the alphabet",
        ];
        s.cap_quick_s = 100;
        s.cap_thorough_s = 1500;
        vec![s]
    }

    fn run(&self, ctx: &Ctx, rep: &mut Reporter) {
        PLANT_RESTART.store(ctx.opt("plant") == Some("restart-identity"), std::sync::atomic::Ordering::Relaxed);
        let only = ctx.opt("pass").map(|s| s.to_string());
        for o in ALL_OPS {
            rep.expect_nonzero(&format!("op.{}", o.name()));
        }
        for n in ["generated-values", "generated-after-delete", "generated-after-rollback", "generated-after-reopen", "generated-after-truncate", "insert.ok"] {
            rep.expect_nonzero(n);
        }
        let mut w = Walker { run: Runner { ctx, executed: 0 }, rep: &mut *rep, split_depth: ctx.tier.pick(1, 2), shallow_seq: 0, unit_seq: 0, memo: BTreeMap::new(), seen: BTreeSet::new(), stop: false };
        let mut bounds = serde_json::Map::new();
        // smallest passes first (see C09): under a wall cap as many passes as possible are complete
        let mut plan: Vec<(u64, Pass, usize)> = vec![];
        for p in passes() {
            if let Some(o) = &only {
                if *o != p.name {
                    continue;
                }
            }
            let maxd = ctx.tier.pick(p.depth_quick, p.depth_thorough);
            // development aid: `--opt maxdepth=N` clamps every pass (never used by the registered runs)
            let maxd = ctx.opt("maxdepth").and_then(|s| s.parse::<usize>().ok()).map_or(maxd, |m| maxd.min(m));
            if maxd == 0 {
                continue;
            }
            plan.push(((p.ops.len() as u64).pow(maxd as u32), p, maxd));
        }
        plan.sort_by_key(|x| x.0);
        for (_, p, maxd) in plan {
            bounds.insert(p.name.to_string(), json!({"alphabet": p.ops.iter().map(|o| o.label()).collect::<Vec<_>>(), "depth": maxd}));
            let mut prefix = vec![];
            w.dfs(&p, &mut prefix, true, maxd, true);
            if w.stop {
                break;
            }
            w.rep.count(&format!("completed-slices.{}", p.name), 1);
        }
        let executed = w.run.executed;
        rep.bound("passes", Value::Object(bounds));
        rep.count("database-executions", executed);
    }

    fn replay(&self, ctx: &Ctx, case: &Value, rep: &mut Reporter) {
        PLANT_RESTART.store(ctx.opt("plant") == Some("restart-identity"), std::sync::atomic::Ordering::Relaxed);
        let mut hist = vec![];
        for n in case["ops"].as_array().cloned().unwrap_or_default() {
            match n.as_str().and_then(Op::parse) {
                Some(o) => hist.push(o),
                None => vcore::machinery(&format!("C12 replay: unknown op {n}")),
            }
        }
        let mut w = Walker { run: Runner { ctx, executed: 0 }, rep, split_depth: 0, shallow_seq: 0, unit_seq: 0, memo: BTreeMap::new(), seen: BTreeSet::new(), stop: false };
        let (_, ev) = w.run.run(&hist, hist.len(), None);
        w.rep.case(vcore::util::hash_of(&hist[..]), true);
        w.rep.add_states(1);
        w.rep.add_transitions(hist.len() as u64);
        w.rep.add_traces_validated(1);
        if let Some((k, StepEnd::Violation(v))) = ev {
            let h = hist[..=k].to_vec();
            w.report(&h, &v);
        }
    }
}

fn main() {
    vcore::main(&C12)
}
