//! C03 — WAL replay applies exactly the longest valid frame prefix.
//!
//! Part 1 (history, model checking): every operation sequence up to a depth over
//! a real `turdb::storage::Wal` in a scratch directory (2 file ids x 3 pages),
//! compared after EVERY history against a reference model (ordered list of frames
//! written since the last truncate, per segment).
//! Part 2 (fault enumeration): for the final segment files of every short history:
//! every truncation offset (multiples of 512, +-1 around frame boundaries), zero-fill
//! of every 512-byte sector, single-byte flips in every header byte and 65 payload
//! bytes per frame, and zero-extension of the last segment.
//!
//! Oracles never use TurDB code to decide what is right: page images are generated
//! and recognised by the harness, the expected replay is computed from the model,
//! and the file layout is parsed by an independent CRC-64/ECMA-182 reader.
use std::collections::BTreeSet;
use std::path::{Path, PathBuf};
use turdb::storage::{MmapStorage, SyncMode, Wal};
use vcore::{json, Check, Ctx, Reporter, Spec, Value};

const PAGE: usize = 16384;
const HDR: usize = 32;
const FS: usize = PAGE + HDR;
const NPAGES: u32 = 3;
/// table 0 uses the legacy default file id 0 (what `Wal::write_frame` uses), table 1 an arbitrary other id
const FILE_IDS: [u64; 2] = [0, 5];
const SENTINEL: u8 = 0xEE;

// ---------------------------------------------------------------------------
// operations
// ---------------------------------------------------------------------------
#[derive(Clone, Copy, PartialEq, Eq, Hash, Debug)]
enum Op {
    W(u8, u8),
    B((u8, u8), (u8, u8)),
    Rot,
    Trunc,
    Reopen,
    ReopenW(u8, u8),
}

impl Op {
    fn enc(&self) -> String {
        match *self {
            Op::W(t, p) => format!("W{t}.{p}"),
            Op::B(a, b) => format!("B{}.{}+{}.{}", a.0, a.1, b.0, b.1),
            Op::Rot => "R".into(),
            Op::Trunc => "T".into(),
            Op::Reopen => "O".into(),
            Op::ReopenW(t, p) => format!("OW{t}.{p}"),
        }
    }
    fn dec(s: &str) -> Option<Op> {
        fn tp(s: &str) -> Option<(u8, u8)> {
            let (a, b) = s.split_once('.')?;
            let (t, p) = (a.parse::<u8>().ok()?, b.parse::<u8>().ok()?);
            if t < 2 && (p as u32) < NPAGES {
                Some((t, p))
            } else {
                None
            }
        }
        match s {
            "R" => Some(Op::Rot),
            "T" => Some(Op::Trunc),
            "O" => Some(Op::Reopen),
            _ => {
                if let Some(r) = s.strip_prefix("OW") {
                    tp(r).map(|(t, p)| Op::ReopenW(t, p))
                } else if let Some(r) = s.strip_prefix('W') {
                    tp(r).map(|(t, p)| Op::W(t, p))
                } else if let Some(r) = s.strip_prefix('B') {
                    let (a, b) = r.split_once('+')?;
                    Some(Op::B(tp(a)?, tp(b)?))
                } else {
                    None
                }
            }
        }
    }
    /// primitive kinds (composite ops are expanded so that one defect has one pattern)
    fn kinds(&self) -> &'static [&'static str] {
        match self {
            Op::W(..) => &["write"],
            Op::B(..) => &["write_batch"],
            Op::Rot => &["rotate"],
            Op::Trunc => &["truncate"],
            Op::Reopen => &["reopen"],
            Op::ReopenW(..) => &["reopen", "write"],
        }
    }
    fn writes(&self) -> u64 {
        match self {
            Op::W(..) | Op::ReopenW(..) => 1,
            Op::B(..) => 2,
            _ => 0,
        }
    }
    /// strictly simpler replacements tried by the shrinker
    fn simpler(&self) -> Vec<Op> {
        match *self {
            Op::B(a, b) => vec![Op::W(a.0, a.1), Op::W(b.0, b.1)],
            Op::ReopenW(t, p) => vec![Op::W(t, p), Op::Reopen],
            _ => vec![],
        }
    }
}

fn alphabet(name: &str) -> Vec<Op> {
    match name {
        "small" => vec![Op::W(0, 0), Op::W(1, 1), Op::B((0, 0), (1, 0)), Op::Rot, Op::Trunc, Op::Reopen, Op::ReopenW(0, 0)],
        "medium" => vec![Op::W(0, 0), Op::W(0, 1), Op::W(1, 0), Op::W(1, 1), Op::B((0, 0), (1, 0)), Op::B((0, 1), (0, 1)), Op::Rot, Op::Trunc, Op::Reopen, Op::ReopenW(0, 0)],
        _ => vec![
            Op::W(0, 0),
            Op::W(0, 1),
            Op::W(0, 2),
            Op::W(1, 0),
            Op::W(1, 1),
            Op::W(1, 2),
            Op::B((0, 0), (1, 0)),
            Op::B((0, 1), (0, 1)),
            Op::B((1, 2), (0, 0)),
            Op::Rot,
            Op::Trunc,
            Op::Reopen,
            Op::ReopenW(0, 0),
            Op::ReopenW(1, 1),
        ],
    }
}

fn enc_ops(ops: &[Op]) -> Vec<String> {
    ops.iter().map(|o| o.enc()).collect()
}
fn dec_ops(v: &Value) -> Vec<Op> {
    v.as_array().map(|a| a.iter().filter_map(|x| x.as_str().and_then(Op::dec)).collect()).unwrap_or_default()
}
fn pattern(ops: &[Op], nosync: bool) -> String {
    let k: Vec<&str> = ops.iter().flat_map(|o| o.kinds().iter().copied()).collect();
    format!("[{}]{}", k.join(","), if nosync { "@nosync" } else { "" })
}

// ---------------------------------------------------------------------------
// page images: every (table,page,version) has its own recognisable image, no zero byte anywhere
// ---------------------------------------------------------------------------
#[derive(Clone, Copy, PartialEq, Eq, Debug, Hash, PartialOrd, Ord)]
struct Fr {
    t: u8,
    p: u8,
    v: u32,
}

fn make_image(f: Fr) -> Vec<u8> {
    let mut b = vec![0u8; PAGE];
    let seed = f.t as usize * 101 + f.p as usize * 53 + f.v as usize * 29;
    for (i, x) in b.iter_mut().enumerate() {
        *x = 1 + ((i * 7 + i / 251 + seed) % 251) as u8;
    }
    b[0] = 0xA0 | f.t;
    b[1] = 0xB0 | f.p;
    b[2] = (f.v & 0xFF) as u8;
    b[3] = 0xC3;
    b
}

thread_local! {
    static IMAGES: std::cell::RefCell<std::collections::BTreeMap<Fr, std::rc::Rc<Vec<u8>>>> = std::cell::RefCell::new(std::collections::BTreeMap::new());
}

/// memoised `make_image` (pure function of (t,p,v); the cache only saves time)
fn image(f: Fr) -> std::rc::Rc<Vec<u8>> {
    IMAGES.with(|m| m.borrow_mut().entry(f).or_insert_with(|| std::rc::Rc::new(make_image(f))).clone())
}

#[derive(Clone, Copy, PartialEq, Eq, Debug)]
enum Lbl {
    Untouched,
    Img(Fr),
    Zero,
    Garbage,
}
impl std::fmt::Display for Lbl {
    fn fmt(&self, f: &mut std::fmt::Formatter<'_>) -> std::fmt::Result {
        match self {
            Lbl::Untouched => write!(f, "untouched"),
            Lbl::Img(x) => write!(f, "t{}p{}v{}", x.t, x.p, x.v),
            Lbl::Zero => write!(f, "ZERO"),
            Lbl::Garbage => write!(f, "GARBAGE"),
        }
    }
}

fn identify(b: &[u8]) -> Lbl {
    if b.iter().all(|&x| x == SENTINEL) {
        return Lbl::Untouched;
    }
    if b.iter().all(|&x| x == 0) {
        return Lbl::Zero;
    }
    if b.len() == PAGE && b[0] & 0xF0 == 0xA0 && b[1] & 0xF0 == 0xB0 && b[3] == 0xC3 {
        let f = Fr { t: b[0] & 0x0F, p: b[1] & 0x0F, v: b[2] as u32 };
        if f.t < 2 && (f.p as u32) < NPAGES && f.v > 0 && image(f).as_slice() == b {
            return Lbl::Img(f);
        }
    }
    Lbl::Garbage
}

// ---------------------------------------------------------------------------
// reference model: frames written since the last truncate, per segment
// ---------------------------------------------------------------------------
#[derive(Clone, Debug, PartialEq, Eq, Hash)]
struct Model {
    segs: Vec<(u64, Vec<Fr>)>,
    next_v: u32,
}
impl Model {
    fn new() -> Self {
        Model { segs: vec![(1, vec![])], next_v: 1 }
    }
    fn write(&mut self, t: u8, p: u8) -> Fr {
        let f = Fr { t, p, v: self.next_v };
        self.next_v += 1;
        self.segs.last_mut().unwrap().1.push(f);
        f
    }
    fn rotate(&mut self) {
        let s = self.segs.last().unwrap().0 + 1;
        self.segs.push((s, vec![]));
    }
    fn truncate(&mut self) {
        let s = self.segs.last().unwrap().0;
        self.segs = vec![(s, vec![])];
    }
    fn frames(&self) -> Vec<Fr> {
        self.segs.iter().flat_map(|s| s.1.iter().copied()).collect()
    }
    fn shape(&self) -> Vec<(u64, Vec<(u8, u8)>)> {
        self.segs.iter().map(|s| (s.0, s.1.iter().map(|f| (f.t, f.p)).collect())).collect()
    }
}

/// what the three recoveries (whole log into one storage; per file id) must leave
#[derive(Clone, PartialEq, Eq, Debug)]
struct RecObs {
    /// "n", "ERR:..." or "PANIC:..."
    count: String,
    pages: Vec<Lbl>,
}
#[derive(Clone, PartialEq, Eq, Debug)]
struct Snapshot {
    whole: RecObs,
    per: Vec<RecObs>,
}
impl Snapshot {
    fn show(&self) -> String {
        let one = |r: &RecObs| format!("count={} pages=[{}]", r.count, r.pages.iter().map(|l| l.to_string()).collect::<Vec<_>>().join(","));
        format!("recover: {} | recover_for_file({}): {} | recover_for_file({}): {}", one(&self.whole), FILE_IDS[0], one(&self.per[0]), FILE_IDS[1], one(&self.per[1]))
    }
}

fn expect_from(frames: &[Fr]) -> Snapshot {
    let mut whole = vec![Lbl::Untouched; NPAGES as usize];
    let mut per = vec![vec![Lbl::Untouched; NPAGES as usize]; 2];
    let mut cnt = [0u32; 2];
    for f in frames {
        // Wal::recover ignores the file id by design (single-storage API): page_no only
        whole[f.p as usize] = Lbl::Img(*f);
        per[f.t as usize][f.p as usize] = Lbl::Img(*f);
        cnt[f.t as usize] += 1;
    }
    Snapshot {
        whole: RecObs { count: frames.len().to_string(), pages: whole },
        per: (0..2).map(|t| RecObs { count: cnt[t].to_string(), pages: per[t].clone() }).collect(),
    }
}

fn ver(l: &Lbl) -> u32 {
    match l {
        Lbl::Img(f) => f.v,
        _ => 0,
    }
}

/// class of a replay divergence (fixed priority so that one defect gets one class)
fn classify(exp: &Snapshot, obs: &Snapshot) -> Option<&'static str> {
    if exp == obs {
        return None;
    }
    let pairs: Vec<(&RecObs, &RecObs)> = std::iter::once((&exp.whole, &obs.whole)).chain(exp.per.iter().zip(obs.per.iter())).collect();
    if pairs.iter().any(|(_, o)| o.count.starts_with("PANIC")) {
        return Some("panic");
    }
    if pairs.iter().any(|(_, o)| o.count.starts_with("ERR")) {
        return Some("recover-error");
    }
    if pairs.iter().any(|(_, o)| o.pages.len() != NPAGES as usize) {
        return Some("storage-resized");
    }
    if pairs.iter().any(|(_, o)| o.pages.iter().any(|l| *l == Lbl::Zero)) {
        return Some("zero-frame-applied");
    }
    if pairs.iter().any(|(_, o)| o.pages.iter().any(|l| *l == Lbl::Garbage)) {
        return Some("garbage-applied");
    }
    let mut lost = false;
    let mut unexpected = false;
    for (e, o) in &pairs {
        for (le, lo) in e.pages.iter().zip(o.pages.iter()) {
            if le != lo {
                if ver(lo) < ver(le) {
                    lost = true;
                } else {
                    unexpected = true;
                }
            }
        }
    }
    let n = |s: &str| s.parse::<i64>().unwrap_or(-1);
    if lost || pairs.iter().any(|(e, o)| n(&o.count) < n(&e.count)) {
        return Some("earlier-frame-lost");
    }
    if unexpected {
        return Some("unexpected-frame-applied");
    }
    Some("extra-frames-applied")
}

// ---------------------------------------------------------------------------
// independent reader of segment files (CRC-64/ECMA-182: poly 42F0E1EBA9EA3693, init 0, no reflection, xorout 0)
// ---------------------------------------------------------------------------
struct Crc {
    t: [u64; 256],
}
impl Crc {
    fn new() -> Self {
        let mut t = [0u64; 256];
        for (i, e) in t.iter_mut().enumerate() {
            let mut c = (i as u64) << 56;
            for _ in 0..8 {
                c = if c & (1 << 63) != 0 { (c << 1) ^ 0x42F0_E1EB_A9EA_3693 } else { c << 1 };
            }
            *e = c;
        }
        Crc { t }
    }
    fn sum(&self, parts: &[&[u8]]) -> u64 {
        let mut c = 0u64;
        for p in parts {
            for &b in *p {
                c = self.t[((c >> 56) as u8 ^ b) as usize] ^ (c << 8);
            }
        }
        c
    }
    /// label of every frame-sized slot of a segment file
    fn parse(&self, bytes: &[u8]) -> Vec<String> {
        let mut out = Vec::new();
        let mut off = 0;
        while off + FS <= bytes.len() {
            let h = &bytes[off..off + HDR];
            let pg = &bytes[off + HDR..off + FS];
            let stored = u64::from_le_bytes(h[24..32].try_into().unwrap());
            let ok = self.sum(&[&h[..24], pg]) == stored;
            let fid = u64::from_le_bytes(h[0..8].try_into().unwrap());
            let pno = u32::from_le_bytes(h[8..12].try_into().unwrap());
            let l = identify(pg);
            out.push(match (ok, l) {
                (true, Lbl::Zero) if h.iter().all(|&x| x == 0) => "ZEROFRAME".to_string(),
                (true, l) => format!("{l}(fid{fid},pg{pno})"),
                (false, l) => format!("bad:{l}"),
            });
            off += FS;
        }
        if off < bytes.len() {
            out.push(format!("partial({})", bytes.len() - off));
        }
        out
    }
}

fn read_segments(dir: &Path) -> Vec<(u64, Vec<u8>)> {
    let mut v = Vec::new();
    if let Ok(rd) = std::fs::read_dir(dir) {
        for e in rd.flatten() {
            let n = e.file_name().to_string_lossy().to_string();
            if let Some(num) = n.strip_prefix("wal.") {
                if let Ok(s) = num.parse::<u64>() {
                    v.push((s, std::fs::read(e.path()).unwrap_or_default()));
                }
            }
        }
    }
    v.sort();
    v
}

fn show_files(crc: &Crc, dir: &Path) -> String {
    read_segments(dir).iter().map(|(s, b)| format!("wal.{:06}({}B)=[{}]", s, b.len(), crc.parse(b).join(","))).collect::<Vec<_>>().join(" ")
}

// ---------------------------------------------------------------------------
// harness state of one worker
// ---------------------------------------------------------------------------
struct Harness {
    dir: PathBuf,
    targets: Vec<MmapStorage>,
    tdir: PathBuf,
    crc: Crc,
    frames_applied: u64,
    ops_executed: u64,
    /// minimal patterns already established by a full shrink in this process: (layer, class) -> [(op-level kinds, needs nosync)]
    known_min: std::collections::BTreeMap<(u8, String), Vec<(Vec<u8>, bool)>>,
    shrink_runs: u64,
}

fn res_str<T>(r: Result<eyre::Result<T>, String>) -> Result<T, String> {
    match r {
        Ok(Ok(v)) => Ok(v),
        Ok(Err(e)) => Err(format!("ERR:{}", e.to_string().lines().next().unwrap_or(""))),
        Err(p) => Err(format!("PANIC:{p}")),
    }
}

impl Harness {
    fn new(scratch: &Path) -> Harness {
        // every WalSegment::create/open allocates an 8 MiB BufWriter: keep those blocks on the
        // heap free list instead of mmap/munmap/brk-trim on every call (harness speed only)
        unsafe {
            libc::mallopt(libc::M_MMAP_THRESHOLD, 32 << 20);
            libc::mallopt(libc::M_TRIM_THRESHOLD, 1 << 30);
            libc::mallopt(libc::M_TOP_PAD, 64 << 20);
        }
        let dir = scratch.join("wal");
        let tdir = vcore::util::fresh_dir(scratch, "targets");
        let mut h = Harness { dir, targets: Vec::new(), tdir, crc: Crc::new(), frames_applied: 0, ops_executed: 0, known_min: Default::default(), shrink_runs: 0 };
        h.reset_targets();
        h
    }
    fn reset_targets(&mut self) {
        let ok = self.targets.len() == 3 && self.targets.iter().all(|s| s.page_count() == NPAGES);
        if !ok {
            self.targets.clear();
            for i in 0..3 {
                self.targets.push(MmapStorage::create(self.tdir.join(format!("t{i}.db")), NPAGES).expect("create target storage"));
            }
        }
        for s in self.targets.iter_mut() {
            for p in 0..NPAGES {
                s.page_mut(p).expect("target page").fill(SENTINEL);
            }
        }
    }

    /// run a history on a fresh log directory; the live handle is returned for the read_page oracle
    fn exec(&mut self, ops: &[Op], nosync: bool) -> (Result<Wal, String>, Model) {
        let _ = std::fs::remove_dir_all(&self.dir);
        let mut model = Model::new();
        let dir = self.dir.clone();
        let mut wal = match res_str(vcore::catch(|| Wal::create(&dir))) {
            Ok(w) => w,
            Err(e) => return (Err(format!("create:{e}")), model),
        };
        if nosync {
            wal.set_sync_mode(SyncMode::Off);
        }
        for op in ops {
            self.ops_executed += 1;
            let mut prims: Vec<Op> = Vec::new();
            match *op {
                Op::ReopenW(t, p) => {
                    prims.push(Op::Reopen);
                    prims.push(Op::W(t, p));
                }
                o => prims.push(o),
            }
            for pr in prims {
                let r: Result<(), String> = match pr {
                    Op::W(t, p) => {
                        let f = model.write(t, p);
                        let img = image(f);
                        res_str(vcore::catch(|| wal.write_frame_with_file_id(p as u32, NPAGES, &img, FILE_IDS[t as usize])))
                    }
                    Op::B(a, b) => {
                        let fa = model.write(a.0, a.1);
                        let fb = model.write(b.0, b.1);
                        let (ia, ib) = (image(fa), image(fb));
                        let batch = vec![(a.1 as u32, NPAGES, &ia[..], FILE_IDS[a.0 as usize]), (b.1 as u32, NPAGES, &ib[..], FILE_IDS[b.0 as usize])];
                        res_str(vcore::catch(|| wal.write_frames_batch(batch)))
                    }
                    Op::Rot => {
                        model.rotate();
                        res_str(vcore::catch(|| wal.rotate_segment()))
                    }
                    Op::Trunc => {
                        model.truncate();
                        res_str(vcore::catch(|| wal.truncate()))
                    }
                    Op::Reopen => {
                        drop(wal);
                        match res_str(vcore::catch(|| Wal::open(&dir))) {
                            Ok(w) => {
                                wal = w;
                                if nosync {
                                    wal.set_sync_mode(SyncMode::Off);
                                }
                                Ok(())
                            }
                            Err(e) => return (Err(format!("reopen:{e}")), model),
                        }
                    }
                    Op::ReopenW(..) => unreachable!(),
                };
                if let Err(e) = r {
                    return (Err(format!("{}:{e}", pr.kinds()[0])), model);
                }
            }
        }
        (Ok(wal), model)
    }

    /// open the log directory with a fresh handle and replay it three ways
    fn recover(&mut self) -> Snapshot {
        self.reset_targets();
        let dir = self.dir.clone();
        let wal = match res_str(vcore::catch(|| Wal::open(&dir))) {
            Ok(w) => w,
            Err(e) => {
                let r = RecObs { count: e, pages: vec![Lbl::Untouched; NPAGES as usize] };
                return Snapshot { whole: r.clone(), per: vec![r.clone(), r] };
            }
        };
        let mut outs = Vec::new();
        for i in 0..3 {
            let st = &mut self.targets[i];
            let r = if i == 0 { res_str(vcore::catch(|| wal.recover(st))) } else { res_str(vcore::catch(|| wal.recover_for_file(st, FILE_IDS[i - 1]))) };
            let count = match r {
                Ok(n) => {
                    self.frames_applied += n as u64;
                    n.to_string()
                }
                Err(e) => e,
            };
            let st = &self.targets[i];
            let pages = (0..st.page_count()).map(|p| identify(st.page(p).unwrap_or(&[]))).collect();
            outs.push(RecObs { count, pages });
        }
        let per = outs.split_off(1);
        Snapshot { whole: outs.pop().unwrap(), per }
    }
}

#[derive(Clone, Debug)]
struct Div {
    class: String,
    expected: String,
    observed: String,
}

struct NodeRes {
    replay: Option<Div>,
    rp: Option<Div>,
    model: Model,
}

/// read_page on the live handle must return the last image the model holds for the page
fn read_page_oracle(wal: &Wal, model: &Model, nosync: bool) -> Option<Div> {
    if nosync {
        // frames may still sit in the BufWriter: make them visible to the mmap reader first
        if let Err(e) = res_str(vcore::catch(|| wal.sync())) {
            return Some(Div { class: "read_page-sync-error".into(), expected: "Ok".into(), observed: e });
        }
    }
    let frames = model.frames();
    let mut exp = Vec::new();
    let mut obs = Vec::new();
    let mut class: Option<&'static str> = None;
    // classes: panic > wrong-result (error, wrong image, image for a page the model does not hold) > hides-frame
    let bump = |c: &'static str, class: &mut Option<&'static str>| {
        let rank = |x: &str| match x {
            "read_page-panic" => 0,
            "read_page-wrong-result" => 1,
            _ => 2,
        };
        if class.map(|o| rank(c) < rank(o)).unwrap_or(true) {
            *class = Some(c);
        }
    };
    for t in 0..2u8 {
        for p in 0..NPAGES as u8 {
            let want = frames.iter().rev().find(|f| f.t == t && f.p == p).map(|f| Lbl::Img(*f));
            let got = res_str(vcore::catch(|| wal.read_page(FILE_IDS[t as usize], p as u32)));
            let ws = want.map(|l| l.to_string()).unwrap_or("none".into());
            let gs = match &got {
                Ok(Some(b)) => identify(b).to_string(),
                Ok(None) => "none".into(),
                Err(e) => e.clone(),
            };
            if ws != gs {
                match (&want, &got) {
                    (_, Err(e)) if e.starts_with("PANIC") => bump("read_page-panic", &mut class),
                    (Some(_), Ok(None)) => bump("read_page-hides-frame", &mut class),
                    _ => bump("read_page-wrong-result", &mut class),
                }
            }
            exp.push(format!("t{t}p{p}={ws}"));
            obs.push(format!("t{t}p{p}={gs}"));
        }
    }
    class.map(|c| Div { class: c.to_string(), expected: exp.join(" "), observed: obs.join(" ") })
}

/// execute one history and evaluate every oracle layer on its end state
fn eval_node(h: &mut Harness, ops: &[Op], nosync: bool, want_rp: bool, want_replay: bool) -> NodeRes {
    let (wal, model) = h.exec(ops, nosync);
    let wal = match wal {
        Ok(w) => w,
        Err(e) => {
            let class = if e.contains("PANIC") { "op-panic" } else { "op-error" };
            return NodeRes { replay: Some(Div { class: class.into(), expected: "every operation returns Ok".into(), observed: e }), rp: None, model };
        }
    };
    let rp = if want_rp { read_page_oracle(&wal, &model, nosync) } else { None };
    drop(wal);
    if !want_replay {
        return NodeRes { replay: None, rp, model };
    }
    let exp = expect_from(&model.frames());
    let obs = h.recover();
    let replay = classify(&exp, &obs).map(|c| Div { class: c.to_string(), expected: exp.show(), observed: format!("{} | files: {}", obs.show(), show_files(&h.crc, &h.dir)) });
    NodeRes { replay, rp, model }
}

#[derive(Clone, Copy, PartialEq, Eq)]
enum Layer {
    Replay,
    ReadPage,
}

fn shows(h: &mut Harness, ops: &[Op], nosync: bool, layer: Layer, class: &str) -> bool {
    h.shrink_runs += 1;
    let r = eval_node(h, ops, nosync, layer == Layer::ReadPage, layer == Layer::Replay);
    if layer == Layer::ReadPage && r.replay.as_ref().map(|d| d.class.starts_with("op-")).unwrap_or(false) {
        return false;
    }
    let d = match layer {
        Layer::Replay => r.replay,
        Layer::ReadPage => r.rp,
    };
    d.map(|d| d.class == class).unwrap_or(false)
}

/// deterministic 1-minimal shrink (drop an op / simplify an op / drop the no-sync mode)
/// preserving layer + class at the end of the history
fn shrink(h: &mut Harness, ops: &[Op], nosync: bool, layer: Layer, class: &str) -> (Vec<Op>, bool) {
    let mut cur = ops.to_vec();
    let mut ns = nosync;
    loop {
        let mut changed = false;
        if ns && shows(h, &cur, false, layer, class) {
            ns = false;
            changed = true;
        }
        if !changed {
            for i in 0..cur.len() {
                if cur.len() == 1 {
                    break;
                }
                let mut c = cur.clone();
                c.remove(i);
                if shows(h, &c, ns, layer, class) {
                    cur = c;
                    changed = true;
                    break;
                }
            }
        }
        if !changed {
            'outer: for i in 0..cur.len() {
                for s in cur[i].simpler() {
                    let mut c = cur.clone();
                    c[i] = s;
                    if shows(h, &c, ns, layer, class) {
                        cur = c;
                        changed = true;
                        break 'outer;
                    }
                }
            }
        }
        if !changed {
            return (cur, ns);
        }
    }
}

fn kind_id(op: &Op) -> u8 {
    match op {
        Op::W(..) => 0,
        Op::B(..) => 1,
        Op::Rot => 2,
        Op::Trunc => 3,
        Op::Reopen => 4,
        Op::ReopenW(..) => 5,
    }
}

/// sub-histories of `ops` (last op kept, ops possibly simplified) whose op kinds equal `kinds`
fn matching_subsequences(ops: &[Op], kinds: &[u8], limit: usize) -> Vec<Vec<Op>> {
    fn go(ops: &[Op], kinds: &[u8], from: usize, acc: &mut Vec<Op>, out: &mut Vec<Vec<Op>>, limit: usize) {
        if out.len() >= limit {
            return;
        }
        let k = acc.len();
        if k == kinds.len() {
            out.push(acc.clone());
            return;
        }
        let last_slot = k + 1 == kinds.len();
        let range = if last_slot { ops.len() - 1..ops.len() } else { from..ops.len() - 1 };
        for i in range {
            if i < from {
                continue;
            }
            let mut forms = vec![ops[i]];
            forms.extend(ops[i].simpler());
            for f in forms {
                if kind_id(&f) == kinds[k] {
                    acc.push(f);
                    go(ops, kinds, i + 1, acc, out, limit);
                    acc.pop();
                }
            }
        }
    }
    let mut out = Vec::new();
    if !ops.is_empty() && !kinds.is_empty() && kinds.len() <= ops.len() {
        go(ops, kinds, 0, &mut Vec::new(), &mut out, limit);
    }
    out
}

/// minimal sub-history that still shows (layer, class): first try the patterns a full shrink already
/// established in this process (each candidate is re-executed, so the answer is always a real reproducer),
/// otherwise do the full shrink and remember its pattern
fn minimise(h: &mut Harness, ops: &[Op], nosync: bool, layer: Layer, class: &str) -> (Vec<Op>, bool) {
    let key = (layer as u8, class.to_string());
    let known = h.known_min.get(&key).cloned().unwrap_or_default();
    for (kinds, kns) in &known {
        if *kns && !nosync {
            continue;
        }
        for cand in matching_subsequences(ops, kinds, 6) {
            if shows(h, &cand, *kns, layer, class) {
                return (cand, *kns);
            }
        }
    }
    let (min, ns) = shrink(h, ops, nosync, layer, class);
    let kinds: Vec<u8> = min.iter().map(kind_id).collect();
    let e = h.known_min.entry(key).or_default();
    if !e.contains(&(kinds.clone(), ns)) {
        e.push((kinds, ns));
    }
    (min, ns)
}

fn report_div(h: &mut Harness, rep: &mut Reporter, alpha: &str, ops: &[Op], nosync: bool, layer: Layer, d: &Div) {
    let (min, ns) = minimise(h, ops, nosync, layer, &d.class);
    let sig = format!("C03/history/{}/{}", pattern(&min, ns), d.class);
    let oracle = match layer {
        Layer::Replay => "replay",
        Layer::ReadPage => "read_page",
    };
    rep.violation("C03", oracle, &sig, || json!({"part": "history", "alphabet": alpha, "nosync": nosync, "ops": enc_ops(ops), "minimal": enc_ops(&min), "minimal_nosync": ns}), &d.expected, &d.observed);
}

// ---------------------------------------------------------------------------
// part 1: histories
// ---------------------------------------------------------------------------
struct Node {
    ops: Vec<Op>,
    rp_div: bool,
}

fn subtree(alpha: usize, remaining: usize) -> u64 {
    let mut n = 0u64;
    let mut k = 1u64;
    for _ in 0..remaining {
        k = k.saturating_mul(alpha as u64);
        n = n.saturating_add(k);
    }
    n
}

/// process one node; returns the child entry when the history may be extended
fn visit(h: &mut Harness, rep: &mut Reporter, alpha: &str, nosync: bool, parent: &Node, op: Op, report: bool, rp_depth: usize) -> (Option<Node>, bool) {
    let mut ops = parent.ops.clone();
    ops.push(op);
    if report {
        rep.begin_case(&json!({"part": "history", "alphabet": alpha, "nosync": nosync, "ops": enc_ops(&ops)}).to_string());
    }
    let want_rp = !parent.rp_div && ops.len() <= rp_depth;
    let r = eval_node(h, &ops, nosync, want_rp, true);
    if report && want_rp {
        rep.count("histories_with_read_page_oracle", 1);
    }
    let mut rp_div = parent.rp_div;
    if report {
        let nwrites: u64 = ops.iter().map(|o| o.writes()).sum();
        rep.case(vcore::util::hash_of(&(alpha, nosync, &ops)), nwrites > 0);
        rep.add_states(1);
        rep.add_transitions(1);
        rep.add_traces_validated(1);
        rep.count("histories", 1);
        rep.count(if nosync { "histories_nosync" } else { "histories_fullsync" }, 1);
        rep.count("frames_written", op.writes());
        let reopened_before = parent.ops.iter().any(|o| matches!(o, Op::Reopen | Op::ReopenW(..)));
        match op {
            Op::Rot => rep.count("rotations", 1),
            Op::Trunc => rep.count("truncations", 1),
            Op::Reopen => rep.count("reopens", 1),
            Op::ReopenW(..) => {
                rep.count("reopens", 1);
                rep.count("reopen_appends", 1);
            }
            Op::W(..) | Op::B(..) if reopened_before => rep.count("reopen_appends", 1),
            _ => {}
        }
        if r.model.segs.len() > 1 {
            rep.count("histories_ending_with_multiple_segments", 1);
        }
    }
    if !parent.rp_div {
        if let Some(d) = &r.rp {
            rp_div = true;
            if report {
                rep.outcome(&format!("diverged:{}", d.class));
                rep.count("read_page_divergences", 1);
                report_div(h, rep, alpha, &ops, nosync, Layer::ReadPage, d);
            }
        }
    }
    if let Some(d) = &r.replay {
        if report {
            rep.outcome(&format!("diverged:{}", d.class));
            rep.count("replay_divergences", 1);
            report_div(h, rep, alpha, &ops, nosync, Layer::Replay, d);
        }
        return (None, true);
    }
    if report {
        let fr = r.model.frames().len();
        rep.outcome(&format!("ok:segments={}:frames_replayed={}", r.model.segs.len(), fr));
        rep.sample(|| json!({"part": "history", "alphabet": alpha, "nosync": nosync, "ops": enc_ops(&ops)}));
    }
    (Some(Node { ops, rp_div }), false)
}

fn explore(ctx: &Ctx, h: &mut Harness, rep: &mut Reporter, alpha: &str, nosync: bool, depth: usize, rp_depth: usize) -> bool {
    let ab = alphabet(alpha);
    // level-1 nodes are executed by every worker (reported by their owner); level-2 nodes and their subtrees are dealt round-robin
    let split = 2usize.min(depth);
    let mut frontier = vec![Node { ops: vec![], rp_div: false }];
    let mut idx = 0u64;
    let mut since_check = 0u32;
    for level in 1..=depth {
        let mut next = Vec::new();
        for node in &frontier {
            for &op in &ab {
                idx += 1;
                let owner = ctx.mine(idx);
                if level == split && !owner {
                    continue;
                }
                let report = level >= split || owner;
                let (child, pruned) = visit(h, rep, alpha, nosync, node, op, report, rp_depth);
                if pruned && report {
                    rep.pruned(subtree(ab.len(), depth - level));
                }
                if let Some(c) = child {
                    if level < depth {
                        next.push(c);
                    }
                }
                since_check += 1;
                if since_check >= 256 {
                    since_check = 0;
                    if ctx.expired() {
                        rep.capped(&format!("deadline in history pass alphabet={alpha} nosync={nosync} at level {level} (all levels below were completed)"));
                        return false;
                    }
                }
            }
        }
        frontier = next;
    }
    true
}

// ---------------------------------------------------------------------------
// part 2: faults on the final files of short histories
// ---------------------------------------------------------------------------
#[derive(Clone, Copy, Debug, PartialEq, Eq)]
enum Fault {
    Trunc { seg: u64, off: u64 },
    ZeroSector { seg: u64, k: u64 },
    Flip { seg: u64, off: u64, mask: u8 },
    ZeroExtend { seg: u64, n: u64 },
}
impl Fault {
    fn to_json(&self) -> Value {
        match *self {
            Fault::Trunc { seg, off } => json!({"kind": "trunc", "seg": seg, "off": off}),
            Fault::ZeroSector { seg, k } => json!({"kind": "zero-sector", "seg": seg, "k": k}),
            Fault::Flip { seg, off, mask } => json!({"kind": "flip", "seg": seg, "off": off, "mask": mask}),
            Fault::ZeroExtend { seg, n } => json!({"kind": "zero-region", "seg": seg, "n": n}),
        }
    }
    fn from_json(v: &Value) -> Option<Fault> {
        let seg = v["seg"].as_u64()?;
        match v["kind"].as_str()? {
            "trunc" => Some(Fault::Trunc { seg, off: v["off"].as_u64()? }),
            "zero-sector" => Some(Fault::ZeroSector { seg, k: v["k"].as_u64()? }),
            "flip" => Some(Fault::Flip { seg, off: v["off"].as_u64()?, mask: v["mask"].as_u64()? as u8 }),
            "zero-region" => Some(Fault::ZeroExtend { seg, n: v["n"].as_u64()? }),
            _ => None,
        }
    }
    fn kind(&self) -> &'static str {
        match *self {
            Fault::Trunc { .. } => "trunc",
            Fault::ZeroSector { .. } => "zero-sector",
            Fault::Flip { off, .. } => {
                if (off as usize) % FS < HDR {
                    "flip-header"
                } else {
                    "flip-payload"
                }
            }
            Fault::ZeroExtend { .. } => "zero-region",
        }
    }
}

fn faults_for(model: &Model) -> Vec<Fault> {
    let mut v = Vec::new();
    let last = model.segs.last().unwrap().0;
    for (seg, frs) in &model.segs {
        let seg = *seg;
        let len = (frs.len() * FS) as u64;
        // truncations
        let mut offs: BTreeSet<u64> = BTreeSet::new();
        let mut o = 0u64;
        while o < len {
            offs.insert(o);
            o += 512;
        }
        for i in 0..=frs.len() as u64 {
            let b = i * FS as u64;
            for x in [b.wrapping_sub(1), b, b + 1] {
                if x < len {
                    offs.insert(x);
                }
            }
        }
        for off in offs {
            v.push(Fault::Trunc { seg, off });
        }
        // zero-fill of every sector
        let mut k = 0u64;
        while k * 512 < len {
            v.push(Fault::ZeroSector { seg, k });
            k += 1;
        }
        // flips
        for i in 0..frs.len() as u64 {
            let base = i * FS as u64;
            for b in 0..HDR as u64 {
                v.push(Fault::Flip { seg, off: base + b, mask: 0x01 });
                v.push(Fault::Flip { seg, off: base + b, mask: 0x80 });
            }
            for j in 0..64u64 {
                v.push(Fault::Flip { seg, off: base + HDR as u64 + j * 256 + 128, mask: 0xFF });
            }
            v.push(Fault::Flip { seg, off: base + FS as u64 - 1, mask: 0xFF });
        }
        if seg == last {
            for n in [1u64, 512, FS as u64 - 1, FS as u64, FS as u64 + 1, 2 * FS as u64] {
                v.push(Fault::ZeroExtend { seg, n });
            }
        }
    }
    v
}

/// (first damaged frame index within the segment) for a fault, None = no frame damaged
fn damage(f: &Fault, orig: &[u8], nframes: usize) -> Option<usize> {
    let first = |a: u64| -> Option<usize> {
        let i = (a as usize) / FS;
        if i < nframes {
            Some(i)
        } else {
            None
        }
    };
    match *f {
        Fault::Trunc { off, .. } => {
            if (off as usize) < orig.len() {
                first(off)
            } else {
                None
            }
        }
        Fault::ZeroSector { k, .. } => {
            let a = (k * 512) as usize;
            let b = (a + 512).min(orig.len());
            // first byte actually changed
            (a..b).find(|&i| orig[i] != 0).and_then(|i| first(i as u64))
        }
        Fault::Flip { off, .. } => first(off),
        Fault::ZeroExtend { .. } => None,
    }
}

struct SegFile {
    seq: u64,
    /// pristine bytes saved right after the history ran
    orig: Vec<u8>,
}

fn fault_seg(f: &Fault) -> u64 {
    match *f {
        Fault::Trunc { seg, .. } | Fault::ZeroSector { seg, .. } | Fault::Flip { seg, .. } | Fault::ZeroExtend { seg, .. } => seg,
    }
}

/// bytes of the faulted segment
fn corrupted(orig: &[u8], f: &Fault) -> Vec<u8> {
    let mut b = orig.to_vec();
    match *f {
        Fault::Trunc { off, .. } => b.truncate(off as usize),
        Fault::ZeroSector { k, .. } => {
            let a = (k * 512) as usize;
            let e = (a + 512).min(b.len());
            b[a..e].fill(0);
        }
        Fault::Flip { off, mask, .. } => b[off as usize] ^= mask,
        Fault::ZeroExtend { n, .. } => b.resize(orig.len() + n as usize, 0),
    }
    b
}

/// (re)write EVERY segment file from the saved pristine bytes, with the fault applied to its segment.
/// Called before every Wal::open: opening a log may trim the invalid tail of the latest segment,
/// so files are never patched in place or reused between cases.
fn materialise(dir: &Path, segs: &[SegFile], f: Option<&Fault>) -> std::io::Result<()> {
    for s in segs {
        let path = dir.join(format!("wal.{:06}", s.seq));
        match f {
            Some(f) if fault_seg(f) == s.seq => std::fs::write(&path, corrupted(&s.orig, f))?,
            _ => std::fs::write(&path, &s.orig)?,
        }
    }
    Ok(())
}

/// run the history, check that the files are exactly what the model says, then apply the given faults
fn fault_state(h: &mut Harness, rep: &mut Reporter, ops: &[Op], only: Option<Fault>) {
    let (wal, model) = h.exec(ops, false);
    let Ok(wal) = wal else {
        rep.count("fault_states_skipped_history_diverged", 1);
        return;
    };
    drop(wal);
    // layout precondition: every segment file is the concatenation of the model's frames
    let files = read_segments(&h.dir);
    let mut layout_ok = files.len() == model.segs.len();
    if layout_ok {
        for ((seq, bytes), (mseq, frs)) in files.iter().zip(model.segs.iter()) {
            let labels = h.crc.parse(bytes);
            let want: Vec<String> = frs.iter().map(|f| format!("{}(fid{},pg{})", Lbl::Img(*f), FILE_IDS[f.t as usize], f.p)).collect();
            if seq != mseq || labels != want {
                layout_ok = false;
            }
        }
    }
    if !layout_ok {
        // the history part reports these (replay divergence); faults need a known-good baseline
        rep.count("fault_states_skipped_history_diverged", 1);
        return;
    }
    let base = h.recover();
    if classify(&expect_from(&model.frames()), &base).is_some() {
        rep.count("fault_states_skipped_history_diverged", 1);
        return;
    }
    rep.count("fault_states", 1);
    if model.segs.iter().filter(|s| !s.1.is_empty()).count() > 1 {
        rep.count("fault_states_with_frames_in_several_segments", 1);
    }
    let segs: Vec<SegFile> = files.into_iter().map(|(seq, orig)| SegFile { seq, orig }).collect();
    let faults = match only {
        Some(f) => vec![f],
        None => faults_for(&model),
    };
    let mut n = 0u64;
    for f in &faults {
        let seg = fault_seg(f);
        let Some(si) = model.segs.iter().position(|s| s.0 == seg) else { continue };
        let dmg = damage(f, &segs[si].orig, model.segs[si].1.len());
        if dmg.is_none() && !matches!(f, Fault::ZeroExtend { .. }) {
            rep.count("faults_skipped_no_byte_changed", 1);
            continue;
        }
        let case = || json!({"part": "fault", "ops": enc_ops(ops), "fault": f.to_json()});
        rep.begin_case(&case().to_string());
        // every case starts from files re-created from the saved pristine bytes (Wal::open may trim the latest segment)
        materialise(&h.dir, &segs, Some(f)).expect("materialise corrupted log directory");
        let obs = h.recover();
        n += 1;
        rep.count("corruptions_tried", 1);
        rep.count(&format!("corruptions_{}", f.kind()), 1);
        // strict: global write-order prefix; lenient: per-segment prefixes (what a reader that restarts at every segment yields)
        let mut strict: Vec<Fr> = Vec::new();
        let mut lenient: Vec<Fr> = Vec::new();
        let mut stopped = false;
        for (i, (_, frs)) in model.segs.iter().enumerate() {
            let cut = if i == si { dmg.unwrap_or(frs.len()) } else { frs.len() };
            lenient.extend_from_slice(&frs[..cut]);
            if !stopped {
                strict.extend_from_slice(&frs[..cut]);
                if cut < frs.len() {
                    stopped = true;
                }
            }
        }
        if dmg.is_some() {
            rep.count("corruptions_damaging_a_frame", 1);
            if strict.len() < lenient.len() {
                rep.count("corruptions_with_valid_frames_after_the_damage_in_later_segments", 1);
            }
        }
        let es = expect_from(&strict);
        let Some(cls) = classify(&es, &obs) else {
            rep.outcome(&format!("fault-ok:{}:applied={}", f.kind(), strict.len()));
            continue;
        };
        let files_now = || -> String {
            // what recovery was given (before any trimming by Wal::open)
            let _ = materialise(&h.dir, &segs, Some(f));
            show_files(&h.crc, &h.dir)
        };
        if strict.len() < lenient.len() && classify(&expect_from(&lenient), &obs).is_none() {
            // a cut exactly at a frame boundary leaves no bad frame behind (only the write-order gap);
            // any other damage leaves a torn/invalid frame in the earlier segment
            let clean_cut = matches!(*f, Fault::Trunc { off, .. } if off as usize % FS == 0);
            let sig = if clean_cut { "C03/corrupt/earlier-segment-cut-at-frame-boundary/later-segment-replayed" } else { "C03/corrupt/bad-frame-in-earlier-segment/later-segment-replayed" };
            rep.outcome(if clean_cut { "fault-diverged:later-segment-replayed-after-clean-cut" } else { "fault-diverged:later-segment-replayed-after-bad-frame" });
            rep.violation("C03", "corrupt-prefix", sig, case, &es.show(), &format!("{} | files: {}", obs.show(), files_now()));
            continue;
        }
        let sig = if matches!(f, Fault::ZeroExtend { .. }) && (cls == "zero-frame-applied" || cls == "extra-frames-applied") {
            "C03/corrupt/zero-region/replayed-as-frame".to_string()
        } else {
            format!("C03/corrupt/{}/{}", f.kind(), cls)
        };
        rep.outcome(&format!("fault-diverged:{}:{}", f.kind(), cls));
        rep.violation("C03", "corrupt-prefix", &sig, case, &es.show(), &format!("{} | files: {}", obs.show(), files_now()));
    }
    rep.bulk(n, n);
}

/// run the history and return (model, pristine segment bytes) when the files are exactly what the model says
fn pristine_state(h: &mut Harness, ops: &[Op]) -> Option<(Model, Vec<SegFile>)> {
    let (wal, model) = h.exec(ops, false);
    drop(wal.ok()?);
    let files = read_segments(&h.dir);
    if files.len() != model.segs.len() {
        return None;
    }
    for ((seq, bytes), (mseq, frs)) in files.iter().zip(model.segs.iter()) {
        let labels = h.crc.parse(bytes);
        let want: Vec<String> = frs.iter().map(|f| format!("{}(fid{},pg{})", Lbl::Img(*f), FILE_IDS[f.t as usize], f.p)).collect();
        if seq != mseq || labels != want {
            return None;
        }
    }
    Some((model, files.into_iter().map(|(seq, orig)| SegFile { seq, orig }).collect()))
}

/// faults of the fault-then-continue pass: only in the segment new frames are appended to (the last one)
fn continue_faults(model: &Model) -> Vec<Fault> {
    let (seg, frs) = model.segs.last().unwrap();
    let seg = *seg;
    let mut v = Vec::new();
    let len = (frs.len() * FS) as u64;
    for i in 0..frs.len() as u64 {
        let base = i * FS as u64;
        for b in 0..HDR as u64 {
            v.push(Fault::Flip { seg, off: base + b, mask: 0x01 });
        }
        v.push(Fault::Flip { seg, off: base + HDR as u64 + 8192, mask: 0xFF });
        // the sector holding the frame's header, and one in the middle of its payload
        v.push(Fault::ZeroSector { seg, k: base / 512 });
        v.push(Fault::ZeroSector { seg, k: (base + HDR as u64 + 8192) / 512 });
    }
    let mut offs: BTreeSet<u64> = BTreeSet::new();
    for i in 0..=frs.len() as u64 {
        let b = i * FS as u64;
        for x in [b.wrapping_sub(1), b, b + 1] {
            if x < len {
                offs.insert(x);
            }
        }
    }
    for off in offs {
        v.push(Fault::Trunc { seg, off });
    }
    v
}

/// fault-then-continue: corrupt the last segment, reopen, append ONE new frame, drop, reopen and replay.
/// Expected: exactly the frames before the first damaged one (write order) followed by the new frame.
fn continue_state(h: &mut Harness, rep: &mut Reporter, ops: &[Op], only: Option<(Fault, (u8, u8))>) {
    let Some((model, segs)) = pristine_state(h, ops) else {
        rep.count("continue_states_skipped_history_diverged", 1);
        return;
    };
    rep.count("continue_states", 1);
    let (last_seq, last_frs) = model.segs.last().unwrap().clone();
    let si = model.segs.len() - 1;
    let all = model.frames();
    let faults = match only {
        Some((f, _)) => vec![f],
        None => continue_faults(&model),
    };
    let mut n = 0u64;
    for f in &faults {
        if fault_seg(f) != last_seq {
            continue;
        }
        let Some(dmg) = damage(f, &segs[si].orig, last_frs.len()) else {
            rep.count("faults_skipped_no_byte_changed", 1);
            continue;
        };
        let behind: Vec<Fr> = last_frs[dmg + 1..].to_vec();
        // page variants: (a) a page with an older valid image BEHIND the damaged frame (else the damaged frame's own page),
        // (b) a page no frame of the log touches
        let mut pages: Vec<((u8, u8), &'static str)> = Vec::new();
        match only {
            Some((_, tp)) => pages.push((tp, "replayed")),
            None => {
                let a = behind.last().map(|x| (x.t, x.p)).unwrap_or((last_frs[dmg].t, last_frs[dmg].p));
                pages.push((a, if behind.is_empty() { "page-of-damaged-frame" } else { "page-with-stale-image-behind-damage" }));
                let free = (0..2u8).flat_map(|t| (0..NPAGES as u8).map(move |p| (t, p))).find(|tp| !all.iter().any(|x| (x.t, x.p) == *tp));
                if let Some(tp) = free {
                    pages.push((tp, "untouched-page"));
                }
            }
        }
        for (tp, variant) in pages {
            let newf = Fr { t: tp.0, p: tp.1, v: model.next_v };
            let case = || json!({"part": "fault-continue", "ops": enc_ops(ops), "fault": f.to_json(), "page": [tp.0, tp.1]});
            rep.begin_case(&case().to_string());
            materialise(&h.dir, &segs, Some(f)).expect("materialise corrupted log directory");
            let dir = h.dir.clone();
            let img = image(newf);
            let step: Result<(), String> = res_str(vcore::catch(|| -> eyre::Result<()> {
                let wal = Wal::open(&dir)?;
                wal.write_frame_with_file_id(newf.p as u32, NPAGES, &img, FILE_IDS[newf.t as usize])?;
                drop(wal);
                Ok(())
            }));
            n += 1;
            rep.count("continue_cases", 1);
            rep.count(&format!("continue_cases_{variant}"), 1);
            rep.count(&format!("continue_cases_{}", f.kind()), 1);
            if !behind.is_empty() {
                rep.count("continue_cases_with_valid_frames_behind_the_damage", 1);
            }
            let mut want: Vec<Fr> = model.segs[..si].iter().flat_map(|s| s.1.iter().copied()).collect();
            want.extend_from_slice(&last_frs[..dmg]);
            want.push(newf);
            let es = expect_from(&want);
            if let Err(e) = step {
                let cls = if e.starts_with("PANIC") { "panic-on-reopen-append" } else { "error-on-reopen-append" };
                rep.outcome(&format!("continue-diverged:{}:{cls}", f.kind()));
                rep.violation("C03", "corrupt-continue", &format!("C03/corrupt-continue/{}/{cls}", f.kind()), case, "open + append return Ok", &e);
                continue;
            }
            let files_after = show_files(&h.crc, &h.dir);
            let obs = h.recover();
            let Some(generic) = classify(&es, &obs) else {
                rep.outcome(&format!("continue-ok:{}:{variant}", f.kind()));
                continue;
            };
            // frames that must never be seen again: the damaged one and everything written after it
            let stale: Vec<Fr> = last_frs[dmg..].to_vec();
            let recs: Vec<&RecObs> = std::iter::once(&obs.whole).chain(obs.per.iter()).collect();
            let sees_stale = recs.iter().any(|r| r.pages.iter().any(|l| matches!(l, Lbl::Img(x) if stale.contains(x))));
            let new_ok = obs.whole.pages.get(newf.p as usize) == Some(&Lbl::Img(newf)) && obs.per[newf.t as usize].pages.get(newf.p as usize) == Some(&Lbl::Img(newf));
            let num = |s: &str| s.parse::<i64>().unwrap_or(-1);
            let cls = if generic == "panic" || generic == "recover-error" {
                generic
            } else if sees_stale || (new_ok && num(&obs.whole.count) > num(&es.whole.count)) {
                "stale-frame-replayed-after-append"
            } else if !new_ok {
                "new-frame-lost"
            } else {
                generic
            };
            rep.outcome(&format!("continue-diverged:{}:{cls}", f.kind()));
            rep.violation("C03", "corrupt-continue", &format!("C03/corrupt-continue/{}/{cls}", f.kind()), case, &es.show(), &format!("{} | files after append: {}", obs.show(), files_after));
        }
    }
    rep.bulk(n, n);
}

/// distinct final file shapes (segment numbers + (table,page) sequence per segment) of all histories up to `depth`,
/// each with the first (shortest) history producing it — computed on the model alone, identically in every worker
fn fault_seeds(spec: &str) -> Vec<Vec<Op>> {
    let mut seen: BTreeSet<Vec<(u64, Vec<(u8, u8)>)>> = BTreeSet::new();
    let mut out = Vec::new();
    for part in spec.split('+') {
        let (alpha, depth) = part.split_once('@').unwrap_or((part, "3"));
        fault_seeds_one(alpha, depth.parse().unwrap_or(3), &mut seen, &mut out);
    }
    out
}

fn fault_seeds_one(alpha: &str, depth: usize, seen: &mut BTreeSet<Vec<(u64, Vec<(u8, u8)>)>>, out: &mut Vec<Vec<Op>>) {
    let ab = alphabet(alpha);
    let mut frontier: Vec<(Vec<Op>, Model)> = vec![(vec![], Model::new())];
    for _ in 1..=depth {
        let mut next = Vec::new();
        for (ops, m) in &frontier {
            for &op in &ab {
                let mut m2 = m.clone();
                match op {
                    Op::W(t, p) | Op::ReopenW(t, p) => {
                        m2.write(t, p);
                    }
                    Op::B(a, b) => {
                        m2.write(a.0, a.1);
                        m2.write(b.0, b.1);
                    }
                    Op::Rot => m2.rotate(),
                    Op::Trunc => m2.truncate(),
                    Op::Reopen => {}
                }
                let mut o2 = ops.clone();
                o2.push(op);
                if seen.insert(m2.shape()) && !m2.frames().is_empty() {
                    out.push(o2.clone());
                }
                next.push((o2, m2));
            }
        }
        frontier = next;
    }
}

// ---------------------------------------------------------------------------
struct C03;

impl Check for C03 {
    fn specs(&self) -> Vec<Spec> {
        let mut s = Spec::new(
            "C03",
            "model_checking",
            "part 1 (histories): every sequence of operations on a real Wal in an empty directory, breadth-first (shortest first), every history re-executed from scratch and all oracles (recover, recover_for_file per file id, read_page) evaluated after EVERY history; a history is not extended once replay diverges from the model. 2 file ids x 3 pages, every frame carries a unique recognisable image. Alphabets: full = write(tbl,page) x6, write_batch[2] x3, rotate, truncate, reopen, reopen+write x2 (14 ops) to depth 4 (quick) / 5 (thorough) in SyncMode::Full and to depth 3 / 4 in SyncMode::Off; medium (10 ops) to depth 5 (thorough only; --opt depth_medium=6 for more); small (7 ops) to depth 5 / 7. read_page is evaluated on histories up to length 3 / 4. Distinct = distinct (alphabet, sync mode, op sequence); non-trivial = writes at least one frame. part 2 (faults): for every distinct final file shape (segment numbers + (table,page) sequence per segment) of the histories medium-alphabet<=2 + small-alphabet<=3 (quick) / medium-alphabet<=4 (thorough), each case on files re-created from saved pristine bytes (Wal::open may trim the latest segment): every truncation offset k*512 and b-1,b,b+1 around every frame boundary b, zero-fill of every 512-byte sector, flips of every header byte (masks 01 and 80) and of 65 payload bytes per frame (mask FF), zero-extension of the last segment by 1, 512, F-1, F, F+1, 2F bytes (F = frame size 16416); one case = one fault on one file shape; expected = frames before the first damaged frame in write order. part 3 (fault-then-continue): for the same file shapes, every flip (mask 01) of every header byte, one payload flip, zero-fill of the header sector and of a mid-payload sector of every frame, and truncation at b-1,b,b+1 of every frame boundary of the LAST segment; then Wal::open, append ONE new frame (variant a: for a page that has an older valid image behind the damaged frame, else the page of the damaged frame; variant b: for a page nothing touches), drop, reopen, replay; expected = frames before the damaged one followed by the new frame.",
        );
        s.assumptions = &[
            "expected replay comes from the harness's own model (frames since last truncate, segment order) and its own page images; file layout is parsed by an independent CRC-64/ECMA-182 reader",
            "Wal::recover ignores file ids by design (single-storage API): its expected result is computed over page numbers only; recover_for_file is checked per file id",
            "recovery is always performed through a fresh Wal::open after dropping the writer (drop flushes the BufWriter), so no crash model is involved (C01/C02 cover crashes)",
            "segment files live on tmpfs (/dev/shm): fsync ordering is not exercised",
        ];
        s.cap_quick_s = 100;
        s.cap_thorough_s = 1500;
        s.crash_is_verdict = true;
        vec![s]
    }

    fn run(&self, ctx: &Ctx, rep: &mut Reporter) {
        let mut h = Harness::new(&ctx.scratch);
        for c in ["histories", "frames_written", "rotations", "truncations", "reopens", "reopen_appends", "corruptions_tried", "frames_applied_on_recovery", "fault_states", "fault_states_with_frames_in_several_segments", "continue_cases", "continue_cases_with_valid_frames_behind_the_damage", "continue_cases_untouched-page", "corruptions_damaging_a_frame", "histories_ending_with_multiple_segments"] {
            rep.expect_nonzero(c);
        }
        let d_full = ctx.opt("depth").and_then(|s| s.parse().ok()).unwrap_or(ctx.tier.pick(4usize, 5usize));
        let d_nosync = ctx.opt("depth_nosync").and_then(|s| s.parse().ok()).unwrap_or(ctx.tier.pick(3usize, 4usize));
        let d_medium = ctx.opt("depth_medium").and_then(|s| s.parse().ok()).unwrap_or(ctx.tier.pick(0usize, 5usize));
        let d_small = ctx.opt("depth_small").and_then(|s| s.parse().ok()).unwrap_or(ctx.tier.pick(5usize, 7usize));
        let d_rp = ctx.opt("depth_read_page").and_then(|s| s.parse().ok()).unwrap_or(ctx.tier.pick(3usize, 4usize));
        rep.bound("read_page_oracle_evaluated_up_to_history_length", json!(d_rp));
        rep.bound("history_depth_full_alphabet_fullsync", json!(d_full));
        rep.bound("history_depth_full_alphabet_nosync", json!(d_nosync));
        rep.bound("history_depth_small_alphabet_fullsync", json!(d_small));
        rep.bound("history_depth_medium_alphabet_fullsync", json!(d_medium));
        rep.bound("alphabet_medium", json!(enc_ops(&alphabet("medium"))));
        rep.bound("alphabet_full", json!(enc_ops(&alphabet("full"))));
        rep.bound("alphabet_small", json!(enc_ops(&alphabet("small"))));
        let only = ctx.opt("only").unwrap_or("");
        let mut complete = true;
        if ctx.worker == 0 {
            // the empty history
            let r = eval_node(&mut h, &[], false, true, true);
            rep.case(0, false);
            if let Some(d) = r.replay {
                rep.violation("C03", "replay", &format!("C03/history/[]/{}", d.class), || json!({"part": "history", "alphabet": "full", "nosync": false, "ops": []}), &d.expected, &d.observed);
            }
        }
        // fault seeds (file shapes) are computed on the model alone, identically in every worker
        let a_fault = ctx.opt("fault_histories").unwrap_or(ctx.tier.pick("medium@2+small@3", "medium@4")).to_string();
        rep.bound("fault_histories_alphabet_at_depth", json!(a_fault));
        let seeds = fault_seeds(&a_fault);
        rep.bound("fault_file_shapes", json!(seeds.len()));
        // order: part 3 (fault-then-continue; small, so it always completes), part 1 full alphabet, part 2 (faults), remaining history passes
        for pass in ["continue", "full", "fault"] {
            if !complete {
                break;
            }
            if pass == "full" {
                if only.is_empty() || only == "full" {
                    complete &= explore(ctx, &mut h, rep, "full", false, d_full, d_rp);
                }
                continue;
            }
            if !(only.is_empty() || only == "fault" || only == pass) {
                continue;
            }
            for (i, ops) in seeds.iter().enumerate() {
                if !ctx.mine(i as u64) {
                    continue;
                }
                if pass == "continue" {
                    continue_state(&mut h, rep, ops, None);
                } else {
                    fault_state(&mut h, rep, ops, None);
                }
                if ctx.expired() {
                    rep.capped(&format!("deadline in {pass} pass at file shape {i} of {}", seeds.len()));
                    complete = false;
                    break;
                }
            }
        }
        if complete && (only.is_empty() || only == "small") {
            complete &= explore(ctx, &mut h, rep, "small", false, d_small, d_rp);
        }
        if complete && (only.is_empty() || only == "nosync") {
            complete &= explore(ctx, &mut h, rep, "full", true, d_nosync, d_rp.min(d_nosync.saturating_sub(1)));
        }
        if complete && d_medium > 0 && (only.is_empty() || only == "medium") {
            explore(ctx, &mut h, rep, "medium", false, d_medium, d_rp);
        }
        rep.count("frames_applied_on_recovery", h.frames_applied);
        rep.count("operations_executed_including_reexecution", h.ops_executed);
        rep.count("minimisation_reexecutions", h.shrink_runs);
    }

    fn replay(&self, ctx: &Ctx, case: &Value, rep: &mut Reporter) {
        let mut h = Harness::new(&ctx.scratch);
        let ops = dec_ops(&case["ops"]);
        if case["part"].as_str() == Some("fault-continue") {
            let tp = (case["page"][0].as_u64().unwrap_or(0) as u8 % 2, case["page"][1].as_u64().unwrap_or(0) as u8 % NPAGES as u8);
            if let Some(f) = Fault::from_json(&case["fault"]) {
                continue_state(&mut h, rep, &ops, Some((f, tp)));
            }
            rep.case(2, true);
            return;
        }
        if case["part"].as_str() == Some("fault") {
            if let Some(f) = Fault::from_json(&case["fault"]) {
                fault_state(&mut h, rep, &ops, Some(f));
            }
            rep.case(1, true);
            return;
        }
        let alpha = case["alphabet"].as_str().unwrap_or("full").to_string();
        let nosync = case["nosync"].as_bool().unwrap_or(false);
        // walk the prefixes exactly like the explorer does (first divergence is reported, then stop)
        let mut node = Node { ops: vec![], rp_div: false };
        if ops.is_empty() {
            let r = eval_node(&mut h, &[], false, true, true);
            rep.case(0, false);
            if let Some(d) = r.replay {
                rep.violation("C03", "replay", &format!("C03/history/[]/{}", d.class), || case.clone(), &d.expected, &d.observed);
            }
            return;
        }
        for &op in &ops {
            let (child, _) = visit(&mut h, rep, &alpha, nosync, &node, op, true, usize::MAX);
            match child {
                Some(c) => node = c,
                None => break,
            }
        }
    }
}

fn main() {
    vcore::main(&C03)
}
