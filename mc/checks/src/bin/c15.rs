//! C15 — ORDER BY, LIMIT, OFFSET and DISTINCT are exact (engine QRY, exploration).
//!
//! Bounded-exhaustive query x table enumeration against the SQL reference model.
//!
//! Tables: every multiset of <= 4 (quick) / <= 6 (thorough) rows over the 2-column
//! domain {NULL,1,2} x {NULL,'a','b'} (inserted in a fixed scrambled domain order, so the
//! scan order is sorted under no key in both directions), each as `t(a INT, c TEXT)`
//! ("plain") and as `t(id INT PRIMARY KEY, a INT, c TEXT)` ("pk"), plus fixed 8-row tables
//! with many duplicates.  Every database also holds the fixed tables `u(a,d)` (join partner)
//! and `v(a,c)` (UNION partner).
//!
//! Second table kind "ab": `t(a INT, b INT)` [+ pk variant] — two columns of the SAME type over {NULL,1,2},
//! every multiset of <= 2 (quick) / <= 4 (thorough) rows + two fixed 8-row tables, so that rows which are
//! column permutations of each other ((1,2)/(2,1), (NULL,1)/(1,NULL)) and rows of one repeated value
//! ((1,1),(2,2),(NULL,NULL)) occur together.  Bases there: SELECT *, DISTINCT a,b | b,a | a,b,a (WHERE <true>),
//! DISTINCT a,b and DISTINCT * without WHERE (plain table), DISTINCT b,COUNT(*) GROUP BY a,b, DISTINCT t.a,t.b over
//! t JOIN u ON t.b = u.a, and (a,b) UNION w(a,b); same order shapes and windows, same full/deep split.
//!
//! Queries are refmodel `Query` values: the SQL text (`to_sql`) and the expected answer
//! (`eval`) come from the same object.  One *base* (projection / DISTINCT / GROUP BY / join /
//! UNION form) x one *order shape* (no ORDER BY, 1 key, 2 keys over different columns; every
//! key a column, the expression `a+1`, an ordinal, an aggregate or a column that is not
//! selected; ASC/DESC each) x one *window* (LIMIT in {none,0,1,2,m,m+1} x OFFSET in
//! {none,1,m}, m = size of the un-windowed result; 2-key shapes use a 6-window subset).
//!
//! Two passes (queries are independent, but one defect must not hide the rest nor eat the
//! budget): the FULL pass runs the whole query space on the enumerated tables of <= 2 (quick) /
//! <= 4 (thorough) rows and on the fixed 8-row tables; the DEEP pass runs the larger tables
//! (3..4 rows quick, 5..6 rows thorough) with exactly the constructs listed as open findings in
//! findings.d/C15.json left out (`known_broken`, counted as pruned per finding).
//!
//! Oracle: `QueryResult::accepts_loose(observed)` — observed must be `R[offset..offset+limit]`
//! for SOME ordering R of the model's bag that is sorted under the keys with NULL first
//! ascending / last descending; ties in any order, tie-cutting windows may pick any tied row,
//! LIMIT without ORDER BY may return any sub-bag of the right size, DISTINCT = each distinct
//! row exactly once.  `Int(2)` ~ `Float(2.0)` is the only value tolerance (never needed here).
//!
//! Signature: C15/<order shape>/<window class>/<all|distinct1|distinct2>/<combination>/<failure>
//!   failure: error | panic | wrong-columns (row arity) | wrong-row (a row that is not in the
//!   un-windowed result) | duplicate-row | missing-row | wrong-count (windowed query returns
//!   the wrong number of rows) | null-placement (rows right, order/slice wrong, and a sort key
//!   of the result is NULL) | not-sorted (NULL-free keys, rows not in order) | wrong-window
//!   (NULL-free keys, rows in order but not the requested slice).
use checks::sqlh::{self, Res, TestDb};
use refmodel::sql::expr as ex;
use refmodel::sql::query::{self as mq, From, JoinKind, OrderBy, OrderKey, Query, QueryResult, SelectItem, SetOp, Table, Window};
use refmodel::sql::Ty;
use refmodel::val::{Row, V};
use vcore::{json, Check, Ctx, Reporter, Spec, Value};

const PROP: &str = "C15";

// ---------------------------------------------------------------------------
// tables
// ---------------------------------------------------------------------------

type TRow = (Option<i64>, Option<String>);

/// the 9 domain rows in a scrambled order (neither column is monotone)
fn dom() -> Vec<TRow> {
    let s = |x: &str| Some(x.to_string());
    vec![
        (Some(2), s("a")),
        (None, s("b")),
        (Some(1), None),
        (Some(2), s("b")),
        (Some(1), s("a")),
        (None, None),
        (Some(2), None),
        (Some(1), s("b")),
        (None, s("a")),
    ]
}

/// row of the second table kind `t(a INT, b INT)`: two columns of the SAME type over the same values, so
/// that rows which are permutations of each other ((1,2) / (2,1), (NULL,1) / (1,NULL)) and rows made of
/// an equal pair ((1,1), (2,2), (NULL,NULL)) occur — DISTINCT must keep all of them apart
type IRow = (Option<i64>, Option<i64>);

#[derive(Clone, Debug)]
struct TableSpec {
    pk: bool,
    rows: Vec<TRow>,
    fixed: bool,
    /// Some = the table is `t(a INT, b INT)` with these rows (`rows` is empty then)
    ab: Option<Vec<IRow>>,
}
impl TableSpec {
    fn nrows(&self) -> usize {
        self.ab.as_ref().map(|r| r.len()).unwrap_or(self.rows.len())
    }
    fn null_free(&self) -> bool {
        match &self.ab {
            Some(r) => r.iter().all(|(a, b)| a.is_some() && b.is_some()),
            None => self.rows.iter().all(|(a, c)| a.is_some() && c.is_some()),
        }
    }
    fn bases(&self) -> Vec<Base> {
        if self.ab.is_some() {
            bases_ab(self.pk)
        } else {
            bases(self.pk)
        }
    }
    fn variant(&self) -> &'static str {
        if self.pk {
            "pk"
        } else {
            "plain"
        }
    }
    fn rows_json(&self) -> Value {
        match &self.ab {
            Some(r) => json!(r.iter().map(|(a, b)| json!([a, b])).collect::<Vec<_>>()),
            None => json!(self.rows.iter().map(|(a, c)| json!([a, c])).collect::<Vec<_>>()),
        }
    }
    fn from_json(case: &Value) -> TableSpec {
        let pk = case["variant"].as_str() == Some("pk");
        if case["kind"].as_str() == Some("ab") {
            let rows = case["rows"].as_array().map(|a| a.iter().map(|r| (r[0].as_i64(), r[1].as_i64())).collect()).unwrap_or_default();
            return TableSpec { pk, rows: vec![], fixed: false, ab: Some(rows) };
        }
        let rows = case["rows"].as_array().map(|a| a.iter().map(|r| (r[0].as_i64(), r[1].as_str().map(|s| s.to_string()))).collect()).unwrap_or_default();
        TableSpec { pk, rows, fixed: false, ab: None }
    }
    fn model_rows(&self) -> Vec<Row> {
        if let Some(ab) = &self.ab {
            return ab
                .iter()
                .enumerate()
                .map(|(i, (a, b))| {
                    let mut r = vec![];
                    if self.pk {
                        r.push(V::Int(i as i64 + 1));
                    }
                    r.push(a.map(V::Int).unwrap_or(V::Null));
                    r.push(b.map(V::Int).unwrap_or(V::Null));
                    r
                })
                .collect();
        }
        self.rows
            .iter()
            .enumerate()
            .map(|(i, (a, c))| {
                let mut r = vec![];
                if self.pk {
                    r.push(V::Int(i as i64 + 1));
                }
                r.push(a.map(V::Int).unwrap_or(V::Null));
                r.push(c.clone().map(V::Text).unwrap_or(V::Null));
                r
            })
            .collect()
    }
}

/// the 9 rows of {NULL,1,2} x {NULL,1,2} in a scrambled order (neither column is monotone)
fn dom_ab() -> Vec<IRow> {
    vec![(Some(2), Some(1)), (None, Some(2)), (Some(1), None), (Some(2), Some(2)), (Some(1), Some(1)), (None, None), (Some(2), None), (Some(1), Some(2)), (None, Some(1))]
}

fn multisets(kmax: usize) -> Vec<Vec<TRow>> {
    multisets_of(&dom(), kmax)
}
fn multisets_of<T: Clone>(d: &[T], kmax: usize) -> Vec<Vec<T>> {
    let mut out = vec![];
    for k in 0..=kmax {
        let mut idx = vec![0usize; k];
        loop {
            out.push(idx.iter().map(|&i| d[i].clone()).collect());
            // next non-decreasing sequence
            let mut p = k;
            while p > 0 && idx[p - 1] == d.len() - 1 {
                p -= 1;
            }
            if p == 0 {
                break;
            }
            let v = idx[p - 1] + 1;
            for q in p - 1..k {
                idx[q] = v;
            }
        }
    }
    out
}

fn fixed_tables() -> Vec<Vec<TRow>> {
    let s = |x: &str| Some(x.to_string());
    vec![
        // NULL-free, every row twice, scrambled
        vec![(Some(2), s("b")), (Some(1), s("a")), (Some(2), s("a")), (Some(1), s("b")), (Some(2), s("b")), (Some(1), s("a")), (Some(2), s("a")), (Some(1), s("b"))],
        // three values x duplicates + NULL rows
        vec![(Some(1), s("a")), (Some(2), s("b")), (None, None), (Some(1), s("a")), (Some(2), s("b")), (Some(1), s("a")), (None, None), (Some(2), s("b"))],
        // one row 8 times
        vec![(Some(1), s("a")); 8],
        // NULL heavy
        vec![(None, s("a")), (Some(1), None), (None, None), (None, s("a")), (Some(1), None), (None, s("a")), (None, None), (Some(1), None)],
        // NULL-free, descending runs
        vec![(Some(2), s("b")), (Some(2), s("b")), (Some(2), s("a")), (Some(2), s("a")), (Some(1), s("b")), (Some(1), s("b")), (Some(1), s("a")), (Some(1), s("a"))],
    ]
}

fn fixed_tables_ab() -> Vec<Vec<IRow>> {
    let p = |a: i64, b: i64| (Some(a), Some(b));
    vec![
        // NULL-free: both permutations and both equal pairs, every row twice
        vec![p(1, 2), p(2, 1), p(1, 1), p(2, 2), p(2, 1), p(1, 2), p(2, 2), p(1, 1)],
        // permutations through NULL + the all-NULL row, with duplicates
        vec![(None, Some(1)), (Some(1), None), (None, None), (None, Some(1)), (Some(2), None), (None, Some(2)), (Some(1), None), (None, None)],
    ]
}

/// enumerated tables with <= kfull rows (a,c then a,b), then the fixed tables, then the deeper enumerated
/// tables (a,b with <= kmax_ab rows first: they are the cheaper ones)
fn all_tables(kmax: usize, kfull: usize, kmax_ab: usize) -> Vec<TableSpec> {
    let mut out = vec![];
    let ms = multisets(kmax);
    let ms_ab = multisets_of(&dom_ab(), kmax_ab);
    for rows in ms.iter().filter(|r| r.len() <= kfull) {
        for pk in [false, true] {
            out.push(TableSpec { pk, rows: rows.clone(), fixed: false, ab: None });
        }
    }
    for rows in ms_ab.iter().filter(|r| r.len() <= kfull) {
        for pk in [false, true] {
            out.push(TableSpec { pk, rows: vec![], fixed: false, ab: Some(rows.clone()) });
        }
    }
    for rows in fixed_tables() {
        for pk in [false, true] {
            out.push(TableSpec { pk, rows: rows.clone(), fixed: true, ab: None });
        }
    }
    for rows in fixed_tables_ab() {
        for pk in [false, true] {
            out.push(TableSpec { pk, rows: vec![], fixed: true, ab: Some(rows.clone()) });
        }
    }
    for rows in ms_ab.iter().filter(|r| r.len() > kfull) {
        for pk in [false, true] {
            out.push(TableSpec { pk, rows: vec![], fixed: false, ab: Some(rows.clone()) });
        }
    }
    for rows in ms.iter().filter(|r| r.len() > kfull) {
        for pk in [false, true] {
            out.push(TableSpec { pk, rows: rows.clone(), fixed: false, ab: None });
        }
    }
    out
}

fn u_rows() -> Vec<Row> {
    let t = |s: &str| V::Text(s.into());
    vec![vec![V::Int(1), t("x")], vec![V::Null, t("y")], vec![V::Int(2), t("z")], vec![V::Int(1), t("w")]]
}
fn v_rows() -> Vec<Row> {
    let t = |s: &str| V::Text(s.into());
    vec![vec![V::Int(1), t("a")], vec![V::Int(3), t("c")], vec![V::Int(3), t("a")], vec![V::Int(2), t("b")]]
}

/// UNION partner of the (a INT, b INT) tables
fn w_rows() -> Vec<Row> {
    vec![vec![V::Int(1), V::Int(2)], vec![V::Int(3), V::Int(3)], vec![V::Null, V::Int(1)], vec![V::Int(2), V::Int(2)]]
}

fn values_sql(rows: &[Row]) -> String {
    rows.iter().map(|r| format!("({})", r.iter().map(sqlh::lit).collect::<Vec<_>>().join(", "))).collect::<Vec<_>>().join(", ")
}

/// fresh database with t, u, v + the model's view of it
fn setup(base: &std::path::Path, name: &str, spec: &TableSpec) -> Result<(TestDb, mq::Database), String> {
    let t = TestDb::create(base, name)?;
    let mut stmts = vec![];
    let trows = spec.model_rows();
    let ab = spec.ab.is_some();
    let second = if ab { "b INT" } else { "c TEXT" };
    if spec.pk {
        stmts.push(format!("CREATE TABLE t (id INT PRIMARY KEY, a INT, {second})"));
    } else {
        stmts.push(format!("CREATE TABLE t (a INT, {second})"));
    }
    if !trows.is_empty() {
        stmts.push(format!("INSERT INTO t VALUES {}", values_sql(&trows)));
    }
    stmts.push("CREATE TABLE u (a INT, d TEXT)".to_string());
    stmts.push(format!("INSERT INTO u VALUES {}", values_sql(&u_rows())));
    stmts.push("CREATE TABLE v (a INT, c TEXT)".to_string());
    stmts.push(format!("INSERT INTO v VALUES {}", values_sql(&v_rows())));
    if ab {
        stmts.push("CREATE TABLE w (a INT, b INT)".to_string());
        stmts.push(format!("INSERT INTO w VALUES {}", values_sql(&w_rows())));
    }
    for s in &stmts {
        let r = t.exec(s);
        if !r.ok() {
            return Err(format!("setup `{s}`: {}", r.show()));
        }
    }
    let c2 = if ab { ("b", Ty::Int) } else { ("c", Ty::Text) };
    let tcols: Vec<(&str, Ty)> = if spec.pk { vec![("id", Ty::Int), ("a", Ty::Int), c2] } else { vec![("a", Ty::Int), c2] };
    let mdb = mq::Database::new()
        .with("w", Table::new(&[("a", Ty::Int), ("b", Ty::Int)], w_rows()))
        .with("t", Table::new(&tcols, trows.clone()))
        .with("u", Table::new(&[("a", Ty::Int), ("d", Ty::Text)], u_rows()))
        .with("v", Table::new(&[("a", Ty::Int), ("c", Ty::Text)], v_rows()));
    // the stored table must read back as inserted (else nothing below means anything)
    match t.exec("SELECT * FROM t") {
        Res::Rows(r) if refmodel::val::bag(&r) == refmodel::val::bag(&trows) => {}
        o => return Err(format!("setup read-back of t: {}", o.show())),
    }
    Ok((t, mdb))
}

// ---------------------------------------------------------------------------
// query space
// ---------------------------------------------------------------------------

#[derive(Clone, Debug)]
struct Atom {
    name: &'static str,
    /// col | expr | ord | agg | hidden
    kind: &'static str,
    /// which underlying value the key orders by; the two keys of a shape differ in `fam`
    fam: u8,
    by: OrderBy,
}
fn atom(name: &'static str, kind: &'static str, fam: u8, by: OrderBy) -> Atom {
    Atom { name, kind, fam, by }
}
fn ae(name: &'static str, kind: &'static str, fam: u8, e: ex::Expr) -> Atom {
    atom(name, kind, fam, OrderBy::Expr(e))
}
fn ao(name: &'static str, fam: u8, n: usize) -> Atom {
    atom(name, "ord", fam, OrderBy::Ordinal(n))
}

#[derive(Clone, Debug)]
struct Base {
    name: &'static str,
    /// signature component
    combo: &'static str,
    distinct: &'static str,
    query: Query,
    atoms: Vec<Atom>,
    /// every cross-family pair of atoms (else: same style only + one mixed pair)
    full_pairs: bool,
}

/// always-true predicate that the planner does not fold away (`1 = 1` is folded, and the
/// projection-without-WHERE defect of C11/C14/C19 would then drown this oracle)
fn w11() -> ex::Expr {
    ex::or(ex::is_null(ex::col("a")), ex::is_not_null(ex::col("a")))
}

fn bases(pk: bool) -> Vec<Base> {
    use ex::{add, col, count_star, int, qcol};
    let mut out = vec![];
    let (oa, oc) = if pk { (2, 3) } else { (1, 2) };
    let ac_atoms = |oa: usize, oc: usize| vec![ae("a", "col", 0, col("a")), ae("c", "col", 1, col("c")), ae("a+1", "expr", 0, add(col("a"), int(1))), ao("ord_a", 0, oa), ao("ord_c", 1, oc)];
    let ac_atoms_noexpr = || vec![ae("a", "col", 0, col("a")), ae("c", "col", 1, col("c")), ao("ord_a", 0, 1), ao("ord_c", 1, 2)];
    // --- plain
    out.push(Base { name: "plain-star", combo: "plain-star", distinct: "all", query: Query::star("t"), atoms: ac_atoms(oa, oc), full_pairs: true });
    out.push(Base { name: "plain", combo: "plain", distinct: "all", query: Query::cols("t", vec![col("a"), col("c")]).where_(w11()), atoms: ac_atoms(1, 2), full_pairs: true });
    if !pk {
        // full-width projection in table order: no WHERE needed (see AGENT_GUIDE addendum)
        out.push(Base { name: "plain-nowhere", combo: "plain-nowhere", distinct: "all", query: Query::cols("t", vec![col("a"), col("c")]), atoms: ac_atoms(1, 2), full_pairs: true });
    }
    out.push(Base {
        name: "plain-hidden",
        combo: "plain-hidden",
        distinct: "all",
        query: Query::cols("t", vec![col("c")]).where_(w11()),
        atoms: vec![ae("a", "hidden", 0, col("a")), ae("c", "col", 1, col("c")), ao("ord_c", 1, 1)],
        full_pairs: true,
    });
    // --- DISTINCT
    out.push(Base { name: "distinct-a", combo: "plain", distinct: "distinct1", query: Query::cols("t", vec![col("a")]).where_(w11()).distinct(), atoms: vec![ae("a", "col", 0, col("a")), ao("ord_a", 0, 1)], full_pairs: true });
    out.push(Base { name: "distinct-c", combo: "plain", distinct: "distinct1", query: Query::cols("t", vec![col("c")]).where_(w11()).distinct(), atoms: vec![ae("c", "col", 1, col("c")), ao("ord_c", 1, 1)], full_pairs: true });
    out.push(Base { name: "distinct-ac", combo: "plain", distinct: "distinct2", query: Query::cols("t", vec![col("a"), col("c")]).where_(w11()).distinct(), atoms: ac_atoms_noexpr(), full_pairs: true });
    if !pk {
        out.push(Base { name: "distinct-ac-nowhere", combo: "plain-nowhere", distinct: "distinct2", query: Query::cols("t", vec![col("a"), col("c")]).distinct(), atoms: ac_atoms_noexpr(), full_pairs: true });
    }
    // --- GROUP BY
    out.push(Base {
        name: "groupby-a",
        combo: "groupby",
        distinct: "all",
        query: Query::cols("t", vec![col("a"), count_star()]).group_by(vec![col("a")]),
        atoms: vec![ae("a", "col", 0, col("a")), ae("a+1", "expr", 0, add(col("a"), int(1))), ao("ord_a", 0, 1), ae("count", "agg", 1, count_star()), ao("ord_count", 1, 2)],
        full_pairs: true,
    });
    out.push(Base {
        name: "groupby-ac",
        combo: "groupby",
        distinct: "all",
        query: Query::cols("t", vec![col("a"), col("c"), count_star()]).group_by(vec![col("a"), col("c")]),
        atoms: vec![ae("a", "col", 0, col("a")), ae("c", "col", 1, col("c")), ae("count", "agg", 2, count_star()), ao("ord_a", 0, 1), ao("ord_c", 1, 2), ao("ord_count", 2, 3)],
        full_pairs: false,
    });
    out.push(Base {
        name: "groupby-distinct",
        combo: "groupby",
        distinct: "distinct2",
        query: Query::cols("t", vec![col("c"), count_star()]).group_by(vec![col("a"), col("c")]).distinct(),
        atoms: vec![ae("c", "col", 0, col("c")), ae("count", "agg", 1, count_star()), ao("ord_c", 0, 1), ao("ord_count", 1, 2)],
        full_pairs: true,
    });
    // --- join with u
    let join_from = |k: JoinKind| From::table("t").join(k, From::table("u"), Some(ex::eq(qcol("t", "a"), qcol("u", "a"))));
    let join_items = || vec![SelectItem::expr(qcol("t", "a")), SelectItem::expr(qcol("t", "c")), SelectItem::expr(qcol("u", "d"))];
    let join_atoms = || {
        vec![
            ae("t.a", "col", 0, qcol("t", "a")),
            ae("t.c", "col", 1, qcol("t", "c")),
            ae("u.d", "col", 2, qcol("u", "d")),
            ae("t.a+1", "expr", 0, add(qcol("t", "a"), int(1))),
            ao("ord_a", 0, 1),
            ao("ord_c", 1, 2),
            ao("ord_d", 2, 3),
        ]
    };
    out.push(Base { name: "join", combo: "join", distinct: "all", query: Query::select(join_items(), join_from(JoinKind::Inner)), atoms: join_atoms(), full_pairs: false });
    out.push(Base { name: "leftjoin", combo: "leftjoin", distinct: "all", query: Query::select(join_items(), join_from(JoinKind::Left)), atoms: join_atoms(), full_pairs: false });
    out.push(Base {
        name: "join-distinct",
        combo: "join",
        distinct: "distinct2",
        query: Query::select(vec![SelectItem::expr(qcol("t", "c")), SelectItem::expr(qcol("u", "d"))], join_from(JoinKind::Inner)).distinct(),
        atoms: vec![ae("t.c", "col", 0, qcol("t", "c")), ae("u.d", "col", 1, qcol("u", "d")), ao("ord_c", 0, 1), ao("ord_d", 1, 2)],
        full_pairs: true,
    });
    // --- UNION with v
    for (name, all) in [("union", false), ("unionall", true)] {
        let side = |tbl: &str| {
            let q = Query::cols(tbl, vec![col("a"), col("c")]);
            if pk {
                q.where_(w11())
            } else {
                q
            }
        };
        out.push(Base { name, combo: name, distinct: "all", query: Query::set_op(SetOp::Union, all, side("t"), side("v")), atoms: ac_atoms_noexpr(), full_pairs: true });
    }
    out
}

/// Query bases on the `t(a INT, b INT)` tables: the DISTINCT sub-space over two same-typed columns (rows
/// that are permutations of each other, rows of equal pairs), on scan, aggregate, join and UNION plans.
fn bases_ab(pk: bool) -> Vec<Base> {
    use ex::{col, count_star, qcol};
    let w = || ex::or(ex::is_null(col("a")), ex::is_not_null(col("a")));
    let ab = |oa: usize, ob: usize| vec![ae("a", "col", 0, col("a")), ae("b", "col", 1, col("b")), ao("ord_a", 0, oa), ao("ord_b", 1, ob)];
    let mut out = vec![];
    let (oa, ob) = if pk { (2, 3) } else { (1, 2) };
    out.push(Base { name: "ab-star", combo: "plain-star", distinct: "all", query: Query::star("t"), atoms: ab(oa, ob), full_pairs: false });
    out.push(Base { name: "ab-distinct-ab", combo: "plain", distinct: "distinct2", query: Query::cols("t", vec![col("a"), col("b")]).where_(w()).distinct(), atoms: ab(1, 2), full_pairs: true });
    out.push(Base { name: "ab-distinct-ba", combo: "plain", distinct: "distinct2", query: Query::cols("t", vec![col("b"), col("a")]).where_(w()).distinct(), atoms: ab(2, 1), full_pairs: true });
    out.push(Base { name: "ab-distinct-aba", combo: "plain", distinct: "distinct2", query: Query::cols("t", vec![col("a"), col("b"), col("a")]).where_(w()).distinct(), atoms: vec![ae("a", "col", 0, col("a")), ae("b", "col", 1, col("b"))], full_pairs: true });
    if !pk {
        out.push(Base { name: "ab-distinct-ab-nowhere", combo: "plain-nowhere", distinct: "distinct2", query: Query::cols("t", vec![col("a"), col("b")]).distinct(), atoms: ab(1, 2), full_pairs: true });
        out.push(Base { name: "ab-distinct-star", combo: "plain-star", distinct: "distinct2", query: Query::star("t").distinct(), atoms: vec![ae("a", "col", 0, col("a")), ae("b", "col", 1, col("b"))], full_pairs: true });
    }
    // (b, COUNT(*)) per (a,b) group: the count is a second INT column, so (1,2)/(2,1) and (1,1)/(2,2) occur
    out.push(Base {
        name: "ab-groupby-distinct",
        combo: "groupby",
        distinct: "distinct2",
        query: Query::cols("t", vec![col("b"), count_star()]).group_by(vec![col("a"), col("b")]).distinct(),
        atoms: vec![ae("b", "col", 0, col("b")), ae("count", "agg", 1, count_star()), ao("ord_b", 0, 1), ao("ord_count", 1, 2)],
        full_pairs: true,
    });
    // join path (own de-duplication): DISTINCT t.a, t.b over t JOIN u ON t.b = u.a (u.a = 1 twice: every
    // t row with b = 1 is produced twice)
    let jf = From::table("t").join(JoinKind::Inner, From::table("u"), Some(ex::eq(qcol("t", "b"), qcol("u", "a"))));
    out.push(Base {
        name: "ab-join-distinct",
        combo: "join",
        distinct: "distinct2",
        query: Query::select(vec![SelectItem::expr(qcol("t", "a")), SelectItem::expr(qcol("t", "b"))], jf).distinct(),
        atoms: vec![ae("t.a", "col", 0, qcol("t", "a")), ae("t.b", "col", 1, qcol("t", "b")), ao("ord_a", 0, 1), ao("ord_b", 1, 2)],
        full_pairs: true,
    });
    // UNION (de-duplicating) with w
    let side = |tbl: &str| {
        let q = Query::cols(tbl, vec![col("a"), col("b")]);
        if pk {
            q.where_(w())
        } else {
            q
        }
    };
    out.push(Base { name: "ab-union", combo: "union", distinct: "all", query: Query::set_op(SetOp::Union, false, side("t"), side("w")), atoms: ab(1, 2), full_pairs: true });
    out
}

/// order shapes of a base: indices into `atoms` with a descending flag
fn shapes(b: &Base) -> Vec<Vec<(usize, bool)>> {
    let mut out = vec![vec![]];
    for i in 0..b.atoms.len() {
        for d in [false, true] {
            out.push(vec![(i, d)]);
        }
    }
    for i in 0..b.atoms.len() {
        for j in 0..b.atoms.len() {
            let (x, y) = (&b.atoms[i], &b.atoms[j]);
            if x.fam == y.fam {
                continue;
            }
            let same_style = (x.kind == "ord") == (y.kind == "ord");
            if !(b.full_pairs || same_style || (x.fam == 0 && y.fam == 1 && x.kind != "ord" && y.kind == "ord")) {
                continue;
            }
            for d1 in [false, true] {
                for d2 in [false, true] {
                    out.push(vec![(i, d1), (j, d2)]);
                }
            }
        }
    }
    out
}

fn shape_sig(b: &Base, shape: &[(usize, bool)]) -> String {
    if shape.is_empty() {
        return "noorder".into();
    }
    format!("orderby({})", shape.iter().map(|(i, d)| format!("{} {}", b.atoms[*i].kind, if *d { "DESC" } else { "ASC" })).collect::<Vec<_>>().join(","))
}

fn with_order(b: &Base, shape: &[(usize, bool)]) -> Query {
    let mut q = b.query.clone();
    q.order_by = shape.iter().map(|(i, d)| OrderKey { by: b.atoms[*i].by.clone(), desc: *d }).collect();
    q
}

/// (limit, offset) pairs for a result of `m` rows; LIMIT 0 windows are separated (run last)
fn windows(m: u64, two_keys: bool) -> (Vec<(Option<u64>, Option<u64>)>, Vec<(Option<u64>, Option<u64>)>) {
    let mut all: Vec<(Option<u64>, Option<u64>)> = vec![];
    if two_keys {
        all.extend([(None, None), (Some(1), None), (Some(2), Some(1)), (None, Some(1)), (Some(m), Some(m)), (Some(0), None)]);
    } else {
        for l in [None, Some(1), Some(2), Some(m), Some(m + 1), Some(0)] {
            for o in [None, Some(1), Some(m)] {
                all.push((l, o));
            }
        }
    }
    let mut seen = std::collections::BTreeSet::new();
    all.retain(|w| seen.insert(*w));
    let (zero, rest): (Vec<_>, Vec<_>) = all.into_iter().partition(|w| w.0 == Some(0));
    (rest, zero)
}

fn window_sig(m: u64, limit: Option<u64>, offset: Option<u64>) -> String {
    if limit.is_none() && offset.is_none() {
        return "nolimit".into();
    }
    let l = match limit {
        None => "none",
        Some(0) => "0",
        Some(l) if l < m => "part",
        Some(l) if l == m => "all",
        Some(_) => "over",
    };
    let o = match offset {
        None => "none",
        Some(o) if o < m => "part",
        Some(_) => "all",
    };
    format!("limit-{l}+offset-{o}")
}

// ---------------------------------------------------------------------------
// oracle
// ---------------------------------------------------------------------------

fn row_eq(a: &Row, b: &Row) -> bool {
    ex::rows_loosely_equal(a, b)
}

/// Why is `obs` not an acceptable answer?  (called only after `accepts_loose` failed)
fn classify(r: &QueryResult, obs: &[Row]) -> &'static str {
    let ncols = r.columns.len();
    if obs.iter().any(|row| row.len() != ncols) {
        return "wrong-columns";
    }
    // multiplicities against the un-windowed result
    let mut dup = false;
    for (i, row) in obs.iter().enumerate() {
        if obs[..i].iter().any(|p| row_eq(p, row)) {
            continue;
        }
        let in_full = r.full.iter().filter(|f| row_eq(f, row)).count();
        let in_obs = obs.iter().filter(|f| row_eq(f, row)).count();
        if in_full == 0 {
            return "wrong-row";
        }
        if in_obs > in_full {
            dup = true;
        }
    }
    if dup {
        return "duplicate-row";
    }
    let n = r.full.len();
    let start = (r.offset.min(n as u64)) as usize;
    let len = match r.limit {
        None => n - start,
        Some(l) => l.min((n - start) as u64) as usize,
    };
    let windowed = r.limit.is_some() || r.offset > 0;
    if obs.len() != len {
        return if windowed {
            "wrong-count"
        } else {
            "missing-row"
        };
    }
    // right rows (a sub-bag of the right size), wrong order or wrong slice
    let null_keys = r.keys.iter().any(|k| k.iter().any(|v| v.is_null()));
    if null_keys {
        return "null-placement";
    }
    // is the observed list in order by itself?  keys of an observed row: those of an equal
    // result row (if equal rows carry different keys the question is undecidable: say not-sorted)
    let mut keys = vec![];
    for row in obs {
        let ks: Vec<&Vec<V>> = r.full.iter().zip(r.keys.iter()).filter(|(f, _)| row_eq(f, row)).map(|(_, k)| k).collect();
        if ks.iter().any(|k| mq::cmp_keys(k, ks[0], &r.desc) != std::cmp::Ordering::Equal) {
            return "not-sorted";
        }
        keys.push(ks[0].clone());
    }
    if keys.windows(2).any(|w| mq::cmp_keys(&w[0], &w[1], &r.desc) == std::cmp::Ordering::Greater) {
        "not-sorted"
    } else {
        "wrong-window"
    }
}


/// Constructs that are known-broken on the current tree (findings.d/C15.json, KF-C15-nn).
/// The deep pass leaves exactly these out so that the remainder is explored on the larger
/// tables; the full pass (smaller tables + the fixed 8-row tables) still runs them.
fn known_broken(b: &Base, shape: &[(usize, bool)], limit: Option<u64>, offset: Option<u64>) -> Option<u8> {
    let has = |k: &str| shape.iter().any(|(i, _)| b.atoms[*i].kind == k);
    let ordered = !shape.is_empty();
    let windowed = limit.is_some() || offset.is_some();
    let single = b.combo.starts_with("plain") || b.combo == "groupby";
    let join = b.combo == "join" || b.combo == "leftjoin";
    let union = b.combo.starts_with("union");
    if union && ordered {
        // sorts by the first output column in the first key's direction, and only without LIMIT
        let first_col_only = shape.len() == 1 && b.atoms[shape[0].0].name == "a";
        return if windowed {
            Some(2)
        } else if first_col_only {
            None
        } else {
            Some(3)
        };
    }
    if join && limit == Some(0) {
        return Some(4);
    }
    if b.distinct != "all" && windowed {
        return Some(if join { 5 } else { 7 });
    }
    if join && ordered && (windowed || has("expr") || has("ord")) {
        return Some(6);
    }
    if single && ordered && limit == Some(0) && offset.is_none() {
        return Some(1);
    }
    if b.combo == "plain-star" && ordered && !windowed {
        return Some(8);
    }
    if b.combo == "groupby" && !windowed && (has("agg") || has("expr") || has("ord")) {
        return Some(9);
    }
    if has("hidden") && !windowed {
        return Some(10);
    }
    if has("ord") {
        return Some(11);
    }
    None
}

/// plan shape: operator names of the EXPLAIN text, outermost first
fn plan_ops(plan: &str) -> Vec<String> {
    plan.lines().filter_map(|l| l.trim().strip_prefix("-> ")).map(|l| l.split(|c: char| !c.is_alphanumeric()).next().unwrap_or("").to_string()).collect()
}

struct QueryCase<'a> {
    spec: &'a TableSpec,
    base: &'a Base,
    shape: &'a [(usize, bool)],
    limit: Option<u64>,
    offset: Option<u64>,
}
impl QueryCase<'_> {
    fn query(&self) -> Query {
        let mut q = with_order(self.base, self.shape);
        q.limit = self.limit;
        q.offset = self.offset;
        q
    }
    fn json(&self, sql: &str) -> Value {
        json!({
            "variant": self.spec.variant(),
            "kind": if self.spec.ab.is_some() { "ab" } else { "ac" },
            "rows": self.spec.rows_json(),
            "base": self.base.name,
            "keys": self.shape.iter().map(|(i, d)| json!([self.base.atoms[*i].name, d])).collect::<Vec<_>>(),
            "limit": self.limit,
            "offset": self.offset,
            "sql": sql,
        })
    }
}

#[derive(PartialEq)]
enum Verdict {
    Pass,
    Fail,
    Panicked,
    Skipped,
}

/// Run one query and judge it.  `m` = size of the un-windowed result.
fn check_one(t: &TestDb, mdb: &mq::Database, qc: &QueryCase, rep: &mut Reporter, dry: bool) -> Verdict {
    let q = qc.query();
    let sql = q.to_sql();
    let exp = match q.eval(mdb) {
        Ok(r) => r,
        Err(e) => {
            rep.count("model_error_skips", 1);
            rep.note(&format!("model error (query skipped): {e} for base {}", qc.base.name));
            return Verdict::Skipped;
        }
    };
    let m = exp.full.len() as u64;
    let res = t.exec(&sql);
    let fail: Option<(&'static str, String)> = match &res {
        Res::Rows(rows) => match exp.accepts_loose(rows) {
            Ok(()) => None,
            Err(why) => Some((classify(&exp, rows), why)),
        },
        Res::Err(_) => Some(("error", String::new())),
        Res::Panic(_) => Some(("panic", String::new())),
        o => Some(("error", format!("not a row result: {}", o.show()))),
    };
    let wsig = window_sig(m, qc.limit, qc.offset);
    match fail {
        None => {
            if !dry && qc.base.distinct == "distinct2" && qc.shape.is_empty() && qc.limit.is_none() && qc.offset.is_none() {
                // vacuity evidence: DISTINCT answers that hold rows which are column permutations of each
                // other / several rows made of one repeated value
                let f: Vec<&Row> = exp.full.iter().filter(|r| r.len() == 2).collect();
                if f.iter().enumerate().any(|(i, x)| f[..i].iter().any(|y| x[0] == y[1] && x[1] == y[0] && x[0] != x[1])) {
                    rep.count("distinct2_results_with_permuted_rows", 1);
                }
                if f.iter().filter(|r| r[0] == r[1]).count() >= 2 {
                    rep.count("distinct2_results_with_equal_pair_rows", 1);
                }
            }
            if !dry {
                rep.outcome(&format!("{}/{}/{}/pass", qc.base.combo, if qc.shape.is_empty() { "noorder" } else { "ordered" }, wsig));
                match exp.window() {
                    Window::Exact => rep.count("pass_window_exact", 1),
                    Window::TieAmbiguous => rep.count("pass_window_tie_ambiguous", 1),
                }
            }
            Verdict::Pass
        }
        Some((kind, why)) => {
            if dry {
                return if kind == "panic" { Verdict::Panicked } else { Verdict::Fail };
            }
            let sig = format!("{PROP}/{}/{}/{}/{}/{}", shape_sig(qc.base, qc.shape), wsig, qc.base.distinct, qc.base.combo, kind);
            rep.outcome(&format!("{}/{}/{}/{}", qc.base.combo, if qc.shape.is_empty() { "noorder" } else { "ordered" }, wsig, kind));
            rep.count(&format!("fail_{kind}"), 1);
            let expected = format!("a valid answer, e.g. {} of full {} ({why})", refmodel::val::show_rows(&exp.rows), refmodel::val::show_rows(&exp.full));
            rep.violation(PROP, "refmodel-accepts", &sig, || qc.json(&sql), &expected, &res.show());
            if kind == "panic" {
                Verdict::Panicked
            } else {
                Verdict::Fail
            }
        }
    }
}

/// All queries of the selected bases on one table, on one fresh database.  Queries with
/// LIMIT 0 (they panic on the current tree) run last.
fn run_table(ctx: &Ctx, rep: &mut Reporter, spec: &TableSpec, ti: usize, bases: &[Base], explain: bool, deep: bool) {
    let name = format!("t{ti}");
    let (mut t, mdb) = match setup(&ctx.scratch, &name, spec) {
        Ok(x) => x,
        Err(e) => {
            rep.count("setup_failures", 1);
            rep.note(&format!("setup failed (table skipped): {}", vcore::util::clip(&e, 200)));
            return;
        }
    };
    let mut dirty = false; // a statement panicked on this handle
    let mut n = 0u64;
    let mut nontrivial = 0u64;
    for zero_pass in [false, true] {
        for base in bases {
            let mut nb = 0u64;
            for shape in &shapes(base) {
                let qb = with_order(base, shape);
                let m = match qb.eval(&mdb) {
                    Ok(r) => r.full.len() as u64,
                    Err(e) => {
                        if !zero_pass {
                            rep.count("model_error_skips", 1);
                            rep.note(&format!("model error (shape skipped): {e} for base {}", base.name));
                        }
                        continue;
                    }
                };
                let (rest, zero) = windows(m, shape.len() >= 2);
                for (limit, offset) in if zero_pass { zero } else { rest } {
                    let qc = QueryCase { spec, base, shape, limit, offset };
                    let kb = known_broken(base, shape, limit, offset);
                    if deep {
                        if let Some(k) = kb {
                            rep.pruned(1);
                            rep.count(&format!("deep_pass_left_out_KF-C15-{k:02}"), 1);
                            continue;
                        }
                    }
                    // a violation seen after a panic on the same handle is confirmed on a fresh
                    // database first, so that every reported case reproduces from scratch
                    if dirty && check_one(&t, &mdb, &qc, rep, true) == Verdict::Fail {
                        rep.count("rechecked_on_fresh_db_after_panic", 1);
                        drop(t);
                        match setup(&ctx.scratch, &name, spec) {
                            Ok(x) => t = x.0,
                            Err(e) => {
                                rep.count("setup_failures", 1);
                                rep.note(&format!("setup failed (table cut): {}", vcore::util::clip(&e, 200)));
                                return;
                            }
                        }
                        dirty = false;
                    }
                    let v = check_one(&t, &mdb, &qc, rep, false);
                    if v == Verdict::Panicked {
                        dirty = true;
                    }
                    if v != Verdict::Skipped {
                        nb += 1;
                        if deep {
                            rep.count("queries_deep_pass", 1);
                        } else if kb.is_some() {
                            rep.count(if v == Verdict::Pass { "full_pass_known_broken_construct_passed" } else { "full_pass_known_broken_construct_failed" }, 1);
                        }
                        if m >= 2 && (!shape.is_empty() || limit.is_some() || offset.is_some() || base.distinct != "all") {
                            nontrivial += 1;
                        }
                        if !shape.is_empty() {
                            rep.count("queries_ordered", 1);
                        }
                        if limit.is_some() || offset.is_some() {
                            rep.count("queries_windowed", 1);
                        }
                    }
                    if explain && !zero_pass {
                        let q = qc.query();
                        match sqlh::explain(t.db(), &q.to_sql()) {
                            Some(p) => {
                                let ops = plan_ops(&p);
                                for o in &ops {
                                    rep.count(&format!("plan_op_{o}"), 1);
                                }
                                rep.outcome(&format!("plan:{}", ops.join(">")));
                            }
                            None => rep.count("explain_failed", 1),
                        }
                    }
                }
            }
            n += nb;
            rep.count(&format!("queries_{}", base.name), nb);
        }
        if ctx.expired() {
            rep.capped("deadline inside a table");
            break;
        }
    }
    rep.bulk(n, nontrivial);
    rep.count("queries", n);
}

struct C15;

impl Check for C15 {
    fn specs(&self) -> Vec<Spec> {
        let mut s = Spec::new(
            PROP,
            "exploration",
            "a case is one query on one table.  Tables: every multiset of <=4 (quick) / <=6 (thorough) rows over {NULL,1,2}x{NULL,'a','b'} in a scrambled insertion order, as t(a,c) and as t(id PK,a,c), plus five fixed 8-row tables with duplicates (x2 variants).  Queries: 16 bases (SELECT * / a,c WHERE <true> / a,c / c with a hidden key; DISTINCT a | c | a,c; GROUP BY a | a,c with COUNT(*) [+DISTINCT]; INNER/LEFT JOIN with a fixed 4-row table [+DISTINCT]; UNION [ALL] with a fixed 4-row table) x order shapes (none; 1 key; 2 keys on different columns; key = column | a+1 | ordinal | COUNT(*) | unselected column; ASC/DESC each) x windows (LIMIT {none,0,1,2,m,m+1} x OFFSET {none,1,m} for <=1 key, 6 windows for 2 keys; m = un-windowed result size).  Second table kind t(a INT,b INT) [+pk]: every multiset of <=2 (quick) / <=4 (thorough) rows over {NULL,1,2}^2 + two fixed 8-row tables (rows that are column permutations of each other and rows of one repeated value) with 8-10 bases (SELECT *; DISTINCT a,b | b,a | a,b,a; DISTINCT a,b / DISTINCT * without WHERE; DISTINCT b,COUNT(*) GROUP BY a,b; DISTINCT t.a,t.b over an inner join; UNION with a fixed table) x the same order shapes and windows.  Full pass (whole query space): enumerated tables of <=2 (quick) / <=4 (thorough) rows + the fixed tables; deep pass: the larger tables with the constructs of the open findings KF-C15-01..11 left out (counted as pruned).  SQL text and expected answer come from the same refmodel Query value; verdict = QueryResult::accepts_loose.  Distinct = distinct (table, SQL text) by construction; non-trivial = result has >= 2 rows and the query has ORDER BY, LIMIT/OFFSET or DISTINCT.",
        );
        s.assumptions = &[
            "oracle = refmodel::sql (cross-checked against SQLite): NULL first ascending / last descending, ties in any order, a window cutting a tie may return any tied row, LIMIT without ORDER BY any sub-bag of the right size",
            "every database is fresh; a failure observed after a panic on the same handle is re-checked on a fresh database before it is reported",
            "EXPLAIN plan-operator counters are sampled (every 16th table + the fixed tables); work is split by table (one fresh database per table), the fixed tables by (table, base)",
            "sub-projections without ORDER BY/DISTINCT carry the unfoldable tautology WHERE a IS NULL OR a IS NOT NULL (the projection-without-WHERE defect belongs to C11/C14/C19)",
        ];
        s.cap_quick_s = 100;
        s.cap_thorough_s = 1700;
        vec![s]
    }

    fn run(&self, ctx: &Ctx, rep: &mut Reporter) {
        // recorded first so that a capped run still carries a sample
        rep.sample(|| json!({"variant": "plain", "rows": [[2, "a"], [null, "b"], [1, null]], "base": "plain", "keys": [["a", false], ["ord_c", true]], "limit": 2, "offset": 1, "sql": "SELECT a, c FROM t WHERE (1 = 1) ORDER BY a ASC, 2 DESC LIMIT 2 OFFSET 1"}));
        let kmax = ctx.opt("kmax").and_then(|s| s.parse().ok()).unwrap_or(ctx.tier.pick(4usize, 6usize));
        let kfull = ctx.opt("kfull").and_then(|s| s.parse().ok()).unwrap_or(ctx.tier.pick(2usize, 4usize));
        let only_base = ctx.opt("base").map(|s| s.to_string());
        rep.bound("full_pass_max_rows", json!(kfull));
        rep.bound("max_rows_enumerated_tables", json!(kmax));
        rep.bound("fixed_tables_rows", json!(8));
        for c in ["tables_ab", "queries_ab-distinct-ab", "queries_ab-distinct-ba", "distinct2_results_with_permuted_rows", "distinct2_results_with_equal_pair_rows", "queries", "queries_ordered", "queries_windowed", "pass_window_exact", "pass_window_tie_ambiguous", "plan_op_Sort", "plan_op_TopK", "plan_op_Limit", "plan_op_HashAggregate"] {
            rep.expect_nonzero(c);
        }
        let kmax_ab = ctx.opt("kmax_ab").and_then(|s| s.parse().ok()).unwrap_or(ctx.tier.pick(2usize, 4usize));
        rep.bound("max_rows_enumerated_tables_ab", json!(kmax_ab));
        let tables = all_tables(kmax, kfull, kmax_ab);
        rep.bound("tables", json!(tables.len()));
        // work is split by table (one database per table); a fixed 8-row table is split by base
        let mut slot = 0u64;
        for (ti, spec) in tables.iter().enumerate() {
            let mut bs = spec.bases();
            let first_name = bs[0].name;
            if let Some(ob) = &only_base {
                bs.retain(|b| b.name == ob);
            }
            let mine: Vec<Base> = if spec.fixed {
                bs.into_iter()
                    .filter(|_| {
                        slot += 1;
                        ctx.mine(slot)
                    })
                    .collect()
            } else {
                slot += 1;
                if ctx.mine(slot) {
                    bs
                } else {
                    vec![]
                }
            };
            if !mine.is_empty() {
                let explain = spec.fixed || (ti / 2) % 16 == 3;
                let deep = !spec.fixed && spec.nrows() > kfull;
                let first = mine[0].name == first_name;
                run_table(ctx, rep, spec, ti, &mine, explain, deep);
                if first {
                    // (a fixed table is shared by several workers: count it once)
                    rep.count("tables", 1);
                    if spec.ab.is_some() {
                        rep.count("tables_ab", 1);
                    }
                    if spec.null_free() {
                        rep.count("tables_null_free", 1);
                    }
                    if deep {
                        rep.count("tables_deep_pass", 1);
                    }
                }
            }
            if ctx.expired() {
                rep.capped(&format!("deadline at table #{ti} ({} rows{}): every table with fewer rows was covered", spec.nrows(), if spec.fixed { ", fixed" } else { "" }));
                return;
            }
        }
    }

    fn replay(&self, ctx: &Ctx, case: &Value, rep: &mut Reporter) {
        let spec = TableSpec::from_json(case);
        let bs = spec.bases();
        let Some(base) = bs.iter().find(|b| Some(b.name) == case["base"].as_str()) else {
            rep.note("replay: unknown base");
            return;
        };
        let mut shape = vec![];
        for k in case["keys"].as_array().cloned().unwrap_or_default() {
            let Some(i) = base.atoms.iter().position(|a| Some(a.name) == k[0].as_str()) else {
                rep.note("replay: unknown key");
                return;
            };
            shape.push((i, k[1].as_bool().unwrap_or(false)));
        }
        let (t, mdb) = match setup(&ctx.scratch, "replay", &spec) {
            Ok(x) => x,
            Err(e) => {
                rep.note(&format!("replay: setup failed: {e}"));
                return;
            }
        };
        let qc = QueryCase { spec: &spec, base, shape: &shape, limit: case["limit"].as_u64(), offset: case["offset"].as_u64() };
        check_one(&t, &mdb, &qc, rep, false);
        rep.bulk(1, 1);
    }
}

/// developer aid: `C15_PROBE="stmt;;stmt" c15` prints full results / EXPLAIN texts
fn dev_probe(stmts: &str) {
    vcore::quiet_panics();
    let base = std::path::PathBuf::from(format!("/dev/shm/turdb_verif/c15probe_{}", std::process::id()));
    let t = TestDb::create(&base, "db").expect("create");
    for s in stmts.split(";;") {
        let s = s.trim();
        if s.is_empty() {
            continue;
        }
        match t.exec(s) {
            Res::Rows(r) if s.to_ascii_uppercase().starts_with("EXPLAIN") => println!("{s}\n{}", r.first().and_then(|r| r.first()).map(|v| if let V::Text(s) = v { s.clone() } else { v.show() }).unwrap_or_default()),
            o => println!("{s}\n    => {}", o.show()),
        }
    }
    drop(t);
    let _ = std::fs::remove_dir_all(&base);
}

fn main() {
    if let Ok(s) = std::env::var("C15_PROBE") {
        let s = match s.strip_prefix('@') {
            Some(f) => std::fs::read_to_string(f).expect("probe file"),
            None => s,
        };
        dev_probe(&s);
        return;
    }
    vcore::main(&C15)
}
