//! C07 — ROLLBACK and ROLLBACK TO SAVEPOINT restore the earlier state (SQLH engine, model_checking,
//! self-differential: no SQL reference semantics are used for any verdict).
//!
//! Tables: (i) `unindexed` t(id INT, a INT, b INT); (ii) `intpk+index` t(id INT PRIMARY KEY, a INT, b INT)
//! + CREATE INDEX ia ON t(a); (iii) `textpk+index` t(id TEXT PRIMARY KEY, a INT, b INT) + index on a;
//! (iv) `intpk-rootsplit`: as (ii) plus a 900-byte pad column, pre-loaded until the root leaf is full, so the
//! first INSERT of a script splits the root (calibrated at run time, counted).
//!
//! A case is one transaction script: set-up (start state: empty | rows 1,2 | rows 1,2,3), BEGIN, <= D inner
//! operations over {SAVEPOINT s1|s2, RELEASE s, ROLLBACK TO s, INSERT k, UPDATE a (indexed) / b (not
//! indexed) / the key column BY KEY, DELETE by key, DELETE all}, and a terminator: ROLLBACK, dropping a
//! cloned handle with the transaction open, dropping the only handle + reopen, and — for scripts that end
//! with ROLLBACK TO s — COMMIT and an in-transaction uniqueness probe.  Every script runs on its own fresh
//! database (histories are never merged).  A tiny harness-side table model is used ONLY to enumerate
//! (which statements hit a live row, which a-values to look up) — never to judge.
//!
//! Oracle: a full observation (all rows as a bag through `SELECT *` and `WHERE 1=1`; COUNT(*); PK point
//! lookups and secondary-index lookups for every domain value +-1) is taken before BEGIN and right after
//! every SAVEPOINT.  After ROLLBACK / handle drop the observation must equal the one before BEGIN, after
//! ROLLBACK TO s the one taken at SAVEPOINT s (the script then continues from there), after
//! `... ROLLBACK TO s; COMMIT` the one taken at SAVEPOINT s.  Uniqueness probe: at the very end of a
//! script every domain key is re-inserted; the Ok/Err vector must equal the one of a twin database (the
//! "copy taken at the snapshot point") that was driven by the same statements up to the snapshot point and
//! probed there.
//!
//! Signatures: C07/<rollback|rollback-to|rollback-to-commit|drop-handle|drop-reopen>/<table>/[<minimal op
//! pattern>]/<rows|count|pk-lookup|index-lookup|uniqueness>; the pattern is the smallest sub-script (ops
//! removed, start state simplified) that still fails the same layer under the same kind, keys abstracted
//! (k, j, i), `|` separates what precedes the savepoint from the undone scope.
use checks::sqlh::*;
use std::collections::{BTreeMap, BTreeSet, HashMap};
use std::path::Path;
use vcore::{json, Check, Ctx, Reporter, Spec, Value};

// ---------------------------------------------------------------------------
// tables, start states
// ---------------------------------------------------------------------------
#[derive(Clone, Copy, PartialEq, Eq, Hash, Debug, PartialOrd, Ord)]
enum Table {
    Plain,
    IntPk,
    TextPk,
    Split,
}
const TABLES: [Table; 4] = [Table::Plain, Table::IntPk, Table::TextPk, Table::Split];
const PAD_LEN: usize = 900;

impl Table {
    fn name(self) -> &'static str {
        match self {
            Table::Plain => "unindexed",
            Table::IntPk => "intpk+index",
            Table::TextPk => "textpk+index",
            Table::Split => "intpk-rootsplit",
        }
    }
    fn parse(s: &str) -> Option<Table> {
        TABLES.iter().copied().find(|t| t.name() == s)
    }
    fn idx(self) -> u8 {
        TABLES.iter().position(|t| *t == self).unwrap() as u8
    }
    fn has_pk(self) -> bool {
        self != Table::Plain
    }
    fn has_index(self) -> bool {
        self != Table::Plain
    }
    fn ddl(self) -> Vec<String> {
        match self {
            Table::Plain => vec!["CREATE TABLE t(id INT, a INT, b INT)".into()],
            Table::IntPk => vec!["CREATE TABLE t(id INT PRIMARY KEY, a INT, b INT)".into(), "CREATE INDEX ia ON t(a)".into()],
            Table::TextPk => vec!["CREATE TABLE t(id TEXT PRIMARY KEY, a INT, b INT)".into(), "CREATE INDEX ia ON t(a)".into()],
            Table::Split => vec!["CREATE TABLE t(id INT PRIMARY KEY, a INT, b INT, pad TEXT)".into(), "CREATE INDEX ia ON t(a)".into()],
        }
    }
    /// literal of key number k (1..3 = domain keys, 11..13 = moved keys, >= 100 fillers)
    fn key(self, k: u8) -> String {
        match self {
            Table::TextPk => {
                if k > 10 {
                    format!("'k{}x'", k - 10)
                } else {
                    format!("'k{k}'")
                }
            }
            _ => format!("{k}"),
        }
    }
    fn insert_sql(self, k: u8, a: i64, b: i64) -> String {
        match self {
            Table::Split => format!("INSERT INTO t VALUES ({}, {a}, {b}, '{}')", self.key(k), "p".repeat(PAD_LEN)),
            _ => format!("INSERT INTO t VALUES ({}, {a}, {b})", self.key(k)),
        }
    }
}

#[derive(Clone, Copy, PartialEq, Eq, Hash, Debug, PartialOrd, Ord)]
enum Start {
    Empty,
    Rows12,
    Rows123,
}
const STARTS: [Start; 3] = [Start::Empty, Start::Rows12, Start::Rows123];
impl Start {
    fn name(self) -> &'static str {
        match self {
            Start::Empty => "empty",
            Start::Rows12 => "rows12",
            Start::Rows123 => "rows123",
        }
    }
    fn parse(s: &str) -> Option<Start> {
        STARTS.iter().copied().find(|t| t.name() == s)
    }
    fn keys(self) -> &'static [u8] {
        match self {
            Start::Empty => &[],
            Start::Rows12 => &[1, 2],
            Start::Rows123 => &[1, 2, 3],
        }
    }
}

// ---------------------------------------------------------------------------
// operations
// ---------------------------------------------------------------------------
#[derive(Clone, Copy, PartialEq, Eq, Hash, Debug, PartialOrd, Ord)]
enum Op {
    Sp(u8),
    Rel(u8),
    Rbt(u8),
    Ins(u8),
    UpdA(u8),
    UpdB(u8),
    UpdKey(u8),
    Del(u8),
    DelAll,
}
impl Op {
    fn name(self) -> String {
        match self {
            Op::Sp(n) => format!("SP{n}"),
            Op::Rel(n) => format!("REL{n}"),
            Op::Rbt(n) => format!("RBT{n}"),
            Op::Ins(k) => format!("INS{k}"),
            Op::UpdA(k) => format!("UPDA{k}"),
            Op::UpdB(k) => format!("UPDB{k}"),
            Op::UpdKey(k) => format!("UPDK{k}"),
            Op::Del(k) => format!("DEL{k}"),
            Op::DelAll => "DELALL".into(),
        }
    }
    fn kind_name(self) -> &'static str {
        match self {
            Op::Sp(_) => "SAVEPOINT",
            Op::Rel(_) => "RELEASE",
            Op::Rbt(_) => "ROLLBACK-TO",
            Op::Ins(_) => "INSERT",
            Op::UpdA(_) => "UPDATE-a",
            Op::UpdB(_) => "UPDATE-b",
            Op::UpdKey(_) => "UPDATE-key",
            Op::Del(_) => "DELETE",
            Op::DelAll => "DELETE-all",
        }
    }
    fn code(self) -> u8 {
        match self {
            Op::Sp(n) => n,
            Op::Rel(n) => 10 + n,
            Op::Rbt(n) => 20 + n,
            Op::Ins(k) => 30 + k,
            Op::UpdA(k) => 40 + k,
            Op::UpdB(k) => 50 + k,
            Op::UpdKey(k) => 60 + k,
            Op::Del(k) => 70 + k,
            Op::DelAll => 80,
        }
    }
    fn all() -> Vec<Op> {
        let mut v = vec![];
        for k in 1..=3 {
            v.push(Op::Ins(k));
        }
        for k in 1..=2 {
            v.push(Op::UpdA(k));
        }
        for k in 1..=2 {
            v.push(Op::UpdB(k));
        }
        for k in 1..=2 {
            v.push(Op::UpdKey(k));
        }
        for k in 1..=2 {
            v.push(Op::Del(k));
        }
        v.push(Op::DelAll);
        for n in 1..=2 {
            v.push(Op::Sp(n));
        }
        for n in 1..=2 {
            v.push(Op::Rbt(n));
        }
        for n in 1..=2 {
            v.push(Op::Rel(n));
        }
        v
    }
    fn parse(s: &str) -> Option<Op> {
        Op::all().into_iter().find(|o| o.name() == s)
    }
    fn known_broken_undo(self) -> bool {
        matches!(self, Op::Del(_) | Op::DelAll | Op::UpdKey(_))
    }
    fn is_dml(self) -> bool {
        !matches!(self, Op::Sp(_) | Op::Rel(_) | Op::Rbt(_))
    }
    fn key(self) -> Option<u8> {
        match self {
            Op::Ins(k) | Op::UpdA(k) | Op::UpdB(k) | Op::UpdKey(k) | Op::Del(k) => Some(k),
            _ => None,
        }
    }
    /// operations offered on a table (the unindexed table has no indexed / non-indexed distinction)
    fn offered(self, table: Table) -> bool {
        !(table == Table::Plain && matches!(self, Op::UpdB(_)))
    }
    fn sql(self, table: Table) -> String {
        match self {
            Op::Sp(n) => format!("SAVEPOINT s{n}"),
            Op::Rel(n) => format!("RELEASE s{n}"),
            Op::Rbt(n) => format!("ROLLBACK TO s{n}"),
            Op::Ins(k) => table.insert_sql(k, 10 * k as i64, 100 * k as i64),
            Op::UpdA(k) => format!("UPDATE t SET a = a + 1 WHERE id = {}", table.key(k)),
            Op::UpdB(k) => format!("UPDATE t SET b = b + 1 WHERE id = {}", table.key(k)),
            Op::UpdKey(k) => format!("UPDATE t SET id = {} WHERE id = {}", table.key(k + 10), table.key(k)),
            Op::Del(k) => format!("DELETE FROM t WHERE id = {}", table.key(k)),
            Op::DelAll => "DELETE FROM t".into(),
        }
    }
}

// ---------------------------------------------------------------------------
// enumeration model (never used for verdicts)
// ---------------------------------------------------------------------------
type MRow = (u8, i64, i64);
#[derive(Clone)]
struct Model {
    rows: Vec<MRow>,
    /// savepoint stack: (name, rows at creation)
    sps: Vec<(u8, Vec<MRow>)>,
    /// names implicitly destroyed by RELEASE of an outer savepoint (SQL: destroyed; TurDB: kept) — never reused
    burnt: u8,
    /// every a-value a row ever carried (for the index look-up domain)
    avals: BTreeSet<i64>,
    used_keys: u8,
}
impl Model {
    fn new(start: Start) -> Model {
        let rows: Vec<MRow> = start.keys().iter().map(|&k| (k, 10 * k as i64, 100 * k as i64)).collect();
        let avals = [10i64, 20, 30].into_iter().collect();
        Model { rows, sps: vec![], burnt: 0, avals, used_keys: 0 }
    }
    fn live(&self, k: u8) -> usize {
        self.rows.iter().filter(|r| r.0 == k).count()
    }
    fn active(&self, n: u8) -> bool {
        self.sps.iter().any(|s| s.0 == n)
    }
    /// savepoint discipline: names are unique while active; s2 only inside s1; implicitly destroyed names are not reused
    fn wellformed(&self, op: Op) -> bool {
        match op {
            Op::Sp(n) => !self.active(n) && self.burnt & (1 << n) == 0 && (n == 1 || self.active(1)),
            Op::Rel(n) | Op::Rbt(n) => self.active(n),
            _ => true,
        }
    }
    /// strict alphabet: the statement hits a live row / inserts a fresh key
    fn enabled(&self, table: Table, op: Op) -> bool {
        match op {
            Op::Ins(k) => self.live(k) < if table.has_pk() { 1 } else { 2 },
            Op::UpdA(k) | Op::UpdB(k) | Op::Del(k) => self.live(k) > 0,
            Op::UpdKey(k) => self.live(k) > 0 && self.live(k + 10) == 0,
            Op::DelAll => !self.rows.is_empty() || table == Table::Split,
            _ => true,
        }
    }
    /// key symmetry: among interchangeable keys the smaller one is used first
    fn canonical(&self, start: Start, op: Op) -> bool {
        let Some(k) = op.key() else { return true };
        if k == 1 || self.used_keys & (1 << k) != 0 {
            return true;
        }
        match (start, k) {
            (Start::Rows12, 3) => true,
            _ => self.used_keys & (1 << (k - 1)) != 0,
        }
    }
    fn apply(&mut self, op: Op) {
        if let Some(k) = op.key() {
            self.used_keys |= 1 << k;
        }
        match op {
            Op::Sp(n) => self.sps.push((n, self.rows.clone())),
            Op::Rel(n) => {
                if let Some(p) = self.sps.iter().position(|s| s.0 == n) {
                    for s in &self.sps[p + 1..] {
                        self.burnt |= 1 << s.0;
                    }
                    self.sps.truncate(p);
                }
            }
            Op::Rbt(n) => {
                if let Some(p) = self.sps.iter().position(|s| s.0 == n) {
                    self.rows = self.sps[p].1.clone();
                    self.sps.truncate(p + 1);
                }
            }
            Op::Ins(k) => self.rows.push((k, 10 * k as i64, 100 * k as i64)),
            Op::UpdA(k) => {
                for r in self.rows.iter_mut().filter(|r| r.0 == k) {
                    r.1 += 1;
                    self.avals.insert(r.1);
                }
            }
            Op::UpdB(k) => {
                for r in self.rows.iter_mut().filter(|r| r.0 == k) {
                    r.2 += 1;
                }
            }
            Op::UpdKey(k) => {
                for r in self.rows.iter_mut().filter(|r| r.0 == k) {
                    r.0 = k + 10;
                }
            }
            Op::Del(k) => self.rows.retain(|r| r.0 != k),
            Op::DelAll => self.rows.clear(),
        }
    }
}

/// is `ops` a well-formed script (savepoint discipline; with `strict` also the state-aware alphabet)?
fn valid(table: Table, start: Start, ops: &[Op], strict: bool) -> bool {
    let mut m = Model::new(start);
    for (i, &op) in ops.iter().enumerate() {
        if !op.offered(table) || !m.wellformed(op) || (strict && !m.enabled(table, op)) {
            return false;
        }
        if i > 0 {
            if let (Op::Sp(a), Op::Rel(b) | Op::Rbt(b)) = (ops[i - 1], op) {
                if a == b {
                    return false;
                }
            }
        }
        m.apply(op);
    }
    !matches!(ops.last(), Some(Op::Sp(_)))
}

/// every valid script of exactly `len` operations, in a fixed order
/// `clean`: the alphabet without the operations whose undo is known to be broken (DELETE, DELETE all,
/// UPDATE of the key column; see findings) — the remainder that is explored deeper
fn gen_scripts(table: Table, start: Start, len: usize, strict: bool, sym: bool, clean: bool, f: &mut dyn FnMut(&[Op])) {
    fn rec(table: Table, start: Start, len: usize, strict: bool, sym: bool, m: &Model, cur: &mut Vec<Op>, alphabet: &[Op], f: &mut dyn FnMut(&[Op])) {
        if cur.len() == len {
            f(cur);
            return;
        }
        let last = cur.len() + 1 == len;
        for &op in alphabet {
            if !m.wellformed(op) || (strict && !m.enabled(table, op)) || (sym && !m.canonical(start, op)) {
                continue;
            }
            if last && matches!(op, Op::Sp(_)) {
                continue;
            }
            if let (Some(Op::Sp(a)), Op::Rel(b) | Op::Rbt(b)) = (cur.last().copied(), op) {
                if a == b {
                    continue;
                }
            }
            let mut m2 = m.clone();
            m2.apply(op);
            cur.push(op);
            rec(table, start, len, strict, sym, &m2, cur, alphabet, f);
            cur.pop();
        }
    }
    let alphabet: Vec<Op> = Op::all().into_iter().filter(|o| o.offered(table) && !(clean && o.known_broken_undo())).collect();
    rec(table, start, len, strict, sym, &Model::new(start), &mut vec![], &alphabet, f);
}

// ---------------------------------------------------------------------------
// terminators
// ---------------------------------------------------------------------------
#[derive(Clone, Copy, PartialEq, Eq, Hash, Debug, PartialOrd, Ord)]
enum Term {
    Rollback,
    DropClone,
    Reopen,
    /// only after a final ROLLBACK TO: COMMIT, then compare with the savepoint observation
    Commit,
    /// only after a final ROLLBACK TO: uniqueness probe inside the transaction
    ProbeInTxn,
}
const TERMS: [Term; 5] = [Term::Rollback, Term::DropClone, Term::Reopen, Term::Commit, Term::ProbeInTxn];
impl Term {
    fn name(self) -> &'static str {
        match self {
            Term::Rollback => "ROLLBACK",
            Term::DropClone => "DROP-CLONED-HANDLE",
            Term::Reopen => "DROP-HANDLE-REOPEN",
            Term::Commit => "COMMIT",
            Term::ProbeInTxn => "PROBE-IN-TXN",
        }
    }
    fn parse(s: &str) -> Option<Term> {
        TERMS.iter().copied().find(|t| t.name() == s)
    }
    fn kind(self) -> &'static str {
        match self {
            Term::Rollback => "rollback",
            Term::DropClone => "drop-handle",
            Term::Reopen => "drop-reopen",
            Term::Commit => "rollback-to-commit",
            Term::ProbeInTxn => "rollback-to",
        }
    }
    fn applicable(self, ops: &[Op]) -> bool {
        match self {
            Term::Commit | Term::ProbeInTxn => matches!(ops.last(), Some(Op::Rbt(_))),
            _ => true,
        }
    }
}

#[derive(Clone, Debug, PartialEq, Eq, Hash)]
struct Script {
    table: Table,
    start: Start,
    ops: Vec<Op>,
    term: Term,
}
impl Script {
    fn key(&self) -> Vec<u8> {
        let mut v = vec![self.table.idx(), self.start as u8, self.term as u8];
        v.extend(self.ops.iter().map(|o| o.code()));
        v
    }
    fn to_json(&self) -> Value {
        let mut sql: Vec<String> = setup_sql(self.table, self.start, 0).iter().map(|s| vcore::util::clip(s, 90)).collect();
        sql.push("BEGIN".into());
        sql.extend(self.ops.iter().map(|o| vcore::util::clip(&o.sql(self.table), 90)));
        sql.push(self.term.name().into());
        json!({"table": self.table.name(), "start": self.start.name(), "ops": self.ops.iter().map(|o| o.name()).collect::<Vec<_>>(), "term": self.term.name(), "sql": sql})
    }
    fn from_json(v: &Value) -> Option<Script> {
        Some(Script {
            table: Table::parse(v["table"].as_str()?)?,
            start: Start::parse(v["start"].as_str()?)?,
            ops: v["ops"].as_array()?.iter().map(|x| x.as_str().and_then(Op::parse)).collect::<Option<Vec<_>>>()?,
            term: Term::parse(v["term"].as_str()?)?,
        })
    }
    fn uses_moved_keys(&self) -> bool {
        self.ops.iter().any(|o| matches!(o, Op::UpdKey(_)))
    }
}

// ---------------------------------------------------------------------------
// set-up, observation, probe
// ---------------------------------------------------------------------------
/// number of filler rows of the root-split table (calibrated once per worker: the root leaf is exactly full)
fn setup_sql(table: Table, start: Start, fillers: usize) -> Vec<String> {
    let mut v = table.ddl();
    // descending key order: internal row ids (1, 2, ..) differ from the primary-key values
    for &k in start.keys().iter().rev() {
        v.push(table.insert_sql(k, 10 * k as i64, 100 * k as i64));
    }
    if table == Table::Split {
        for i in 0..fillers.saturating_sub(start.keys().len()) {
            v.push(table.insert_sql(101 + i as u8, 1001 + i as i64, 0));
        }
    }
    v
}

struct Queries {
    rows: Vec<String>,
    count: String,
    pk: Vec<String>,
    idx: Vec<String>,
}
fn queries(sc: &Script) -> Queries {
    let t = sc.table;
    let mut rows = vec!["SELECT * FROM t".to_string(), "SELECT * FROM t WHERE 1=1".to_string()];
    let mut pk = vec![];
    let mut idx = vec![];
    let moved = sc.uses_moved_keys();
    match t {
        Table::Plain => {
            for k in 1..=3 {
                rows.push(format!("SELECT * FROM t WHERE id = {k}"));
            }
        }
        Table::IntPk | Table::Split => {
            for k in 0..=4 {
                pk.push(format!("SELECT * FROM t WHERE id = {k}"));
            }
            if moved {
                for k in 10..=13 {
                    pk.push(format!("SELECT * FROM t WHERE id = {k}"));
                }
            }
            if t == Table::Split {
                for k in [100, 101, 102, 116] {
                    pk.push(format!("SELECT * FROM t WHERE id = {k}"));
                }
            }
        }
        Table::TextPk => {
            for k in 0..=4 {
                pk.push(format!("SELECT * FROM t WHERE id = 'k{k}'"));
            }
            if moved {
                for s in ["k1w", "k1x", "k1y", "k2x", "k2y"] {
                    pk.push(format!("SELECT * FROM t WHERE id = '{s}'"));
                }
            }
        }
    }
    if t.has_index() {
        let mut m = Model::new(sc.start);
        for &op in &sc.ops {
            m.apply(op);
        }
        let mut vals = BTreeSet::new();
        for v in &m.avals {
            vals.insert(v - 1);
            vals.insert(*v);
            vals.insert(v + 1);
        }
        if t == Table::Split {
            vals.extend([1000, 1001, 1002, 1016]);
        }
        for v in vals {
            idx.push(format!("SELECT * FROM t WHERE a = {v}"));
        }
    }
    Queries { rows, count: "SELECT COUNT(*) FROM t".into(), pk, idx }
}

#[derive(Clone, PartialEq, Debug)]
struct Obs {
    rows: Vec<Res>,
    count: Res,
    pk: Vec<Res>,
    idx: Vec<Res>,
}
fn observe1(db: &turdb::Database, q: &str) -> Res {
    match exec(db, q) {
        Res::Rows(r) => Res::Rows(refmodel::val::bag(&r)),
        o => o,
    }
}
fn observe_all(db: &turdb::Database, q: &Queries) -> Obs {
    Obs {
        rows: q.rows.iter().map(|s| observe1(db, s)).collect(),
        count: observe1(db, &q.count),
        pk: q.pk.iter().map(|s| observe1(db, s)).collect(),
        idx: q.idx.iter().map(|s| observe1(db, s)).collect(),
    }
}
const LAYERS: [&str; 5] = ["rows", "count", "pk-lookup", "index-lookup", "uniqueness"];
fn show_short(r: &Res) -> String {
    vcore::util::clip(&r.show(), 240)
}
/// layers on which `now` differs from `snap` (rows first: when the rows differ the other layers are not judged)
fn compare(q: &Queries, snap: &Obs, now: &Obs, tainted: &BTreeSet<&'static str>) -> Vec<(&'static str, String, String)> {
    let mut out = vec![];
    for (i, (a, b)) in snap.rows.iter().zip(now.rows.iter()).enumerate() {
        if a != b {
            out.push(("rows", format!("{} = {}", q.rows[i], show_short(a)), show_short(b)));
            return out;
        }
    }
    if !tainted.contains("count") && snap.count != now.count {
        out.push(("count", format!("{} = {}", q.count, show_short(&snap.count)), show_short(&now.count)));
    }
    if !tainted.contains("pk-lookup") {
        for (i, (a, b)) in snap.pk.iter().zip(now.pk.iter()).enumerate() {
            if a != b {
                out.push(("pk-lookup", format!("{} = {}", q.pk[i], show_short(a)), show_short(b)));
                break;
            }
        }
    }
    if !tainted.contains("index-lookup") {
        for (i, (a, b)) in snap.idx.iter().zip(now.idx.iter()).enumerate() {
            if a != b {
                out.push(("index-lookup", format!("{} = {}", q.idx[i], show_short(a)), show_short(b)));
                break;
            }
        }
    }
    out
}

/// destructive uniqueness probe: re-insert every domain key; Ok/Err classes
fn probe(db: &turdb::Database, table: Table, moved: bool) -> Vec<(String, &'static str)> {
    let mut keys = vec![1u8, 2, 3];
    if moved {
        keys.extend([11, 12]);
    }
    keys.iter()
        .map(|&k| {
            let sql = match table {
                Table::Split => format!("INSERT INTO t VALUES ({}, 7, 7, 'x')", table.key(k)),
                _ => format!("INSERT INTO t VALUES ({}, 7, 7)", table.key(k)),
            };
            let r = exec(db, &sql);
            (format!("INSERT {}", table.key(k)), if r.ok() { "ok" } else { r.class() })
        })
        .collect()
}
fn show_probe(p: &[(String, &'static str)]) -> String {
    p.iter().map(|(s, c)| format!("{s} -> {c}")).collect::<Vec<_>>().join(", ")
}

// ---------------------------------------------------------------------------
// running one script
// ---------------------------------------------------------------------------
#[derive(Clone, Debug)]
struct Failure {
    kind: &'static str,
    layer: &'static str,
    /// index of the failing ROLLBACK TO, or ops.len() for the terminator
    at: usize,
    expected: String,
    observed: String,
}
#[derive(Clone, Debug, Default)]
struct RunOut {
    failures: Vec<Failure>,
    /// result class of every inner statement: b'o' ok, b'e' err, b'p' panic
    classes: Vec<u8>,
    statements: u64,
    rbt_checks: u64,
    layer_checks: u64,
    split: bool,
    diverged: bool,
}

#[derive(Clone, Copy, PartialEq, Eq, Debug)]
enum Plant {
    None,
    /// after ROLLBACK of a script on the unindexed table that contains UPDATE b: one hidden UPDATE (an undo that forgets a row)
    LostUndo,
    /// after ROLLBACK TO in the unindexed table: hidden INSERT (savepoint truncation off by one)
    RbtExtraRow,
    /// after a handle drop on the int-PK table whose script inserted key 3: a stale PK-index entry for key 3 is
    /// planted (rows and COUNT(*) unchanged): only the look-up / uniqueness layers can see it
    HiddenKey,
}
impl Plant {
    fn from_ctx(ctx: &Ctx) -> Plant {
        match ctx.opt("plant") {
            Some("lost-undo") => Plant::LostUndo,
            Some("rbt-extra-row") => Plant::RbtExtraRow,
            Some("hidden-key") => Plant::HiddenKey,
            Some(o) => vcore::machinery(&format!("unknown plant {o}")),
            None => Plant::None,
        }
    }
}

struct Runner<'a> {
    base: &'a Path,
    plant: Plant,
    fillers: usize,
    /// uniqueness probe of the untouched start state (the copy taken at BEGIN): (table, start, moved) -> classes
    base_probe: HashMap<(Table, Start, bool), Vec<(String, &'static str)>>,
    /// observation + probe of the start state after a drop + reopen WITHOUT any transaction (reopening has
    /// defects of its own — C04 — which must not be blamed on the open transaction)
    reopen_base: HashMap<(Table, Start, bool, String), (Obs, Vec<(String, &'static str)>)>,
    /// (failures as (kind, layer, at), classes) of short scripts
    cache: HashMap<Vec<u8>, (Vec<(&'static str, &'static str, usize)>, Vec<u8>)>,
    cache_max_len: usize,
    runs: u64,
}

fn file_len(dir: &Path) -> u64 {
    std::fs::metadata(dir.join("root").join("t.tbd")).map(|m| m.len()).unwrap_or(0)
}

/// one fresh database (own directory, created through real DDL/DML)
struct Inst {
    db: Option<turdb::Database>,
    dir: std::path::PathBuf,
}
impl Inst {
    fn db(&self) -> &turdb::Database {
        self.db.as_ref().expect("database is open")
    }
    fn exec(&self, sql: &str) -> Res {
        exec(self.db(), sql)
    }
    /// drop the only handle (no close()) and open the directory again
    fn reopen(&mut self) -> Result<(), String> {
        let db = self.db.take();
        if let Err(p) = vcore::catch(move || drop(db)) {
            return Err(format!("PANIC while dropping the handle: {p}"));
        }
        match vcore::catch(|| turdb::Database::open(&self.dir).map_err(|e| format!("{e:#}"))) {
            Ok(Ok(db)) => {
                self.db = Some(db);
                Ok(())
            }
            Ok(Err(e)) => Err(e),
            Err(p) => Err(format!("PANIC {p}")),
        }
    }
}
impl Drop for Inst {
    fn drop(&mut self) {
        // harness clean-up after every observation was taken: close() makes the drop skip the final
        // catalog save / sync (fewer system calls)
        if let Some(db) = self.db.take() {
            let _ = vcore::catch(move || {
                let _ = db.close();
                drop(db)
            });
        }
        let _ = std::fs::remove_dir_all(&self.dir);
    }
}

impl<'a> Runner<'a> {
    fn new(base: &'a Path, plant: Plant) -> Runner<'a> {
        Runner { base, plant, fillers: 0, base_probe: HashMap::new(), reopen_base: HashMap::new(), cache: HashMap::new(), cache_max_len: 4, runs: 0 }
    }

    /// find the number of rows that exactly fills the root leaf of the root-split table
    fn calibrate(&mut self) -> Result<usize, String> {
        if self.fillers > 0 {
            return Ok(self.fillers);
        }
        let t = TestDb::create(self.base, "cal")?;
        for s in Table::Split.ddl() {
            if !t.exec(&s).ok() {
                return Err(format!("calibration DDL failed: {s}"));
            }
        }
        let l0 = file_len(&t.dir);
        for i in 0..64usize {
            let r = t.exec(&Table::Split.insert_sql(101 + i as u8, 1001 + i as i64, 0));
            if !r.ok() {
                return Err(format!("calibration insert failed: {}", r.show()));
            }
            if file_len(&t.dir) != l0 {
                self.fillers = i;
                return Ok(i);
            }
        }
        Err("calibration: the table file never grew".into())
    }

    /// a fresh database in the start state.  (Writing a stored image of the start state and opening it
    /// would be ~5x cheaper, but Database::open restarts the global row-id counter — C04's finding — so
    /// every INSERT of a script would fail: each script pays for real DDL instead.)
    fn setup(&mut self, name: &str, table: Table, start: Start) -> Result<Inst, String> {
        let fillers = if table == Table::Split { self.calibrate()? } else { 0 };
        let dir = self.base.join(name);
        let _ = std::fs::remove_dir_all(&dir);
        let db = match vcore::catch(|| turdb::Database::create(&dir).map_err(|e| format!("{e:#}"))) {
            Ok(Ok(db)) => db,
            Ok(Err(e)) => return Err(format!("create failed: {e}")),
            Err(p) => return Err(format!("PANIC in create: {p}")),
        };
        let t = Inst { db: Some(db), dir };
        for s in setup_sql(table, start, fillers) {
            let r = t.exec(&s);
            if !r.ok() {
                return Err(format!("set-up statement failed: {} -> {}", vcore::util::clip(&s, 80), r.show()));
            }
        }
        Ok(t)
    }

    fn baseline_probe(&mut self, table: Table, start: Start, moved: bool) -> Result<Vec<(String, &'static str)>, String> {
        if let Some(p) = self.base_probe.get(&(table, start, moved)) {
            return Ok(p.clone());
        }
        let t = self.setup("twin", table, start)?;
        let p = probe(t.db(), table, moved);
        self.base_probe.insert((table, start, moved), p.clone());
        Ok(p)
    }

    fn reopen_baseline(&mut self, table: Table, start: Start, moved: bool, q: &Queries) -> Result<(Obs, Vec<(String, &'static str)>), String> {
        let key = (table, start, moved, q.idx.join(";"));
        if let Some(v) = self.reopen_base.get(&key) {
            return Ok(v.clone());
        }
        let mut t = self.setup("twin", table, start)?;
        t.reopen().map_err(|e| format!("twin reopen failed: {e}"))?;
        let obs = observe_all(t.db(), q);
        let p = probe(t.db(), table, moved);
        self.reopen_base.insert(key, (obs.clone(), p.clone()));
        Ok((obs, p))
    }

    /// the copy taken at the savepoint: a twin driven by the same statements up to (and including) ops[sp_at],
    /// optionally committed, then probed
    fn twin_probe(&mut self, sc: &Script, sp_at: usize, commit: bool) -> Result<Vec<(String, &'static str)>, String> {
        let t = self.setup("twin", sc.table, sc.start)?;
        if !t.exec("BEGIN").ok() {
            return Err("twin BEGIN failed".into());
        }
        for op in &sc.ops[..=sp_at] {
            let _ = t.exec(&op.sql(sc.table));
        }
        if commit && !t.exec("COMMIT").ok() {
            return Err("twin COMMIT failed".into());
        }
        let p = probe(t.db(), sc.table, sc.uses_moved_keys());
        if !commit {
            let _ = t.exec("ROLLBACK");
        }
        Ok(p)
    }

    fn run(&mut self, sc: &Script) -> Result<RunOut, String> {
        self.runs += 1;
        let table = sc.table;
        let mut out = RunOut::default();
        let q = queries(sc);
        let mut t = self.setup("main", table, sc.start)?;
        let len0 = file_len(&t.dir);
        let obs0 = observe_all(t.db(), &q);
        let clone = if sc.term == Term::DropClone { Some(t.db().clone()) } else { None };
        let mut tainted: BTreeSet<&'static str> = BTreeSet::new();
        let mut sp_obs: BTreeMap<u8, (Obs, usize)> = BTreeMap::new();
        let mut last_rbt: Option<(u8, usize)> = None;
        {
            let h: &turdb::Database = clone.as_ref().unwrap_or_else(|| t.db());
            let r = exec(h, "BEGIN");
            if !r.ok() {
                return Err(format!("BEGIN failed: {}", r.show()));
            }
            out.statements += 1;
            for (i, &op) in sc.ops.iter().enumerate() {
                let r = exec(h, &op.sql(table));
                out.statements += 1;
                out.classes.push(match &r {
                    Res::Err(_) => b'e',
                    Res::Panic(_) => b'p',
                    _ => b'o',
                });
                match op {
                    Op::Sp(n) => {
                        sp_obs.insert(n, (observe_all(h, &q), i));
                    }
                    Op::Rbt(n) => {
                        if self.plant == Plant::RbtExtraRow && table == Table::Plain {
                            let _ = exec(h, "INSERT INTO t VALUES (9, 9, 9)");
                        }
                        let Some((snap, sp_at)) = sp_obs.get(&n) else {
                            return Err(format!("script is not well-formed: ROLLBACK TO s{n} without savepoint"));
                        };
                        let sp_at_v = *sp_at;
                        last_rbt = Some((n, sp_at_v));
                        let now = observe_all(h, &q);
                        out.rbt_checks += 1;
                        out.layer_checks += 4u64.saturating_sub(tainted.len() as u64);
                        let diffs = compare(&q, snap, &now, &tainted);
                        for (layer, e, o) in diffs {
                            out.failures.push(Failure { kind: "rollback-to", layer, at: i, expected: format!("after ROLLBACK TO s{n}: {e} (as observed at SAVEPOINT s{n})"), observed: o });
                            tainted.insert(layer);
                            if layer == "pk-lookup" {
                                tainted.insert("uniqueness");
                            }
                        }
                        if tainted.contains("rows") {
                            // the transaction no longer is where the script thinks it is: stop (divergence)
                            out.diverged = true;
                            break;
                        }
                        // savepoints created after s<n> are gone
                        sp_obs.retain(|_, v| v.1 <= sp_at_v);
                    }
                    _ => {}
                }
            }
            if table == Table::Split && file_len(&t.dir) != len0 {
                out.split = true;
            }
        }
        if out.diverged {
            drop(clone);
            return Ok(out);
        }
        let end = sc.ops.len();
        let moved = sc.uses_moved_keys();
        match sc.term {
            Term::Rollback | Term::DropClone | Term::Reopen => {
                match sc.term {
                    Term::Rollback => {
                        let r = t.exec("ROLLBACK");
                        out.statements += 1;
                        if !r.ok() {
                            out.failures.push(Failure { kind: "rollback", layer: "rows", at: end, expected: "ROLLBACK succeeds".into(), observed: r.show() });
                            return Ok(out);
                        }
                    }
                    Term::DropClone => {
                        let c = clone;
                        if let Err(p) = vcore::catch(move || drop(c)) {
                            out.failures.push(Failure { kind: "drop-handle", layer: "rows", at: end, expected: "dropping the handle does not panic".into(), observed: p });
                            return Ok(out);
                        }
                    }
                    _ => {
                        if let Err(e) = t.reopen() {
                            out.failures.push(Failure { kind: "drop-reopen", layer: "rows", at: end, expected: "database reopens after the handle was dropped with an open transaction".into(), observed: e });
                            return Ok(out);
                        }
                    }
                }
                if self.plant == Plant::LostUndo && table == Table::Plain && sc.ops.iter().any(|o| matches!(o, Op::UpdB(_) | Op::UpdA(_))) {
                    let _ = t.exec("UPDATE t SET b = b + 1 WHERE id = 1");
                }
                if self.plant == Plant::HiddenKey && table == Table::IntPk && sc.term == Term::DropClone && sc.ops.contains(&Op::Ins(3)) {
                    // a key that no scan shows but the PK index still holds (made with the defect of KF-C07-03)
                    let _ = t.exec("BEGIN");
                    let _ = t.exec("UPDATE t SET id = 3 WHERE id = 1");
                    let _ = t.exec("ROLLBACK");
                }
                let kind = sc.term.kind();
                let now = observe_all(t.db(), &q);
                out.layer_checks += 4u64.saturating_sub(tainted.len() as u64);
                let what = match sc.term {
                    Term::Rollback => "after ROLLBACK",
                    Term::DropClone => "after dropping the handle that holds the open transaction",
                    _ => "after dropping the only handle with the transaction open and reopening",
                };
                let (snap, want_probe, how) = if sc.term == Term::Reopen {
                    let (o, p) = self.reopen_baseline(table, sc.start, moved, &q)?;
                    (o, Some(p), "as observed on a twin database reopened without any transaction")
                } else {
                    (obs0.clone(), None, "as observed before BEGIN")
                };
                let diffs = compare(&q, &snap, &now, &tainted);
                let rows_ok = !diffs.iter().any(|d| d.0 == "rows");
                for (layer, e, o) in diffs {
                    out.failures.push(Failure { kind, layer, at: end, expected: format!("{what}: {e} ({how})"), observed: o });
                }
                if rows_ok && table.has_pk() && !tainted.contains("uniqueness") {
                    let want = match want_probe {
                        Some(p) => p,
                        None => self.baseline_probe(table, sc.start, moved)?,
                    };
                    let got = probe(t.db(), table, moved);
                    out.layer_checks += 1;
                    if want != got {
                        out.failures.push(Failure { kind, layer: "uniqueness", at: end, expected: format!("{what}, re-inserting every key behaves as on a copy of the state before BEGIN: {}", show_probe(&want)), observed: show_probe(&got) });
                    }
                }
            }
            Term::Commit | Term::ProbeInTxn => {
                let Some((n, sp_at)) = last_rbt else {
                    return Err("terminator needs a final ROLLBACK TO".into());
                };
                if sc.term == Term::Commit {
                    let r = t.exec("COMMIT");
                    out.statements += 1;
                    if !r.ok() {
                        out.failures.push(Failure { kind: "rollback-to-commit", layer: "rows", at: end, expected: "COMMIT succeeds".into(), observed: r.show() });
                        return Ok(out);
                    }
                    let Some((snap, _)) = sp_obs.get(&n) else { return Err("lost savepoint observation".into()) };
                    let now = observe_all(t.db(), &q);
                    out.layer_checks += 4u64.saturating_sub(tainted.len() as u64);
                    let diffs = compare(&q, snap, &now, &tainted);
                    let rows_ok = !diffs.iter().any(|d| d.0 == "rows");
                    for (layer, e, o) in diffs {
                        out.failures.push(Failure { kind: "rollback-to-commit", layer, at: end, expected: format!("after ROLLBACK TO s{n}; COMMIT: {e} (as observed at SAVEPOINT s{n})"), observed: o });
                    }
                    if rows_ok && table.has_pk() && !tainted.contains("uniqueness") {
                        let want = self.twin_probe(sc, sp_at, true)?;
                        let got = probe(t.db(), table, moved);
                        out.layer_checks += 1;
                        if want != got {
                            out.failures.push(Failure { kind: "rollback-to-commit", layer: "uniqueness", at: end, expected: format!("after ROLLBACK TO s{n}; COMMIT, re-inserting every key behaves as on a copy committed at SAVEPOINT s{n}: {}", show_probe(&want)), observed: show_probe(&got) });
                        }
                    }
                } else if table.has_pk() && !tainted.contains("uniqueness") {
                    let want = self.twin_probe(sc, sp_at, false)?;
                    let got = probe(t.db(), table, moved);
                    out.layer_checks += 1;
                    if want != got {
                        out.failures.push(Failure { kind: "rollback-to", layer: "uniqueness", at: end - 1, expected: format!("after ROLLBACK TO s{n}, re-inserting every key inside the transaction behaves as on a copy taken at SAVEPOINT s{n}: {}", show_probe(&want)), observed: show_probe(&got) });
                    }
                    let _ = t.exec("ROLLBACK");
                }
            }
        }
        Ok(out)
    }

    /// failure set + statement classes, memoised for short scripts
    fn run_cached(&mut self, sc: &Script) -> Result<(Vec<(&'static str, &'static str, usize)>, Vec<u8>), String> {
        let key = sc.key();
        if let Some(v) = self.cache.get(&key) {
            return Ok(v.clone());
        }
        let out = self.run(sc)?;
        let v = (out.failures.iter().map(|f| (f.kind, f.layer, f.at)).collect::<Vec<_>>(), out.classes.clone());
        if sc.ops.len() <= self.cache_max_len {
            self.cache.insert(key, v.clone());
        }
        Ok(v)
    }

    /// smallest script made of a subset of the operations (fewest operations first, then simplest start
    /// state, fixed candidate order) that fails the same layer under the same kind; the script itself if
    /// no smaller one does
    fn minimise(&mut self, sc: &Script, kind: &str, layer: &str) -> Script {
        let n = sc.ops.len();
        let strict = valid(sc.table, sc.start, &sc.ops, true);
        // index subsets (the last one is the script itself), fewest operations first, then in a fixed order
        let mut masks: Vec<u32> = (0..(1u32 << n)).collect();
        masks.sort_by_key(|m| (m.count_ones(), *m));
        for mask in masks {
            let mut ops: Vec<Op> = (0..n).filter(|i| mask & (1 << i) != 0).map(|i| sc.ops[i]).collect();
            if !sc.term.applicable(&ops) {
                continue;
            }
            // savepoint names are arbitrary: without s1 the inner name s2 becomes s1
            if !ops.contains(&Op::Sp(1)) {
                for o in ops.iter_mut() {
                    *o = match *o {
                        Op::Sp(2) => Op::Sp(1),
                        Op::Rel(2) => Op::Rel(1),
                        Op::Rbt(2) => Op::Rbt(1),
                        x => x,
                    };
                }
            }
            // start states empty / rows 1,2 (and the script's own), simplest first: a pattern that needs a
            // pre-existing row shows up with rows12
            for &start in STARTS.iter().filter(|s| **s != Start::Rows123 || sc.start == Start::Rows123) {
                if !valid(sc.table, start, &ops, strict) {
                    continue;
                }
                let cand = Script { table: sc.table, start, ops: ops.clone(), term: sc.term };
                if let Ok((fails, _)) = self.run_cached(&cand) {
                    if fails.iter().any(|f| f.0 == kind && f.1 == layer) {
                        return cand;
                    }
                }
            }
        }
        sc.clone()
    }
}

// ---------------------------------------------------------------------------
// signatures
// ---------------------------------------------------------------------------
/// pattern of a (minimal) failing script; `at` = index of the failing ROLLBACK TO, or ops.len() for a terminator
fn pattern(sc: &Script, classes: &[u8], kind: &str, at: usize) -> String {
    let mut letters: BTreeMap<u8, char> = BTreeMap::new();
    let mut next = ['k', 'j', 'i'].into_iter();
    let mut keyname = |k: u8| -> char { *letters.entry(k).or_insert_with(|| next.next().unwrap_or('x')) };
    let sname = |n: u8| if n == 1 { "s" } else { "t" };
    let indexed = sc.table.has_index();
    let render = |i: usize, op: Op, keyname: &mut dyn FnMut(u8) -> char| -> String {
        let base = match op {
            Op::Sp(n) => format!("SAVEPOINT {}", sname(n)),
            Op::Rel(n) => format!("RELEASE {}", sname(n)),
            Op::Rbt(n) => format!("ROLLBACK TO {}", sname(n)),
            Op::Ins(k) => format!("INSERT {}", keyname(k)),
            Op::UpdA(k) => format!("UPDATE {} {}", if indexed { "indexed col" } else { "col" }, keyname(k)),
            Op::UpdB(k) => format!("UPDATE non-indexed col {}", keyname(k)),
            Op::UpdKey(k) => format!("UPDATE key col {}", keyname(k)),
            Op::Del(k) => format!("DELETE {}", keyname(k)),
            Op::DelAll => "DELETE all".into(),
        };
        match classes.get(i) {
            Some(b'e') => format!("{base}(err)"),
            Some(b'p') => format!("{base}(panic)"),
            _ => base,
        }
    };
    let all: Vec<String> = sc.ops.iter().enumerate().map(|(i, &op)| render(i, op, &mut keyname)).collect();
    if kind == "rollback-to" || kind == "rollback-to-commit" {
        let at = at.min(sc.ops.len().saturating_sub(1));
        if let Some(Op::Rbt(n)) = sc.ops.get(at) {
            // the savepoint instance this ROLLBACK TO refers to
            if let Some(p) = (0..at).rev().find(|&i| sc.ops[i] == Op::Sp(*n)) {
                let before = all[..p].join(";");
                let scope = all[p + 1..at].join(";");
                return if before.is_empty() { format!("[{scope}]") } else { format!("[{before}|{scope}]") };
            }
        }
    }
    format!("[{}]", all.join(";"))
}
fn signature(min: &Script, classes: &[u8], kind: &str, layer: &str, at: usize) -> String {
    format!("C07/{}/{}/{}/{}", kind, min.table.name(), pattern(min, classes, kind, at), layer)
}

// ---------------------------------------------------------------------------
// exploration
// ---------------------------------------------------------------------------
struct Plan {
    /// (table, start) -> max length with (the full key alphabet, key symmetry reduction, the clean alphabet
    /// = without the operations whose undo is known to be broken)
    depth: BTreeMap<(Table, Start), (usize, usize, usize)>,
    reopen_max_len: usize,
    lax_len: usize,
}
fn plan(ctx: &Ctx) -> Plan {
    let q = ctx.quick();
    let mut depth = BTreeMap::new();
    let over: Option<usize> = ctx.opt("depth").and_then(|s| s.parse().ok());
    for table in TABLES {
        for start in STARTS {
            let v = match (table, start, q) {
                (_, Start::Rows123, true) => continue,
                (Table::IntPk, _, true) => (3, 4, 5),
                (Table::Plain, _, true) => (3, 4, 4),
                (Table::TextPk, _, true) => (3, 3, 4),
                (Table::Split, _, true) => (2, 3, 4),
                (Table::Split, Start::Rows123, false) => continue,
                (Table::Split, _, false) => (3, 5, 6),
                (_, Start::Rows123, false) => (3, 5, 5),
                (Table::IntPk, _, false) => (4, 6, 7),
                (Table::Plain, _, false) => (4, 6, 6),
                (Table::TextPk, _, false) => (4, 5, 6),
            };
            let v = match over {
                Some(o) => (v.0.min(o), v.1.min(o), v.2.min(o)),
                None => v,
            };
            depth.insert((table, start), v);
        }
    }
    Plan { depth, reopen_max_len: if q { 2 } else { 4 }, lax_len: if q { 2 } else { 3 } }
}

struct Explorer<'a> {
    ctx: &'a Ctx,
    runner: Runner<'a>,
    recorded: BTreeMap<String, u32>,
    capped: bool,
}
impl<'a> Explorer<'a> {
    fn judge(&mut self, rep: &mut Reporter, sc: &Script, replaying: bool) {
        let out = match self.runner.run(sc) {
            Ok(o) => o,
            Err(e) => {
                rep.count("harness_errors", 1);
                rep.note(&format!("script could not be run: {}", vcore::util::clip(&e, 200)));
                return;
            }
        };
        let nontrivial = sc.ops.iter().any(|o| o.is_dml());
        rep.case(vcore::util::hash_of(&sc.key()), nontrivial);
        rep.add_states(1 + out.rbt_checks);
        rep.add_transitions(out.statements + 1);
        rep.add_traces_validated(1);
        rep.count(&format!("scripts:len{}", sc.ops.len()), 1);
        rep.count(&format!("scripts:table:{}", sc.table.name()), 1);
        rep.count(&format!("scripts:start:{}", sc.start.name()), 1);
        rep.count(&format!("scripts:term:{}", sc.term.name()), 1);
        rep.count("rollback_to_checks", out.rbt_checks);
        rep.count("layer_comparisons", out.layer_checks);
        if out.split {
            rep.count("root_split_inside_transaction", 1);
        }
        if out.diverged {
            rep.count("scripts_stopped_at_rollback_to_divergence", 1);
            rep.pruned(1);
        }
        for (i, op) in sc.ops.iter().enumerate().take(out.classes.len()) {
            rep.count(&format!("op:{}", op.kind_name()), 1);
            match out.classes[i] {
                b'e' => rep.count(&format!("stmt_err:{}", op.kind_name()), 1),
                b'p' => rep.count(&format!("stmt_panic:{}", op.kind_name()), 1),
                _ => {}
            }
        }
        let remainder = !sc.ops.iter().any(|o| o.known_broken_undo()) && sc.table != Table::Split;
        if remainder {
            rep.count("remainder(no DELETE / DELETE all / UPDATE key, no root split):scripts", 1);
            rep.count(&format!("remainder:scripts:len{}", sc.ops.len()), 1);
            if out.failures.is_empty() {
                rep.count("remainder:scripts_all_layers_equal", 1);
            }
        }
        if out.failures.is_empty() {
            rep.count("scripts_all_layers_equal", 1);
            rep.count(&format!("scripts_all_layers_equal:{}", sc.term.kind()), 1);
            rep.outcome(&format!("{}:{}:restored", sc.term.kind(), sc.table.name()));
            rep.sample(|| sc.to_json());
            return;
        }
        rep.count("scripts_with_violation", 1);
        let mut seen = BTreeSet::new();
        for f in &out.failures {
            if !seen.insert((f.kind, f.layer)) {
                continue;
            }
            rep.count(&format!("violations:{}:{}", f.kind, f.layer), 1);
            rep.outcome(&format!("{}:{}:{}-differs", f.kind, sc.table.name(), f.layer));
            let min = self.runner.minimise(sc, f.kind, f.layer);
            let (mf, mclasses) = match self.runner.run_cached(&min) {
                Ok(v) => v,
                Err(_) => continue,
            };
            let Some(at) = mf.iter().find(|x| x.0 == f.kind && x.1 == f.layer).map(|x| x.2) else {
                rep.count("nondeterministic_rerun", 1);
                rep.note(&format!("re-run of {} did not fail again on {}/{}", min.to_json(), f.kind, f.layer));
                continue;
            };
            let sig = signature(&min, &mclasses, f.kind, f.layer, at);
            let n = self.recorded.entry(sig.clone()).or_insert(0);
            *n += 1;
            let (exp, obs) = if *n <= 2 || replaying {
                // expected / observed of the minimal script itself
                match self.runner.run(&min) {
                    Ok(o) => o.failures.iter().find(|x| x.kind == f.kind && x.layer == f.layer).map(|x| (x.expected.clone(), x.observed.clone())).unwrap_or((f.expected.clone(), f.observed.clone())),
                    Err(_) => (f.expected.clone(), f.observed.clone()),
                }
            } else {
                (String::new(), String::new())
            };
            let found_in = sc.ops.iter().map(|o| o.name()).collect::<Vec<_>>();
            rep.violation("C07", f.layer, &sig, || {
                let mut c = min.to_json();
                c["found_in"] = json!({"start": sc.start.name(), "ops": found_in});
                c
            }, &exp, &obs);
        }
    }

    fn explore(&mut self, rep: &mut Reporter) {
        let plan = plan(self.ctx);
        let only_table = self.ctx.opt("table").and_then(Table::parse);
        let maxlen = plan.depth.values().map(|v| v.2).max().unwrap_or(0);
        rep.bound("max_inner_operations", json!(maxlen));
        rep.bound("depths(table,start)->(full key alphabet / with key-symmetry reduction / clean alphabet without DELETE, DELETE all, UPDATE key)", json!(plan.depth.iter().map(|(k, v)| format!("{}/{}: {}/{}/{}", k.0.name(), k.1.name(), v.0, v.1, v.2)).collect::<Vec<_>>()));
        rep.bound("reopen_terminator_max_len", json!(plan.reopen_max_len));
        rep.bound("lax_alphabet_max_len", json!(plan.lax_len));
        let mut unit = 0u64;
        let mut totals: BTreeMap<String, u64> = BTreeMap::new();
        for len in 0..=maxlen {
            for (&(table, start), &(dfull, dsym, dclean)) in &plan.depth {
                if only_table.map(|t| t != table).unwrap_or(false) || len > dclean {
                    continue;
                }
                // passes: strict alphabet (full keys up to dfull, symmetric beyond), lax alphabet up to lax_len
                let mut scripts: Vec<Vec<Op>> = vec![];
                gen_scripts(table, start, len, true, len > dfull, len > dsym, &mut |ops| scripts.push(ops.to_vec()));
                let strict_n = scripts.len();
                if len <= plan.lax_len && len > 0 {
                    gen_scripts(table, start, len, false, false, false, &mut |ops| {
                        if !valid(table, start, ops, true) {
                            scripts.push(ops.to_vec());
                        }
                    });
                }
                *totals.entry(format!("len{len}:{}", if len > dsym { "clean-alphabet" } else { "strict" })).or_insert(0) += strict_n as u64;
                *totals.entry(format!("len{len}:lax-only")).or_insert(0) += (scripts.len() - strict_n) as u64;
                for (si, ops) in scripts.iter().enumerate() {
                    for term in TERMS {
                        if !term.applicable(ops) || (term == Term::Reopen && len > plan.reopen_max_len) {
                            continue;
                        }
                        let mine = self.ctx.mine(unit);
                        unit += 1;
                        if !mine || self.capped {
                            continue;
                        }
                        if self.ctx.expired() {
                            rep.capped(&format!("deadline reached at script length {len}; all lengths below were completed"));
                            self.capped = true;
                            continue;
                        }
                        let sc = Script { table, start, ops: ops.clone(), term };
                        if si >= strict_n {
                            rep.count("scripts:lax-alphabet(no-op or failing statements inside the transaction)", 1);
                        }
                        self.judge(rep, &sc, false);
                    }
                }
            }
        }
        rep.bound("scripts_per_length", json!(totals));
        rep.bound("script_terminator_pairs", json!(unit));
        rep.count("harness_runs_including_minimisation_and_twins", self.runner.runs);
    }
}

struct C07;
impl Check for C07 {
    fn specs(&self) -> Vec<Spec> {
        let mut s = Spec::new(
            "C07",
            "model_checking",
            "a case is one transaction script executed on its own fresh database: (table kind: unindexed | INT PK + secondary index | TEXT PK + secondary index | INT PK pre-loaded so that the next insert splits the root leaf) x (start state: empty | rows 1,2 | rows 1,2,3) x every well-formed sequence of <= D inner operations over {SAVEPOINT s1|s2, RELEASE s, ROLLBACK TO s, INSERT k (k in 1..3), UPDATE of the indexed column / a non-indexed column / the key column by key, DELETE by key, DELETE all} (state-aware alphabet: statements hit live rows; plus, up to a smaller length, every script with no-op / failing statements) x terminator (ROLLBACK | drop of a cloned handle holding the open transaction | drop of the only handle + reopen | after a final ROLLBACK TO: COMMIT, in-transaction uniqueness probe), shortest first. Oracle (self-differential): full observation (rows as bag, COUNT(*), PK point lookups and secondary-index lookups for all domain values +-1) after ROLLBACK / drop equals the one taken before BEGIN, after ROLLBACK TO s the one taken at SAVEPOINT s; re-inserting every key at the end behaves as on a twin database stopped at the snapshot point. Distinct = distinct (table, start, operations, terminator); non-trivial = the script contains at least one INSERT/UPDATE/DELETE.",
        );
        s.assumptions = &[
            "self-differential oracle: the observation at the snapshot point is taken from the same database (rows, COUNT(*), lookups) or from a twin database driven by the same statements up to the snapshot point (uniqueness probe); determinism of TurDB for one statement sequence is assumed (and is what replay relies on)",
            "savepoint names are unique while active and a name destroyed implicitly by RELEASE of an outer savepoint is not reused (TurDB keeps it, SQL destroys it: ambiguous, not judged)",
            "the harness-side row model is used only to enumerate (state-aware alphabet, look-up domain), never to judge",
            "beyond the stated full-alphabet length, interchangeable keys are used smallest-first (key symmetry reduction)",
            "a layer that differs after a ROLLBACK TO is not judged again later in the same script; a script whose rows differ after ROLLBACK TO is not continued",
        ];
        s.cap_quick_s = 90;
        s.cap_thorough_s = 1500;
        if let Some(c) = std::env::var("C07_CAP_S").ok().and_then(|v| v.parse().ok()) {
            s.cap_quick_s = c;
            s.cap_thorough_s = c;
        }
        vec![s]
    }

    fn run(&self, ctx: &Ctx, rep: &mut Reporter) {
        for c in ["scripts_all_layers_equal", "remainder:scripts_all_layers_equal", "rollback_to_checks", "root_split_inside_transaction", "explain_pk_lookup_uses_index", "explain_secondary_lookup_uses_index", "op:INSERT", "op:UPDATE-a", "op:UPDATE-b", "op:UPDATE-key", "op:DELETE", "op:DELETE-all", "op:SAVEPOINT", "op:RELEASE", "op:ROLLBACK-TO"] {
            rep.expect_nonzero(c);
        }
        // the look-ups of the observation really go through the indexes
        for table in [Table::IntPk, Table::TextPk] {
            if let Ok(t) = TestDb::create(&ctx.scratch, "plan") {
                for s in setup_sql(table, Start::Rows123, 0) {
                    let _ = t.exec(&s);
                }
                for (q, counter) in [(format!("SELECT * FROM t WHERE id = {}", table.key(2)), "explain_pk_lookup_uses_index"), ("SELECT * FROM t WHERE a = 20".to_string(), "explain_secondary_lookup_uses_index")] {
                    let p = explain(t.db(), &q).unwrap_or_default();
                    let cls = if p.contains("SecondaryIndexScan") { "SecondaryIndexScan" } else if p.contains("IndexScan") { "IndexScan" } else { "no-index" };
                    rep.outcome(&format!("plan:{}:{q}:{cls}", table.name()));
                    if cls != "no-index" {
                        rep.count(counter, 1);
                    }
                }
            }
        }
        let mut ex = Explorer { ctx, runner: Runner::new(&ctx.scratch, Plant::from_ctx(ctx)), recorded: BTreeMap::new(), capped: false };
        match ex.runner.calibrate() {
            Ok(n) => rep.bound("root_split_table_rows_filling_the_root_leaf", json!(n)),
            Err(e) => rep.note(&format!("root-split calibration failed: {e}")),
        }
        ex.explore(rep);
    }

    fn replay(&self, ctx: &Ctx, case: &Value, rep: &mut Reporter) {
        let Some(sc) = Script::from_json(case) else {
            rep.note("replay: case does not parse");
            return;
        };
        let mut ex = Explorer { ctx, runner: Runner::new(&ctx.scratch, Plant::from_ctx(ctx)), recorded: BTreeMap::new(), capped: false };
        ex.judge(rep, &sc, true);
    }
}

fn main() {
    if let Ok(mode) = std::env::var("C07_DEV") {
        dev(&mode);
        return;
    }
    vcore::main(&C07)
}

/// development aid (sizes of the enumeration) — not part of any verdict
fn dev(mode: &str) {
    match mode {
        "count" => {
            for table in TABLES {
                for start in STARTS {
                    let mut line = format!("{:16} {:8}", table.name(), start.name());
                    for len in 0..=7 {
                        if len > 5 {
                            let mut clean = 0u64;
                            gen_scripts(table, start, len, true, true, true, &mut |ops| {
                                clean += TERMS.iter().filter(|t| t.applicable(ops) && **t != Term::Reopen).count() as u64;
                            });
                            line.push_str(&format!(" | len{len}: clean {}", clean));
                            continue;
                        }
                        let mut n = [0u64; 2];
                        for (i, sym) in [false, true].into_iter().enumerate() {
                            let mut pairs = 0u64;
                            gen_scripts(table, start, len, true, sym, false, &mut |ops| {
                                pairs += TERMS.iter().filter(|t| t.applicable(ops) && **t != Term::Reopen).count() as u64;
                            });
                            n[i] = pairs;
                        }
                        let mut lax = 0u64;
                        if len <= 3 {
                            gen_scripts(table, start, len, false, false, false, &mut |ops| {
                                if !valid(table, start, ops, true) {
                                    lax += 2;
                                }
                            });
                        }
                        let mut clean = 0u64;
                        gen_scripts(table, start, len, true, true, true, &mut |ops| {
                            clean += TERMS.iter().filter(|t| t.applicable(ops) && **t != Term::Reopen).count() as u64;
                        });
                        line.push_str(&format!(" | len{len}: {}/{} lax {} clean {}", n[0], n[1], lax, clean));
                    }
                    println!("{line}");
                }
            }
        }
        _ => println!("modes: count"),
    }
}
