//! C10 — indexes never change query results (SQLH engine, differential, model_checking).
//!
//! Twin databases receive the SAME history.  Twin A carries an index on the
//! probed column (variant), twin B does not.  After every history a fixed probe
//! list is evaluated on both twins; oracle = identical bags on A and B, and on A
//! identical to the index-defeating formulation (`a + 0 = v`) of the same probe.
//! Statement results (Ok/Err class, affected count) must be identical as well.
//! No reference semantics: engine-wide semantic defects cancel.
//!
//! Uniqueness (variants `pk`, `uniq`): choice made = *keep keys unique in the
//! alphabet, state-dependently*: before a statement that introduces a value into
//! the unique column, twin B (the plain twin) is asked through a full-scan
//! formulation whether that value is present; if so the history is not part of
//! the alphabet of this variant (pruned as `illegal`, never executed further).
//! Every remaining Ok/Err difference between the twins is a violation.
//!
//! Enumeration: per pass (table `PASSES`), variant and preload, every well-formed
//! sequence of the pass alphabet up to the pass depth, shortest first, each from
//! fresh databases; a worker owns whole subtrees (first operation), so extensions
//! of a violating history are pruned locally (stop at divergence).  The `full`
//! passes use the whole alphabet; the other passes remove exactly the operations
//! (or the one probe) that trigger a listed finding, so that the defect-free
//! remainder is explored deeper.
//!
//! Signature: `C10/<variant>/<probe op>@<physical operator of twin A>/<preload>:<op pattern>/<kind>`
//! (statement results: `C10/<variant>/stmt:<op>/…/<error|affected-count>`).  The op
//! pattern is that of the greedily minimised history (drop operations, shrink the
//! preload, substitute simpler operations) with key numbers dropped.  Kinds:
//! missing-row / extra-row / mismatched-row (both) / error; suffix `(self)` when
//! only the index-defeating formulation on twin A disagrees.
//!
//! Development aids (no effect on verdicts): `--opt pass= variant= preload= depth=`,
//! `--opt dry=1` (enumeration sizes only), `--opt sizes=quick` (quick bounds under the
//! thorough cap), `--opt timing=1`, env `C10_SQL="stmt;;stmt;;@x query"` (scratch shell).
use checks::sqlh::*;
use refmodel::val::{Row, V};
use std::collections::{BTreeMap, BTreeSet, HashMap, HashSet};
use std::path::{Path, PathBuf};
use vcore::{json, Check, Ctx, Reporter, Spec, Value};

// ---------------------------------------------------------------------------
// alphabet
// ---------------------------------------------------------------------------
#[derive(Clone, Copy, PartialEq, Eq, Hash, Debug, PartialOrd, Ord)]
enum Op {
    Ins1,
    Ins2,
    Ins3,
    InsM,
    Upd1,
    Upd2,
    UpdAll,
    Del1,
    Del2,
    DelVal,
    Reins1,
    Begin,
    Commit,
    Rollback,
    Savept,
    RollTo,
}
use Op::*;
const ALL_OPS: [Op; 16] = [Ins1, Ins2, Ins3, InsM, Upd1, Upd2, UpdAll, Del1, Del2, DelVal, Reins1, Begin, Commit, Rollback, Savept, RollTo];

impl Op {
    fn name(self) -> &'static str {
        match self {
            Ins1 => "Ins1",
            Ins2 => "Ins2",
            Ins3 => "Ins3",
            InsM => "InsM",
            Upd1 => "Upd1",
            Upd2 => "Upd2",
            UpdAll => "UpdAll",
            Del1 => "Del1",
            Del2 => "Del2",
            DelVal => "DelVal",
            Reins1 => "Reins1",
            Begin => "Begin",
            Commit => "Commit",
            Rollback => "Rollback",
            Savept => "Savept",
            RollTo => "RollTo",
        }
    }
    /// name used in signatures: key numbers dropped, NULL-carrying ops kept apart
    fn kind(self) -> &'static str {
        match self {
            Ins1 | Ins2 => "Ins",
            Ins3 => "InsNull",
            InsM => "InsMulti",
            Upd1 => "UpdKey",
            Upd2 => "UpdKeyNull",
            UpdAll => "UpdAll",
            Del1 | Del2 => "DelKey",
            DelVal => "DelVal",
            Reins1 => "Reins",
            Begin => "Begin",
            Commit => "Commit",
            Rollback => "Rollback",
            Savept => "Savepoint",
            RollTo => "RollbackTo",
        }
    }
    fn parse(s: &str) -> Option<Op> {
        ALL_OPS.iter().copied().find(|o| o.name() == s)
    }
}

/// transaction well-formedness: 0 = autocommit, 1 = in transaction, 2 = in transaction with savepoint s.
/// Empty brackets (BEGIN;COMMIT, SAVEPOINT;ROLLBACK TO) are not enumerated: they add no write.
fn tx_step(state: u8, prev: Option<Op>, op: Op) -> Option<u8> {
    match op {
        Begin => (state == 0).then_some(1),
        Commit | Rollback => (state >= 1 && !matches!(prev, Some(Begin) | Some(Savept))).then_some(0),
        Savept => (state == 1).then_some(2),
        RollTo => (state == 2 && !matches!(prev, Some(Savept))).then_some(2),
        _ => Some(state),
    }
}
fn wellformed(h: &[Op], flavor: Flavor) -> bool {
    let mut st = 0u8;
    let mut prev = None;
    let mut updall = 0;
    for &op in h {
        match tx_step(st, prev, op) {
            Some(s) => st = s,
            None => return false,
        }
        if op == UpdAll {
            updall += 1;
        }
        prev = Some(op);
    }
    if matches!(flavor, Flavor::Pk | Flavor::Uniq) && updall > 1 {
        return false; // shifting twice could collide transiently with already shifted rows (legitimate uniqueness error)
    }
    // a history ending in BEGIN / SAVEPOINT reaches no new state
    !matches!(h.last(), Some(Begin) | Some(Savept))
}

// ---------------------------------------------------------------------------
// variants
// ---------------------------------------------------------------------------
#[derive(Clone, Copy, PartialEq, Eq, Debug, Hash)]
enum Flavor {
    /// indexed column is id (PRIMARY KEY on twin A only)
    Pk,
    /// indexed column is a, UNIQUE on twin A only; alphabet values of a are distinct
    Uniq,
    /// indexed column is a (non-unique index), colliding values
    A,
    /// indexed column is b (TEXT)
    Text,
}

struct Variant {
    name: &'static str,
    flavor: Flavor,
    table_a: &'static str,
    table_b: &'static str,
    /// index DDL on twin A before preload and history
    pre_a: &'static [&'static str],
    /// DDL on twin A after the history, just before probing
    late_a: &'static [&'static str],
    /// preloads contain rows with NULL in column a (not for `late`: CREATE INDEX skips NULL keys, so the
    /// ORDER BY probe would already fail on the empty history - KF-C10-02 - and hide the rest)
    preload_nulls: bool,
    /// probe operators not evaluated on this variant (except in pass `all-probes`), each justified by a listed finding
    skip_probes: &'static [&'static str],
}
const T_PK: &str = "CREATE TABLE t(id INT PRIMARY KEY, a INT, b TEXT)";
const T_PLAIN: &str = "CREATE TABLE t(id INT, a INT, b TEXT)";
const VARIANTS: &[Variant] = &[
    Variant { name: "pk", flavor: Flavor::Pk, table_a: T_PK, table_b: T_PLAIN, pre_a: &[], late_a: &[], preload_nulls: true, skip_probes: &["orderby-window"] },
    Variant { name: "uniq", flavor: Flavor::Uniq, table_a: "CREATE TABLE t(id INT, a INT UNIQUE, b TEXT)", table_b: T_PLAIN, pre_a: &[], late_a: &[], preload_nulls: true, skip_probes: &[] },
    Variant { name: "sec", flavor: Flavor::A, table_a: T_PK, table_b: T_PK, pre_a: &["CREATE INDEX ia ON t(a)"], late_a: &[], preload_nulls: true, skip_probes: &[] },
    Variant { name: "sec_nopk", flavor: Flavor::A, table_a: T_PLAIN, table_b: T_PLAIN, pre_a: &["CREATE INDEX ia ON t(a)"], late_a: &[], preload_nulls: true, skip_probes: &[] },
    Variant { name: "comp", flavor: Flavor::A, table_a: T_PK, table_b: T_PK, pre_a: &["CREATE INDEX iab ON t(a, b)"], late_a: &[], preload_nulls: true, skip_probes: &[] },
    Variant { name: "partial", flavor: Flavor::A, table_a: T_PK, table_b: T_PK, pre_a: &["CREATE INDEX ip ON t(a) WHERE a > 1"], late_a: &[], preload_nulls: true, skip_probes: &[] },
    Variant { name: "text", flavor: Flavor::Text, table_a: T_PK, table_b: T_PK, pre_a: &["CREATE INDEX ib ON t(b)"], late_a: &[], preload_nulls: true, skip_probes: &[] },
    Variant { name: "late", flavor: Flavor::A, table_a: T_PK, table_b: T_PK, pre_a: &[], late_a: &["CREATE INDEX ia ON t(a)"], preload_nulls: false, skip_probes: &[] },
    Variant { name: "droplate", flavor: Flavor::A, table_a: T_PK, table_b: T_PK, pre_a: &["CREATE INDEX ia ON t(a)"], late_a: &["DROP INDEX ia"], preload_nulls: true, skip_probes: &[] },
];
fn variant(name: &str) -> Option<&'static Variant> {
    VARIANTS.iter().find(|v| v.name == name)
}

const U_DDL: &str = "CREATE TABLE u(a INT, s TEXT, c INT)";
const U_ROWS: &str = "INSERT INTO u VALUES (0,'p',0),(1,'pa',10),(2,'pb',20),(3,'x',30),(NULL,NULL,99),(2,'pa',21),(12,'paa',12),(1001,'pc',5)";

// ---------------------------------------------------------------------------
// statements of one op (per flavor); `intro` = values the statement introduces
// into the unique column of the flavor (legality check on twin B)
// ---------------------------------------------------------------------------
struct Stmt {
    sql: String,
    intro: Vec<i64>,
}
fn st(sql: &str, intro: &[i64]) -> Stmt {
    Stmt { sql: sql.to_string(), intro: intro.to_vec() }
}
fn render(op: Op, f: Flavor) -> Vec<Stmt> {
    let u = f == Flavor::Uniq;
    let pk = f == Flavor::Pk;
    // which introduced value matters: id for Pk, a for Uniq, none otherwise
    let pick = |id: &[i64], a: &[i64]| -> Vec<i64> {
        if pk {
            id.to_vec()
        } else if u {
            a.to_vec()
        } else {
            vec![]
        }
    };
    match op {
        Ins1 => vec![Stmt { sql: "INSERT INTO t VALUES (1, 2, 'pa')".into(), intro: pick(&[1], &[2]) }],
        Ins2 => vec![Stmt { sql: "INSERT INTO t VALUES (2, 1, 'pb')".into(), intro: pick(&[2], &[1]) }],
        Ins3 => vec![Stmt { sql: "INSERT INTO t VALUES (3, NULL, 'x')".into(), intro: pick(&[3], &[]) }],
        InsM => {
            if u {
                vec![Stmt { sql: "INSERT INTO t VALUES (5, 4, 'q'), (4, 0, 'pa')".into(), intro: vec![4, 0] }]
            } else {
                vec![Stmt { sql: "INSERT INTO t VALUES (5, 1, 'q'), (4, 2, 'pa')".into(), intro: pick(&[5, 4], &[]) }]
            }
        }
        Upd1 => {
            if pk {
                vec![st("UPDATE t SET id = 7 WHERE id = 1", &[7])]
            } else if u {
                vec![st("UPDATE t SET a = 3, b = 'pb' WHERE id = 1", &[3])]
            } else {
                vec![st("UPDATE t SET a = 1, b = 'pb' WHERE id = 1", &[])]
            }
        }
        Upd2 => vec![st("UPDATE t SET a = NULL, b = 'x' WHERE id = 2", &[])],
        UpdAll => match f {
            Flavor::Pk => vec![st("UPDATE t SET id = id + 1000", &[])],
            // `WHERE a IS NOT NULL`: at this commit `NULL + 1` in UPDATE SET is an error ("unsupported types … for Plus"),
            // which would make the operation a no-op on both twins whenever a NULL row exists
            Flavor::Uniq => vec![st("UPDATE t SET a = a + 10 WHERE a IS NOT NULL", &[])],
            Flavor::A => vec![st("UPDATE t SET a = a + 1 WHERE a IS NOT NULL", &[])],
            Flavor::Text => vec![st("UPDATE t SET b = b || 'a'", &[])],
        },
        Del1 => vec![st("DELETE FROM t WHERE id = 1", &[])],
        Del2 => vec![st("DELETE FROM t WHERE id = 2", &[])],
        DelVal => match f {
            Flavor::Text => vec![st("DELETE FROM t WHERE b = 'pa'", &[])],
            _ => vec![st("DELETE FROM t WHERE a = 2", &[])],
        },
        Reins1 => {
            let ins = if u { Stmt { sql: "INSERT INTO t VALUES (1, 5, 'pc')".into(), intro: vec![5] } } else { Stmt { sql: "INSERT INTO t VALUES (1, 3, 'pc')".into(), intro: pick(&[1], &[]) } };
            vec![st("DELETE FROM t WHERE id = 1", &[]), ins]
        }
        Begin => vec![st("BEGIN", &[])],
        Commit => vec![st("COMMIT", &[])],
        Rollback => vec![st("ROLLBACK", &[])],
        Savept => vec![st("SAVEPOINT s", &[])],
        RollTo => vec![st("ROLLBACK TO s", &[])],
    }
}

// ---------------------------------------------------------------------------
// preloads
// ---------------------------------------------------------------------------
#[derive(Clone, Copy, PartialEq, Eq, Debug, Hash, PartialOrd, Ord)]
enum Preload {
    None,
    P12,
    P650,
}
impl Preload {
    fn name(self) -> &'static str {
        match self {
            Preload::None => "none",
            Preload::P12 => "p12",
            Preload::P650 => "p650",
        }
    }
    fn parse(s: &str) -> Option<Preload> {
        [Preload::None, Preload::P12, Preload::P650].into_iter().find(|p| p.name() == s)
    }
    fn smaller(self) -> Option<Preload> {
        match self {
            Preload::None => None,
            Preload::P12 => Some(Preload::None),
            Preload::P650 => Some(Preload::P12),
        }
    }
}
const BIG_N: usize = 650;
const BIG_BASE: i64 = 2000;
fn text_of(i: usize, long: bool) -> String {
    let base = ["pa", "pb", "x", "q", "pc"][i % 5];
    if long && i % 2 == 1 {
        format!("{base}{:0>28}", i % 13)
    } else {
        base.to_string()
    }
}
/// INSERT statements of a preload (ids in non-monotonic order; integers share their 4-byte key prefixes)
fn preload_sql(p: Preload, v: &Variant) -> Vec<String> {
    let f = v.flavor;
    let row = |id: i64, a: Option<i64>, b: &str| format!("({id}, {}, '{b}')", a.map(|x| x.to_string()).unwrap_or("NULL".into()));
    match p {
        Preload::None => vec![],
        Preload::P12 => {
            let ids = [17i64, 12, 20, 10, 15, 21, 11, 19, 13, 16, 14, 18];
            let avals = [Some(0i64), Some(1), Some(2), Some(3), Some(4), Some(1), Some(2), Some(3), Some(2), None, Some(2), Some(1)];
            let rows: Vec<String> = (0..12)
                .map(|i| {
                    let a = if f == Flavor::Uniq { Some(100 + 20 * i as i64) } else if avals[i].is_none() && !v.preload_nulls { Some(3) } else { avals[i] };
                    row(ids[i], a, &text_of(i, false))
                })
                .collect();
            vec![format!("INSERT INTO t VALUES {}", rows.join(", "))]
        }
        Preload::P650 => {
            let mut out = Vec::new();
            let mut batch = Vec::new();
            for i in 0..BIG_N {
                let p = (i * 277) % BIG_N; // 277 is coprime with 650: a permutation, far from monotonic
                let a = if f == Flavor::Uniq {
                    Some(100 + 20 * p as i64)
                } else if p % 50 == 49 && v.preload_nulls {
                    None
                } else {
                    Some((p % 7) as i64)
                };
                batch.push(row(BIG_BASE + p as i64, a, &text_of(p, true)));
                if batch.len() == 50 {
                    out.push(format!("INSERT INTO t VALUES {}", batch.join(", ")));
                    batch.clear();
                }
            }
            if !batch.is_empty() {
                out.push(format!("INSERT INTO t VALUES {}", batch.join(", ")));
            }
            out
        }
    }
}

// ---------------------------------------------------------------------------
// probes
// ---------------------------------------------------------------------------
#[derive(Clone)]
struct Probe {
    /// predicate operator name used in signatures (eq, lt, …, join)
    op: &'static str,
    sql: String,
    /// formulation that defeats index selection (same answer by construction)
    noidx: String,
}
fn probes(v: &Variant, p: Preload) -> Vec<Probe> {
    let mut out = Vec::new();
    let sel = "SELECT * FROM t WHERE";
    let mut int_probes = |col: &str, dom: &[i64], out: &mut Vec<Probe>| {
        for &x in dom {
            let y = x + 1;
            let mk = |op: &'static str, pred: String, npred: String| Probe { op, sql: format!("{sel} {pred}"), noidx: format!("{sel} {npred}") };
            out.push(mk("eq", format!("{col} = {x}"), format!("{col} + 0 = {x}")));
            out.push(mk("lt", format!("{col} < {x}"), format!("{col} + 0 < {x}")));
            out.push(mk("le", format!("{col} <= {x}"), format!("{col} + 0 <= {x}")));
            out.push(mk("gt", format!("{col} > {x}"), format!("{col} + 0 > {x}")));
            out.push(mk("ge", format!("{col} >= {x}"), format!("{col} + 0 >= {x}")));
            out.push(mk("between", format!("{col} BETWEEN {x} AND {y}"), format!("{col} + 0 BETWEEN {x} AND {y}")));
            out.push(mk("in", format!("{col} IN ({x}, {y})"), format!("{col} + 0 IN ({x}, {y})")));
            out.push(mk("eq-and-other-col", format!("{col} = {x} AND b = 'pa'"), format!("{col} + 0 = {x} AND b = 'pa'")));
            out.push(mk("eq-and-gt-same-col", format!("{col} = {x} AND {col} > {x}"), format!("{col} + 0 = {x} AND {col} + 0 > {x}")));
        }
        out.push(Probe { op: "isnull", sql: format!("{sel} {col} IS NULL"), noidx: format!("{sel} {col} + 0 IS NULL") });
        out.push(Probe { op: "orderby", sql: format!("SELECT * FROM t ORDER BY {col}"), noidx: "SELECT * FROM t".into() });
        out.push(Probe {
            op: "join",
            sql: format!("SELECT t.id, t.a, t.b, u.c FROM u JOIN t ON t.{col} = u.a"),
            noidx: format!("SELECT t.id, t.a, t.b, u.c FROM u JOIN t ON t.{col} + 0 = u.a"),
        });
        out.push(Probe {
            op: "leftjoin",
            sql: format!("SELECT u.c, t.id, t.a FROM u LEFT JOIN t ON t.{col} = u.a"),
            noidx: format!("SELECT u.c, t.id, t.a FROM u LEFT JOIN t ON t.{col} + 0 = u.a"),
        });
    };
    match v.flavor {
        Flavor::Pk => {
            let mut dom = vec![0i64, 1, 2, 3, 5, 7, 8, 1001];
            match p {
                Preload::None => {}
                Preload::P12 => dom.extend([10, 15, 1015]),
                Preload::P650 => dom.extend([BIG_BASE, BIG_BASE + 300, BIG_BASE + 649, BIG_BASE + 650]),
            }
            int_probes("id", &dom, &mut out);
        }
        Flavor::Uniq => {
            let mut dom = vec![0i64, 1, 2, 3, 4, 5, 11, 12];
            if p != Preload::None {
                dom.extend([100, 110, 120]);
            }
            int_probes("a", &dom, &mut out);
        }
        Flavor::A => {
            let mut dom = vec![0i64, 1, 2, 3, 4];
            if p == Preload::P650 {
                dom.extend([6, 7]);
            }
            int_probes("a", &dom, &mut out);
        }
        Flavor::Text => {
            let mut dom: Vec<String> = ["p", "pa", "paa", "pb", "pc", "q", "x", "zz"].iter().map(|s| s.to_string()).collect();
            if p == Preload::P650 {
                dom.push(text_of(1, true));
                dom.push(format!("{}a", text_of(3, true)));
            }
            for s in &dom {
                let mk = |op: &'static str, pred: String, npred: String| Probe { op, sql: format!("{sel} {pred}"), noidx: format!("{sel} {npred}") };
                out.push(mk("eq", format!("b = '{s}'"), format!("b || '' = '{s}'")));
                out.push(mk("lt", format!("b < '{s}'"), format!("b || '' < '{s}'")));
                out.push(mk("ge", format!("b >= '{s}'"), format!("b || '' >= '{s}'")));
                out.push(mk("eq-and-other-col", format!("b = '{s}' AND a = 2"), format!("b || '' = '{s}' AND a = 2")));
            }
            for pat in ["p%", "pa%", "x%"] {
                out.push(Probe { op: "like-prefix", sql: format!("{sel} b LIKE '{pat}'"), noidx: format!("{sel} b || '' LIKE '{pat}'") });
            }
            out.push(Probe { op: "isnull", sql: format!("{sel} b IS NULL"), noidx: format!("{sel} b || '' IS NULL") });
            out.push(Probe { op: "orderby", sql: "SELECT * FROM t ORDER BY b".into(), noidx: "SELECT * FROM t".into() });
            out.push(Probe {
                op: "join",
                sql: "SELECT t.id, t.a, t.b, u.c FROM u JOIN t ON t.b = u.s".into(),
                noidx: "SELECT t.id, t.a, t.b, u.c FROM u JOIN t ON t.b || '' = u.s".into(),
            });
            out.push(Probe {
                op: "leftjoin",
                sql: "SELECT u.c, t.id, t.a FROM u LEFT JOIN t ON t.b = u.s".into(),
                noidx: "SELECT u.c, t.id, t.a FROM u LEFT JOIN t ON t.b || '' = u.s".into(),
            });
        }
    }
    out.push(Probe { op: "scan", sql: "SELECT * FROM t".into(), noidx: "SELECT * FROM t".into() });
    out
}

fn plan_class(plan: &Option<String>) -> &'static str {
    match plan {
        None => "ExplainError",
        Some(p) => {
            if p.contains("IndexNestedLoopJoin") {
                "IndexNestedLoopJoin"
            } else if p.contains("SecondaryIndexScan") {
                "SecondaryIndexScan"
            } else if p.contains("IndexScan") {
                "IndexScan"
            } else if p.contains("TableScan") {
                "TableScan"
            } else {
                "Other"
            }
        }
    }
}
fn is_index_plan(c: &str) -> bool {
    matches!(c, "IndexNestedLoopJoin" | "SecondaryIndexScan" | "IndexScan")
}

// ---------------------------------------------------------------------------
// running one history on a twin pair
// ---------------------------------------------------------------------------
#[derive(Clone, Debug, PartialEq, Eq, Hash, PartialOrd, Ord)]
struct Class {
    /// "<probe op>@<physical operator>" or "stmt:<op kind>"
    site: String,
    /// missing-row | extra-row | mismatched-row | error | affected-count (suffix "(self)" = A differs from its own no-index formulation only)
    kind: String,
}
#[derive(Clone, Debug)]
struct Viol {
    class: Class,
    sql: String,
    expected: String,
    observed: String,
}
#[derive(Default)]
struct Outcome {
    viols: Vec<Viol>,
    /// history leaves the alphabet of a unique variant (duplicate-producing op)
    illegal: bool,
    setup_error: Option<String>,
    stmts: u64,
    plan_counts: BTreeMap<&'static str, u64>,
    index_probes: u64,
    probes: u64,
    stmt_classes: BTreeSet<String>,
    noidx_used_index: u64,
    nonempty_index_answers: u64,
    index_window_probes: u64,
    /// diagnostics only (never part of a verdict): microseconds in setup / history / probes
    t_us: [u64; 3],
}

struct Group {
    v: &'static Variant,
    preload: Preload,
    probes: Vec<Probe>,
    /// plan class of every probe (and of its no-index formulation) on twin A, computed on the first history and re-validated periodically
    plans: Option<Vec<(&'static str, &'static str)>>,
    /// same for the three ORDER BY … LIMIT [OFFSET] forms
    window_plans: Option<Vec<(&'static str, &'static str)>>,
    runs: u64,
    plan_cache_mismatch: u64,
}
impl Group {
    fn new(v: &'static Variant, preload: Preload) -> Group {
        Group { v, preload, probes: probes(v, preload), plans: None, window_plans: None, runs: 0, plan_cache_mismatch: 0 }
    }
}

/// one open twin database in its own directory (closed, then removed, on drop)
struct Twin {
    db: Option<turdb::Database>,
    dir: PathBuf,
}
impl Twin {
    fn db(&self) -> &turdb::Database {
        self.db.as_ref().expect("open")
    }
    fn exec(&self, sql: &str) -> Res {
        exec(self.db(), sql)
    }
}
impl Drop for Twin {
    fn drop(&mut self) {
        let db = self.db.take();
        let _ = vcore::catch(move || drop(db));
        let _ = std::fs::remove_dir_all(&self.dir);
    }
}

struct Env {
    scratch: PathBuf,
    seq: u64,
}
impl Env {
    fn new(scratch: &Path) -> Env {
        Env { scratch: scratch.to_path_buf(), seq: 0 }
    }
    fn setup_stmts(v: &Variant, twin: char, p: Preload) -> Vec<String> {
        let mut s = vec![if twin == 'A' { v.table_a.to_string() } else { v.table_b.to_string() }, U_DDL.to_string(), U_ROWS.to_string()];
        if twin == 'A' {
            s.extend(v.pre_a.iter().map(|x| x.to_string()));
        }
        s.extend(preload_sql(p, v));
        s
    }
    /// Build the twin by executing the setup statements in this session.  (Copying a closed template
    /// directory and reopening it would be cheaper, but reopen resets TurDB's row-id counter at this
    /// commit - the next INSERTs fail with "key already exists" - which is not C10's subject.)
    fn fresh(&mut self, v: &Variant, twin: char, p: Preload) -> Result<Twin, String> {
        self.seq += 1;
        let name = format!("db{}_{}", twin, self.seq % 4);
        let mut t = TestDb::create(&self.scratch, &name)?;
        for s in Env::setup_stmts(v, twin, p) {
            let r = t.exec(&s);
            if !r.ok() {
                return Err(format!("setup `{}`: {}", vcore::util::clip(&s, 80), r.show()));
            }
        }
        t.keep();
        Ok(Twin { db: t.db.take(), dir: t.dir.clone() })
    }
}

fn bag_diff(a: &[Row], b: &[Row]) -> (Vec<Row>, Vec<Row>) {
    // a, b sorted bags: (rows of b missing in a, rows of a not in b)
    let (mut i, mut j) = (0, 0);
    let (mut missing, mut extra) = (vec![], vec![]);
    while i < a.len() && j < b.len() {
        match a[i].cmp(&b[j]) {
            std::cmp::Ordering::Equal => {
                i += 1;
                j += 1;
            }
            std::cmp::Ordering::Less => {
                extra.push(a[i].clone());
                i += 1;
            }
            std::cmp::Ordering::Greater => {
                missing.push(b[j].clone());
                j += 1;
            }
        }
    }
    extra.extend_from_slice(&a[i..]);
    missing.extend_from_slice(&b[j..]);
    (missing, extra)
}
/// compare the indexed answer `a` with the reference answer `b`
fn compare(a: &Res, b: &Res) -> Option<(&'static str, String, String)> {
    match (a, b) {
        (Res::Rows(x), Res::Rows(y)) => {
            let (x, y) = (refmodel::val::bag(x), refmodel::val::bag(y));
            if x == y {
                return None;
            }
            let (missing, extra) = bag_diff(&x, &y);
            let kind = match (missing.is_empty(), extra.is_empty()) {
                (false, true) => "missing-row",
                (true, false) => "extra-row",
                _ => "mismatched-row",
            };
            Some((kind, format!("Rows{}", refmodel::val::show_rows(&y)), format!("Rows{} (missing {}, extra {})", refmodel::val::show_rows(&x), refmodel::val::show_rows(&missing), refmodel::val::show_rows(&extra))))
        }
        (x, y) if x.ok() && y.ok() => None,
        (x, y) if !x.ok() && !y.ok() => None, // both fail: index-independent
        (x, y) => Some(("error", y.show(), x.show())),
    }
}

/// one probe: twin A against twin B, and - when twin A answered through an index operator - twin A against
/// its own index-defeating formulation
#[allow(clippy::too_many_arguments)]
fn eval_probe(a: &Twin, b: &Twin, op: &'static str, sql: &str, noidx: &str, pc: &'static str, npc: &'static str, out: &mut Outcome, seen: &mut HashSet<Class>) {
    out.probes += 1;
    *out.plan_counts.entry(pc).or_insert(0) += 1;
    let ra = a.exec(sql);
    let rb = b.exec(sql);
    let site = format!("{}@{}", op, pc);
    if let Some((kind, exp, obs)) = compare(&ra, &rb) {
        let class = Class { site: site.clone(), kind: kind.into() };
        if seen.insert(class.clone()) {
            out.viols.push(Viol { class, sql: sql.to_string(), expected: format!("twin B (no index): {exp}"), observed: format!("twin A (indexed): {obs}") });
        }
    }
    if is_index_plan(pc) {
        out.index_probes += 1;
        if op.starts_with("orderby-") {
            out.index_window_probes += 1;
        }
        if let Res::Rows(r) = &ra {
            if !r.is_empty() {
                out.nonempty_index_answers += 1;
            }
        }
        if is_index_plan(npc) {
            out.noidx_used_index += 1;
        } else {
            let rn = a.exec(noidx);
            if let Some((kind, exp, obs)) = compare(&ra, &rn) {
                // only reported when the twin oracle is silent for this probe site (same defect otherwise)
                let twin_fired = seen.iter().any(|c| c.site == site);
                let class = Class { site: site.clone(), kind: format!("{kind}(self)") };
                if !twin_fired && seen.insert(class.clone()) {
                    out.viols.push(Viol { class, sql: sql.to_string(), expected: format!("twin A `{noidx}`: {exp}"), observed: format!("twin A (indexed): {obs}") });
                }
            }
        }
    }
}

static TIMES: [std::sync::atomic::AtomicU64; 5] = [std::sync::atomic::AtomicU64::new(0), std::sync::atomic::AtomicU64::new(0), std::sync::atomic::AtomicU64::new(0), std::sync::atomic::AtomicU64::new(0), std::sync::atomic::AtomicU64::new(0)];
fn run_history(env: &mut Env, g: &mut Group, h: &[Op], skip: &[&str]) -> Outcome {
    use std::sync::atomic::Ordering::Relaxed;
    let t0 = std::time::Instant::now();
    let o = run_history_inner(env, g, h, skip);
    TIMES[0].fetch_add(t0.elapsed().as_micros() as u64, Relaxed);
    TIMES[1].fetch_add(o.t_us[0], Relaxed);
    TIMES[2].fetch_add(o.t_us[1], Relaxed);
    TIMES[3].fetch_add(o.t_us[2], Relaxed);
    TIMES[4].fetch_add(1, Relaxed);
    o
}
fn run_history_inner(env: &mut Env, g: &mut Group, h: &[Op], skip: &[&str]) -> Outcome {
    let mut out = Outcome::default();
    let t_start = std::time::Instant::now();
    let v = g.v;
    let a = match env.fresh(v, 'A', g.preload) {
        Ok(t) => t,
        Err(e) => {
            out.setup_error = Some(format!("twin A: {e}"));
            return out;
        }
    };
    let b = match env.fresh(v, 'B', g.preload) {
        Ok(t) => t,
        Err(e) => {
            out.setup_error = Some(format!("twin B: {e}"));
            return out;
        }
    };
    let ucol = match v.flavor {
        Flavor::Pk => "id",
        _ => "a",
    };
    out.t_us[0] = t_start.elapsed().as_micros() as u64;
    let t_hist = std::time::Instant::now();
    // ---- history -------------------------------------------------------
    for &op in h {
        for s in render(op, v.flavor) {
            for val in &s.intro {
                // legality on the plain twin, full-scan formulation
                match b.exec(&format!("SELECT id FROM t WHERE {ucol} + 0 = {val}")) {
                    Res::Rows(r) if r.is_empty() => {}
                    Res::Rows(_) => {
                        out.illegal = true;
                        return out;
                    }
                    o => {
                        out.setup_error = Some(format!("legality query failed: {}", o.show()));
                        return out;
                    }
                }
            }
            let ra = a.exec(&s.sql);
            let rb = b.exec(&s.sql);
            out.stmts += 2;
            out.stmt_classes.insert(format!("{}:{}", op.kind(), ra.class()));
            let diff = match (&ra, &rb) {
                (Res::Affected(x, _), Res::Affected(y, _)) if x != y => Some("affected-count"),
                (x, y) if x.ok() != y.ok() => Some("error"),
                (x, y) if x.class() != y.class() => Some("error"),
                _ => None,
            };
            if let Some(kind) = diff {
                out.viols.push(Viol { class: Class { site: format!("stmt:{}", op.kind()), kind: kind.into() }, sql: s.sql.clone(), expected: rb.show(), observed: ra.show() });
                return out; // stop at divergence: later statements would run on different states
            }
        }
    }
    out.t_us[1] = t_hist.elapsed().as_micros() as u64;
    let t_probe = std::time::Instant::now();
    // ---- late DDL on twin A ---------------------------------------------
    for s in v.late_a {
        let r = a.exec(s);
        out.stmts += 1;
        if !r.ok() {
            out.viols.push(Viol { class: Class { site: "stmt:LateDDL".into(), kind: "error".into() }, sql: s.to_string(), expected: "Ok".into(), observed: r.show() });
            return out;
        }
    }
    // ---- plans -----------------------------------------------------------
    g.runs += 1;
    let revalidate = g.plans.is_some() && g.runs % 64 == 0;
    if g.plans.is_none() || revalidate {
        let fresh: Vec<(&'static str, &'static str)> = g.probes.iter().map(|p| (plan_class(&explain(a.db(), &p.sql)), plan_class(&explain(a.db(), &p.noidx)))).collect();
        if let Some(old) = &g.plans {
            if *old != fresh {
                g.plan_cache_mismatch += 1;
            }
        }
        g.plans = Some(fresh);
    }
    let plans = g.plans.clone().unwrap_or_default();
    // ---- probes ----------------------------------------------------------
    let skipped = |op: &str| skip.contains(&op) || (op.starts_with("orderby") && skip.contains(&"orderby")) || (op.starts_with("orderby-") && skip.contains(&"orderby-window"));
    let mut seen: HashSet<Class> = HashSet::new();
    for (i, p) in g.probes.iter().enumerate() {
        if skipped(p.op) {
            continue;
        }
        let (pc, npc) = plans[i];
        eval_probe(&a, &b, p.op, &p.sql, &p.noidx, pc, npc, &mut out, &mut seen);
    }
    // ---- window probes: ORDER BY <indexed col> [DESC] LIMIT n [OFFSET m], n in {1, 2, rows}, m in {0, 1, n, n+1}.
    // Only the sort key is selected: ties make the exact rows of a window ambiguous, but the multiset of
    // its key values (and so its row count) is determined.  `rows` is read from twin B by a full scan.
    if !skipped("orderby-limit") {
        let (col, nocol) = match v.flavor {
            Flavor::Pk => ("id", "id + 0"),
            Flavor::Text => ("b", "b || ''"),
            _ => ("a", "a + 0"),
        };
        let rows = match b.exec("SELECT id FROM t") {
            Res::Rows(r) => r.len(),
            _ => 0,
        };
        let forms: [(&'static str, &str, bool); 3] = [("orderby-limit", "", false), ("orderby-limit-offset", "", true), ("orderby-desc-limit-offset", " DESC", true)];
        let mk = |dir: &str, n: usize, m: Option<usize>| -> (String, String) {
            let tail = match m {
                Some(m) => format!("LIMIT {n} OFFSET {m}"),
                None => format!("LIMIT {n}"),
            };
            // the index-defeating formulation projects the sort expression itself: at this commit ORDER BY <expression
            // that is not in the select list> is not sorted at all (engine-wide, unrelated to indexes)
            (format!("SELECT {col} FROM t ORDER BY {col}{dir} {tail}"), format!("SELECT {nocol} FROM t ORDER BY {nocol}{dir} {tail}"))
        };
        if g.window_plans.is_none() || revalidate {
            let fresh: Vec<(&'static str, &'static str)> = forms
                .iter()
                .map(|(_, dir, off)| {
                    let (q, nq) = mk(dir, 2, off.then_some(1));
                    (plan_class(&explain(a.db(), &q)), plan_class(&explain(a.db(), &nq)))
                })
                .collect();
            if let Some(old) = &g.window_plans {
                if *old != fresh {
                    g.plan_cache_mismatch += 1;
                }
            }
            g.window_plans = Some(fresh);
        }
        let wplans = g.window_plans.clone().unwrap_or_default();
        let mut ns = vec![1usize, 2];
        if rows > 2 {
            ns.push(rows);
        }
        for &n in &ns {
            for (fi, (op, dir, off)) in forms.iter().enumerate() {
                let (pc, npc) = wplans[fi];
                if !off {
                    let (q, nq) = mk(dir, n, None);
                    eval_probe(&a, &b, op, &q, &nq, pc, npc, &mut out, &mut seen);
                    continue;
                }
                let mut ms = vec![0usize, 1, n, n + 1];
                ms.dedup();
                for m in ms {
                    let (q, nq) = mk(dir, n, Some(m));
                    eval_probe(&a, &b, op, &q, &nq, pc, npc, &mut out, &mut seen);
                }
            }
        }
    }
    out.t_us[2] = t_probe.elapsed().as_micros() as u64;
    out
}

// ---------------------------------------------------------------------------
// passes
// ---------------------------------------------------------------------------
struct Pass {
    name: &'static str,
    ops: &'static [Op],
    /// (quick, thorough) maximal history length for preload none / p12 / p650
    depth: [(usize, usize); 3],
    /// probe operators not evaluated in this pass (each exclusion is justified by a listed finding)
    skip_probes: &'static [&'static str],
    /// variants not run in this pass
    skip_variants: &'static [&'static str],
    why: &'static str,
}
/// depth marker: the pass does not run on that preload in that tier (depth 0 = only the empty history)
const SKIP: usize = 99;
const TX: [Op; 5] = [Begin, Commit, Rollback, Savept, RollTo];
const PASSES: &[Pass] = &[
    Pass {
        name: "all-probes",
        ops: &[Ins1, Ins2, Ins3, InsM],
        depth: [(2, 3), (1, 2), (0, 1)],
        skip_probes: &[],
        skip_variants: &[],
        why: "every probe on every variant, including those removed elsewhere because they fire on (nearly) every table: ORDER BY <primary key> LIMIT (KF-C10-10); inserts only",
    },
    Pass { name: "full", ops: &ALL_OPS, depth: [(2, 3), (2, 3), (1, 2)], skip_probes: &[], skip_variants: &[], why: "full alphabet, all probes (variant pk without the LIMIT/OFFSET window probes: KF-C10-10)" },
    Pass {
        name: "full-deep",
        ops: &ALL_OPS,
        depth: [(SKIP, 4), (SKIP, SKIP), (SKIP, SKIP)],
        skip_probes: &[],
        skip_variants: &["pk", "uniq", "sec_nopk", "comp", "partial", "text", "late", "droplate"],
        why: "full alphabet one level deeper (thorough tier only) on the plain secondary-index variant",
    },
    Pass {
        name: "ins-tx",
        ops: &[Ins1, Ins2, InsM, TX[0], TX[1], TX[2], TX[3], TX[4]],
        depth: [(4, 5), (3, 4), (2, 3)],
        skip_probes: &["orderby-window"],
        skip_variants: &[],
        why: "LIMIT/OFFSET window probes removed (KF-C10-11: a rolled-back INSERT leaves its secondary-index entry); no UPDATE / DELETE (KF-C10-03..08 break index maintenance for them) and no NULL (KF-C10-02): inserts in any key order under every transaction bracket",
    },
    Pass {
        name: "ins-commit",
        ops: &[Ins1, Ins2, InsM, Begin, Commit, Savept],
        depth: [(3, 5), (3, 3), (1, 2)],
        skip_probes: &[],
        skip_variants: &[],
        why: "inserts in any key order, autocommit or inside committed transactions (no ROLLBACK / ROLLBACK TO: KF-C10-11), all probes including the LIMIT/OFFSET windows over the index-ordered scan",
    },
    Pass {
        name: "ins-tx-deep",
        ops: &[Ins1, Ins2, InsM, TX[0], TX[1], TX[2], TX[3], TX[4]],
        depth: [(SKIP, 6), (SKIP, SKIP), (SKIP, SKIP)],
        skip_probes: &["orderby-window"],
        skip_variants: &["pk", "uniq", "sec_nopk", "comp", "partial", "text", "late", "droplate"],
        why: "ins-tx one level deeper (thorough tier only) on the plain secondary-index variant",
    },
    Pass {
        name: "ins-null",
        ops: &[Ins1, Ins3, InsM, Begin, Commit, Rollback],
        depth: [(3, 4), (3, 4), (1, 2)],
        skip_probes: &["orderby"],
        skip_variants: &[],
        why: "as ins-tx with NULL in the indexed column; ORDER BY probe removed (KF-C10-02: index-ordered scan omits NULL rows)",
    },
    Pass {
        name: "unique-del",
        ops: &[Ins1, Ins2, InsM, Upd2, Del1, Del2, DelVal, Reins1, Begin, Commit, Rollback],
        depth: [(3, 4), (2, 3), (1, 2)],
        skip_probes: &["orderby"],
        skip_variants: &["sec", "sec_nopk", "comp", "partial", "text", "late", "droplate"],
        why: "PRIMARY KEY / UNIQUE variants without updates of the unique column (KF-C10-06): deletes, reinserts, non-key updates",
    },
    Pass {
        name: "late-upd",
        ops: &[Ins1, Ins2, InsM, Upd1, UpdAll, Begin, Commit, Rollback],
        depth: [(3, 4), (3, 4), (1, 2)],
        skip_probes: &[],
        skip_variants: &["pk", "uniq", "sec", "sec_nopk", "comp", "partial", "text"],
        why: "index created / dropped after the history: updates of the later-indexed column without deletes (KF-C10-04: CREATE INDEX indexes tombstoned rows) and without NULL (KF-C10-02)",
    },
];
/// probe operators not evaluated for (pass, variant)
fn skips(pass: &Pass, v: &Variant) -> Vec<&'static str> {
    let mut s: Vec<&'static str> = pass.skip_probes.to_vec();
    if pass.name != "all-probes" {
        s.extend_from_slice(v.skip_probes);
    }
    s
}
fn pass_by_name(n: &str) -> &'static Pass {
    PASSES.iter().find(|p| p.name == n).unwrap_or(&PASSES[0])
}

/// canonical op pattern of a (minimised) history: op kinds with key numbers dropped, plain single/multi-row
/// inserts both written `Ins`, consecutive repetitions collapsed
fn pattern(preload: Preload, h: &[Op]) -> String {
    let mut ks: Vec<&str> = Vec::new();
    for o in h {
        let k = match o.kind() {
            "InsMulti" => "Ins",
            k => k,
        };
        if ks.last() != Some(&k) {
            ks.push(k);
        }
    }
    format!("{}:{}", preload.name(), ks.join(","))
}
fn signature(v: &Variant, preload: Preload, h: &[Op], c: &Class) -> String {
    format!("C10/{}/{}/{}/{}", v.name, c.site, pattern(preload, h), c.kind)
}
fn hist_json(h: &[Op]) -> Vec<&'static str> {
    h.iter().map(|o| o.name()).collect()
}

struct Explorer<'a> {
    ctx: &'a Ctx,
    env: Env,
    /// memo of (variant, preload, history) -> classes, for minimisation (lookups only)
    memo: HashMap<(&'static str, &'static str, Preload, Vec<Op>), Vec<Class>>,
    groups: HashMap<(&'static str, Preload), Group>,
}

impl<'a> Explorer<'a> {
    fn group(&mut self, v: &'static Variant, p: Preload) -> &mut Group {
        self.groups.entry((v.name, p)).or_insert_with(|| Group::new(v, p))
    }
    fn classes_of(&mut self, pass: &'static Pass, v: &'static Variant, p: Preload, h: &[Op]) -> Vec<Class> {
        let key = (pass.name, v.name, p, h.to_vec());
        if let Some(c) = self.memo.get(&key) {
            return c.clone();
        }
        self.groups.entry((v.name, p)).or_insert_with(|| Group::new(v, p));
        let g = self.groups.get_mut(&(v.name, p)).unwrap();
        let o = run_history(&mut self.env, g, h, &skips(pass, v));
        let c: Vec<Class> = if o.illegal || o.setup_error.is_some() { vec![] } else { o.viols.iter().map(|x| x.class.clone()).collect() };
        if self.memo.len() < 200_000 {
            self.memo.insert(key, c.clone());
        }
        c
    }
    /// greedy 1-minimal sub-history (and smallest preload) that still shows the class; then simpler
    /// operations are substituted (Reins -> DelKey / Ins, multi-row or NULL insert -> plain insert) and a
    /// preload is replaced by one leading insert when that suffices
    fn minimize(&mut self, pass: &'static Pass, v: &'static Variant, p: Preload, h: &[Op], c: &Class) -> (Preload, Vec<Op>) {
        let mut p = p;
        let mut h = h.to_vec();
        loop {
            let mut changed = false;
            while let Some(q) = p.smaller() {
                if self.classes_of(pass, v, q, &h).contains(c) {
                    p = q;
                    changed = true;
                } else {
                    break;
                }
            }
            if p != Preload::None {
                for lead in [Ins1, Ins2, InsM, Ins3] {
                    let mut cand = vec![lead];
                    cand.extend_from_slice(&h);
                    if wellformed(&cand, v.flavor) && self.classes_of(pass, v, Preload::None, &cand).contains(c) {
                        p = Preload::None;
                        h = cand;
                        changed = true;
                        break;
                    }
                }
            }
            let mut i = 0;
            while i < h.len() {
                let mut cand = h.clone();
                cand.remove(i);
                if wellformed(&cand, v.flavor) && self.classes_of(pass, v, p, &cand).contains(c) {
                    h = cand;
                    changed = true;
                } else {
                    i += 1;
                }
            }
            // remove two ops at once (e.g. BEGIN … COMMIT brackets)
            'outer: for i in 0..h.len() {
                for j in i + 1..h.len() {
                    let mut cand = h.clone();
                    cand.remove(j);
                    cand.remove(i);
                    if wellformed(&cand, v.flavor) && self.classes_of(pass, v, p, &cand).contains(c) {
                        h = cand;
                        changed = true;
                        break 'outer;
                    }
                }
            }
            // substitute simpler operations
            for i in 0..h.len() {
                let subs: &[Op] = match h[i] {
                    Reins1 => &[Del1, Ins1],
                    InsM => &[Ins1, Ins2],
                    Ins3 => &[Ins1, Ins2],
                    Ins2 => &[Ins1],
                    Del2 => &[Del1],
                    _ => &[],
                };
                for &r in subs {
                    let mut cand = h.clone();
                    cand[i] = r;
                    if wellformed(&cand, v.flavor) && self.classes_of(pass, v, p, &cand).contains(c) {
                        h = cand;
                        changed = true;
                        break;
                    }
                }
            }
            if !changed {
                break;
            }
        }
        (p, h)
    }
}

fn report_outcome(rep: &mut Reporter, o: &Outcome) {
    rep.add_states(1);
    rep.add_transitions(o.stmts);
    rep.add_traces_validated(1);
    for (k, n) in &o.plan_counts {
        rep.count(&format!("plan:{k}"), *n);
    }
    rep.count("probes", o.probes);
    rep.count("probes_answered_by_index_operator", o.index_probes);
    rep.count("index_answers_nonempty", o.nonempty_index_answers);
    rep.count("limit_offset_probes_answered_by_index_ordered_scan", o.index_window_probes);
    rep.count("noindex_formulation_still_used_index", o.noidx_used_index);
    for c in &o.stmt_classes {
        rep.outcome(c);
    }
}

struct C10;

impl C10 {
    fn one(&self, ex: &mut Explorer, rep: &mut Reporter, pass: &'static Pass, v: &'static Variant, p: Preload, h: &[Op], report: bool, violating: &mut HashSet<Vec<Op>>, illegal: &mut HashSet<Vec<Op>>) {
        if ex.ctx.opt("dry").is_some() {
            // enumeration size only (development aid): nothing is executed
            if report {
                rep.case(vcore::util::hash_of(&(pass.name, v.name, p, h)), false);
                rep.count(&format!("dry:{}:{}:len{}", pass.name, p.name(), h.len()), 1);
            }
            return;
        }
        ex.group(v, p);
        let g = ex.groups.get_mut(&(v.name, p)).unwrap();
        let o = run_history(&mut ex.env, g, h, &skips(pass, v));
        if let Some(e) = &o.setup_error {
            if report {
                rep.violation("C10", "setup", &format!("C10/{}/setup/{}/error", v.name, p.name()), || json!({"pass": pass.name, "variant": v.name, "preload": p.name(), "history": hist_json(h)}), "setup succeeds", e);
            }
            violating.insert(h.to_vec());
            return;
        }
        if o.illegal {
            illegal.insert(h.to_vec());
            if report {
                rep.count("histories_outside_unique_alphabet", 1);
            }
            return;
        }
        if !o.viols.is_empty() {
            violating.insert(h.to_vec());
        }
        if !report {
            return;
        }
        report_outcome(rep, &o);
        let nontrivial = o.index_probes > 0 && !h.is_empty();
        rep.case(vcore::util::hash_of(&(v.name, p, h)), nontrivial);
        rep.count(&format!("histories:{}:{}", pass.name, v.name), 1);
        if o.viols.is_empty() {
            rep.outcome("agree");
            if h.len() == 3 {
                rep.sample(|| json!({"variant": v.name, "preload": p.name(), "history": hist_json(h), "probes": o.probes, "index_probes": o.index_probes}));
            }
            return;
        }
        rep.count("violating_histories", 1);
        let ex_memo_key = (pass.name, v.name, p, h.to_vec());
        ex.memo.insert(ex_memo_key, o.viols.iter().map(|x| x.class.clone()).collect());
        for viol in &o.viols {
            rep.outcome(&format!("{}:{}", viol.class.site, viol.class.kind));
            let (mp, mh) = ex.minimize(pass, v, p, h, &viol.class);
            let sig = signature(v, mp, &mh, &viol.class);
            let c = viol.class.clone();
            rep.violation(
                "C10",
                if c.site.starts_with("stmt:") { "statement-result" } else if c.kind.ends_with("(self)") { "self-noindex" } else { "twin" },
                &sig,
                || json!({"pass": pass.name, "variant": v.name, "preload": mp.name(), "history": hist_json(&mh), "site": c.site, "kind": c.kind, "found_in": {"preload": p.name(), "history": hist_json(h)}, "sql": viol.sql}),
                &viol.expected,
                &viol.observed,
            );
        }
    }

    fn explore(&self, ctx: &Ctx, rep: &mut Reporter) {
        let mut ex = Explorer { ctx, env: Env::new(&ctx.scratch), memo: HashMap::new(), groups: HashMap::new() };
        let only_variant = ctx.opt("variant").map(|s| s.to_string());
        let only_pass = ctx.opt("pass").map(|s| s.to_string());
        let only_preload = ctx.opt("preload").map(|s| s.to_string());
        let depth_override: Option<usize> = ctx.opt("depth").and_then(|s| s.parse().ok());
        // development aid: `--tier thorough --opt sizes=quick` = quick-tier bounds under the thorough wall cap
        let size_tier = if ctx.opt("sizes") == Some("quick") { vcore::Tier::Quick } else { ctx.tier };
        let mut unit = 0u64; // ownership counter over (pass, variant, preload, first operation)
        let mut since_check = 0u32;
        // bounds of every planned pass are recorded up-front (a capped run names where it stopped in `notes`)
        for pass in PASSES {
            if only_pass.as_deref().map(|x| x != pass.name).unwrap_or(false) {
                continue;
            }
            let dep = |i: usize| -> Value {
                let d = size_tier.pick(pass.depth[i].0, pass.depth[i].1);
                if d == SKIP {
                    json!("not run in this tier")
                } else {
                    json!(d)
                }
            };
            if (0..3).all(|i| size_tier.pick(pass.depth[i].0, pass.depth[i].1) == SKIP) {
                continue;
            }
            rep.bound(&format!("pass:{}", pass.name), json!({"ops": pass.ops.iter().map(|o| o.name()).collect::<Vec<_>>(), "why": pass.why,
                "max_history_length": {"preload_none": dep(0), "preload_p12": dep(1), "preload_p650": dep(2)},
                "variants": VARIANTS.iter().filter(|v| !pass.skip_variants.contains(&v.name)).map(|v| v.name).collect::<Vec<_>>(), "probes_not_evaluated": pass.skip_probes}));
        }
        for pass in PASSES {
            if only_pass.as_deref().map(|x| x != pass.name).unwrap_or(false) {
                continue;
            }
            for v in VARIANTS {
                if only_variant.as_deref().map(|x| x != v.name).unwrap_or(false) || pass.skip_variants.contains(&v.name) {
                    continue;
                }
                for p in [Preload::None, Preload::P12, Preload::P650] {
                    if only_preload.as_deref().map(|x| x != p.name()).unwrap_or(false) {
                        continue;
                    }
                    let di = match p {
                        Preload::None => 0,
                        Preload::P12 => 1,
                        Preload::P650 => 2,
                    };
                    let depth = depth_override.unwrap_or(size_tier.pick(pass.depth[di].0, pass.depth[di].1));
                    if depth == SKIP {
                        continue; // this pass does not run on this preload in this tier
                    }
                    let mut violating: HashSet<Vec<Op>> = HashSet::new();
                    let mut illegal: HashSet<Vec<Op>> = HashSet::new();
                    // the empty history (initial state = preload): one owner; it is not a prunable prefix
                    unit += 1;
                    if ctx.mine(unit) {
                        self.one(&mut ex, rep, pass, v, p, &[], true, &mut violating, &mut illegal);
                        violating.clear();
                    }
                    // ownership by first operation: the whole subtree below [o1] belongs to one worker, so every
                    // prefix verdict needed for stop-at-divergence is known locally; lengths ascending
                    let mut owned: Vec<Op> = Vec::new();
                    for &o1 in pass.ops {
                        if tx_step(0, None, o1).is_none() {
                            continue;
                        }
                        unit += 1;
                        if ctx.mine(unit) {
                            owned.push(o1);
                        }
                    }
                    for len in 1..=depth {
                        for &o1 in &owned {
                            let mut h = vec![o1];
                            self.extend(&mut ex, rep, pass, v, p, &mut h, len, &mut violating, &mut illegal, &mut since_check);
                            if rep_capped(rep) {
                                return;
                            }
                        }
                    }
                    if let Some(g) = ex.groups.get(&(v.name, p)) {
                        if g.plan_cache_mismatch > 0 {
                            rep.count("plan_cache_mismatch", g.plan_cache_mismatch);
                        }
                    }
                }
            }
        }
        if ctx.opt("timing").is_some() {
            use std::sync::atomic::Ordering::Relaxed;
            let n = TIMES[4].load(Relaxed).max(1);
            rep.note(&format!("timing(worker {}): runs={} avg_total_us={} setup={} history={} probes={}", ctx.worker, n, TIMES[0].load(Relaxed) / n, TIMES[1].load(Relaxed) / n, TIMES[2].load(Relaxed) / n, TIMES[3].load(Relaxed) / n));
        }
    }

    #[allow(clippy::too_many_arguments)]
    fn extend(&self, ex: &mut Explorer, rep: &mut Reporter, pass: &'static Pass, v: &'static Variant, p: Preload, h: &mut Vec<Op>, len: usize, violating: &mut HashSet<Vec<Op>>, illegal: &mut HashSet<Vec<Op>>, since_check: &mut u32) {
        if rep_capped(rep) {
            return;
        }
        if h.len() == len {
            if !wellformed(h, v.flavor) {
                return;
            }
            self.one(ex, rep, pass, v, p, h, true, violating, illegal);
            *since_check += 1;
            if *since_check >= 8 {
                *since_check = 0;
                if ex.ctx.expired() {
                    rep.capped(&format!("deadline in pass {} variant {} preload {} at length {}", pass.name, v.name, p.name(), len));
                    CAPPED.store(true, std::sync::atomic::Ordering::Relaxed);
                }
            }
            return;
        }
        // h is a proper prefix: stop at divergence / outside the alphabet
        if violating.contains(h.as_slice()) {
            let n = count_extensions(pass, v.flavor, h, len);
            rep.pruned(n);
            rep.count(&format!("pruned:{}", pass.name), n);
            return;
        }
        if illegal.contains(h.as_slice()) {
            rep.count("histories_outside_unique_alphabet", count_extensions(pass, v.flavor, h, len));
            return;
        }
        let mut st = 0u8;
        let mut prev = None;
        for &o in h.iter() {
            st = tx_step(st, prev, o).unwrap_or(st);
            prev = Some(o);
        }
        for &o in pass.ops {
            if tx_step(st, prev, o).is_none() {
                continue;
            }
            h.push(o);
            self.extend(ex, rep, pass, v, p, h, len, violating, illegal, since_check);
            h.pop();
        }
    }
}

static CAPPED: std::sync::atomic::AtomicBool = std::sync::atomic::AtomicBool::new(false);
fn rep_capped(_rep: &Reporter) -> bool {
    CAPPED.load(std::sync::atomic::Ordering::Relaxed)
}

/// number of well-formed histories of exactly length `len` extending `h`
fn count_extensions(pass: &Pass, f: Flavor, h: &[Op], len: usize) -> u64 {
    fn go(pass: &Pass, f: Flavor, h: &mut Vec<Op>, st: u8, len: usize) -> u64 {
        if h.len() == len {
            return wellformed(h, f) as u64;
        }
        let prev = h.last().copied();
        let mut n = 0;
        for &o in pass.ops {
            if let Some(s) = tx_step(st, prev, o) {
                h.push(o);
                n += go(pass, f, h, s, len);
                h.pop();
            }
        }
        n
    }
    let mut st = 0u8;
    let mut prev = None;
    for &o in h {
        st = tx_step(st, prev, o).unwrap_or(st);
        prev = Some(o);
    }
    let mut hv = h.to_vec();
    go(pass, f, &mut hv, st, len)
}

impl Check for C10 {
    fn specs(&self) -> Vec<Spec> {
        let mut s = Spec::new(
            "C10",
            "model_checking",
            "a case is one history applied to a twin pair (twin A indexed per variant: pk, uniq, sec, sec_nopk, comp, partial, text, late = index created after the history, droplate = index dropped after it; twin B without index) from one of three preloads (none, 12 rows, 650 rows). Per pass (bounds[pass:*]: alphabet, depth per preload, variants) EVERY well-formed sequence of the pass alphabet up to the depth is run from fresh databases, shortest first, extensions of a violating history pruned. Alphabet: 3 single-row and 1 multi-row INSERT (non-monotonic keys, colliding values, NULL), UPDATE of the indexed column by key (to a value / to NULL), UPDATE all, DELETE by key / by indexed value, delete-then-reinsert, BEGIN, COMMIT, ROLLBACK, SAVEPOINT, ROLLBACK TO. After the history every probe of the variant's list (= < <= > >= BETWEEN IN, = AND other column, IS NULL, ORDER BY, inner and left join on the indexed column, LIKE prefix for TEXT, full scan; every value of the domain +-1) runs on both twins and, when EXPLAIN shows an index operator, also as its index-defeating formulation on twin A. Distinct = distinct (variant, preload, history); non-trivial = non-empty history with at least one probe answered on twin A by SecondaryIndexScan / IndexScan / IndexNestedLoopJoin.",
        );
        s.assumptions = &[
            "differential oracle only: twin B (same history, no index) and the `col + 0` / `col || ''` formulation on twin A; engine-wide semantic defects cancel and are not C10's subject",
            "unique variants (pk, uniq): a statement that would introduce a value already present (per full scan of twin B) is outside the alphabet; its history is pruned, not compared",
            "plans are read through EXPLAIN on twin A once per (variant, preload) and re-validated every 64 histories (planner is data-independent at this commit; mismatches are counted)",
        ];
        s.cap_quick_s = 100;
        s.cap_thorough_s = 1700;
        vec![s]
    }

    fn run(&self, ctx: &Ctx, rep: &mut Reporter) {
        rep.expect_nonzero("plan:SecondaryIndexScan");
        rep.expect_nonzero("plan:IndexNestedLoopJoin");
        rep.expect_nonzero("index_answers_nonempty");
        rep.expect_nonzero("limit_offset_probes_answered_by_index_ordered_scan");
        rep.note("PhysicalOperator::IndexScan is never constructed by the planner at this commit (only SecondaryIndexScan, also for PRIMARY KEY lookups, and IndexNestedLoopJoin): plan:IndexScan = 0 is expected");
        self.explore(ctx, rep);
    }

    fn replay(&self, ctx: &Ctx, case: &Value, rep: &mut Reporter) {
        let Some(v) = case["variant"].as_str().and_then(variant) else {
            rep.note("replay: unknown variant");
            return;
        };
        let p = case["preload"].as_str().and_then(Preload::parse).unwrap_or(Preload::None);
        let h: Vec<Op> = case["history"].as_array().map(|a| a.iter().filter_map(|x| x.as_str().and_then(Op::parse)).collect()).unwrap_or_default();
        let mut env = Env::new(&ctx.scratch);
        let mut g = Group::new(v, p);
        let pass = pass_by_name(case["pass"].as_str().unwrap_or("full"));
        let o = run_history(&mut env, &mut g, &h, &skips(pass, v));
        report_outcome(rep, &o);
        rep.case(vcore::util::hash_of(&(v.name, p, &h)), true);
        if let Some(e) = &o.setup_error {
            rep.violation("C10", "setup", &format!("C10/{}/setup/{}/error", v.name, p.name()), || case.clone(), "setup succeeds", e);
        }
        for viol in &o.viols {
            let sig = signature(v, p, &h, &viol.class);
            rep.violation("C10", "replay", &sig, || case.clone(), &viol.expected, &format!("{} [{}]", viol.observed, viol.sql));
        }
    }
}

fn debug_sql(script: &str) {
    vcore::quiet_panics();
    let base = std::path::PathBuf::from(format!("/dev/shm/turdb_verif/c10dbg_{}", std::process::id()));
    let mut t = TestDb::create(&base, "db").expect("create");
    for stmt in script.split(";;") {
        let s = stmt.trim();
        if s.is_empty() {
            continue;
        }
        if s == "@reopen" {
            println!("reopen: {:?}", t.reopen());
            continue;
        }
        if s == "@close_reopen" {
            println!("close_reopen: {:?}", t.close_reopen());
            continue;
        }
        if let Some(q) = s.strip_prefix("@x ") {
            println!("EXPLAIN {q}\n{}", explain(t.db(), q).unwrap_or("<err>".into()));
            continue;
        }
        match t.exec(s) {
            Res::Rows(r) => {
                println!("{s}\n    => {} rows", r.len());
                for row in r.iter().take(60) {
                    println!("       {}", refmodel::val::show_row(row));
                }
            }
            o => println!("{}\n    => {}", vcore::util::clip(s, 300), o.show()),
        }
    }
    drop(t);
    let _ = std::fs::remove_dir_all(&base);
}

fn main() {
    if let Ok(s) = std::env::var("C10_SQL") {
        debug_sql(&s);
        return;
    }
    let _ = V::Null;
    vcore::main(&C10)
}
