//! C31 — row records round-trip through the record format (exhaustive input enumeration).
//!
//! Subject: `turdb::records::{RecordBuilder, RecordBuilderState, RecordView, Schema}` and the
//! `OwnedValue` glue (`build_record_from_values`, `build_record_with_builder`,
//! `build_record_into_buffer`, `extract_row_from_record`).
//!
//! The oracle never looks at TurDB's encoding: the expected cell values are the harness's own
//! `C` values that were handed to the typed setters (floats compared by bits); the only format
//! fact used is the documented position of the null bitmap (`bytes[2 + i/8] bit i%8`).
//!
//! Passes
//!   small  : every ordered selection (with repetition) of 1..=3 kinds out of all 32 record data
//!            types, full cross product of the per-kind value domains            (quick+thorough)
//!   small4 : every ordered selection of 1..=4 kinds out of a reduced 12-kind list   (thorough)
//!   wide   : 8/9/16/17/33/64/65-column schemas x 4 kind layouts, covering rows (see `wide_rows`)
//!   robust : every getter x every column index (valid, n, n+7) on 1..=2-kind schemas: no panic
use std::sync::OnceLock;
use turdb::records::{ArrayBuilder, ColumnDef, DataType, JsonbBuilder, RecordBuilder, RecordView, Schema};
use turdb::schema::ColumnDef as TblCol;
use turdb::types::{create_record_schema, OwnedValue};
use vcore::{json, Check, Ctx, Reporter, Spec, Value};

// ------------------------------------------------------------------------------------------
// kinds (one per record DataType) and cell values
// ------------------------------------------------------------------------------------------
#[derive(Clone, Copy, PartialEq, Eq, Hash, Debug, PartialOrd, Ord)]
enum K {
    Bool, Int2, Int4, Int8, Float4, Float8, Date, Time, Timestamp, TimestampTz, Uuid, MacAddr, Inet4, Inet6,
    Text, Blob, Vector, Jsonb, Varchar, Char, Decimal, Interval, Int4Range, Int8Range, DateRange, TimestampRange,
    Enum, Point, Box, Circle, Composite, Array,
}
use K::*;
const ALL: [K; 32] = [
    Bool, Int2, Int4, Int8, Float4, Float8, Date, Time, Timestamp, TimestampTz, Uuid, MacAddr, Inet4, Inet6, Text, Blob, Vector,
    Jsonb, Varchar, Char, Decimal, Interval, Int4Range, Int8Range, DateRange, TimestampRange, Enum, Point, Box, Circle, Composite, Array,
];
/// thorough tier, 4-column selections: fixed widths 1,2,8,4,12,16,9,17 + every variable-width storage flavour
const REDUCED: [K; 16] = [Bool, Int2, Int8, Float4, TimestampTz, Uuid, Int4Range, Int8Range, Inet4, Text, Blob, Vector, Decimal, Char, Jsonb, Array];
const CHAR_LEN: usize = 8;
const VARCHAR_LEN: u32 = 300;

impl K {
    fn name(self) -> &'static str {
        match self {
            Bool => "Bool", Int2 => "Int2", Int4 => "Int4", Int8 => "Int8", Float4 => "Float4", Float8 => "Float8", Date => "Date",
            Time => "Time", Timestamp => "Timestamp", TimestampTz => "TimestampTz", Uuid => "Uuid", MacAddr => "MacAddr",
            Inet4 => "Inet4", Inet6 => "Inet6", Text => "Text", Blob => "Blob", Vector => "Vector", Jsonb => "Jsonb",
            Varchar => "Varchar", Char => "Char", Decimal => "Decimal", Interval => "Interval", Int4Range => "Int4Range",
            Int8Range => "Int8Range", DateRange => "DateRange", TimestampRange => "TimestampRange", Enum => "Enum", Point => "Point",
            Box => "Box", Circle => "Circle", Composite => "Composite", Array => "Array",
        }
    }
    fn from_name(s: &str) -> Option<K> {
        ALL.iter().copied().find(|k| k.name() == s)
    }
    fn dt(self) -> DataType {
        match self {
            Bool => DataType::Bool, Int2 => DataType::Int2, Int4 => DataType::Int4, Int8 => DataType::Int8, Float4 => DataType::Float4,
            Float8 => DataType::Float8, Date => DataType::Date, Time => DataType::Time, Timestamp => DataType::Timestamp,
            TimestampTz => DataType::TimestampTz, Uuid => DataType::Uuid, MacAddr => DataType::MacAddr, Inet4 => DataType::Inet4,
            Inet6 => DataType::Inet6, Text => DataType::Text, Blob => DataType::Blob, Vector => DataType::Vector, Jsonb => DataType::Jsonb,
            Varchar => DataType::Varchar, Char => DataType::Char, Decimal => DataType::Decimal, Interval => DataType::Interval,
            Int4Range => DataType::Int4Range, Int8Range => DataType::Int8Range, DateRange => DataType::DateRange,
            TimestampRange => DataType::TimestampRange, Enum => DataType::Enum, Point => DataType::Point, Box => DataType::Box,
            Circle => DataType::Circle, Composite => DataType::Composite, Array => DataType::Array,
        }
    }
    fn is_var(self) -> bool {
        self.dt().fixed_size().is_none()
    }
    fn coldef(self, name: String) -> ColumnDef {
        match self {
            Char => ColumnDef::new_char(name, CHAR_LEN as u32),
            Varchar => ColumnDef::new_varchar(name, Some(VARCHAR_LEN)),
            k => ColumnDef::new(name, k.dt()),
        }
    }
    fn idx(self) -> usize {
        ALL.iter().position(|k| *k == self).unwrap()
    }
}

type R<T> = Option<(Option<T>, Option<T>, bool, bool)>; // None = the empty range

/// A cell value as the harness knows it (floats are bit patterns so that comparison is exact).
#[derive(Clone, Debug, PartialEq)]
enum C {
    Null,
    Bool(bool),
    I2(i16),
    I4(i32),
    I8(i64),
    F4(u32),
    F8(u64),
    TsTz(i64, i32),
    B16([u8; 16]),
    B6([u8; 6]),
    B4([u8; 4]),
    Str(String),
    Bytes(Vec<u8>),
    Vec32(Vec<u32>),
    Dec { digits: i128, scale: i16, neg: bool },
    Interval(i64, i32, i32),
    R4(R<i32>),
    R8(R<i64>),
    Enum(u16, u16),
    F8s(Vec<u64>), // point (2), box (4), circle (3)
    Arr { bytes: Vec<u8>, ints: Option<Vec<Option<i32>>>, len: usize },
}

fn show(c: &C) -> String {
    let s = format!("{c:?}");
    vcore::util::clip(&s, 160)
}

fn ints(k: K) -> Vec<(&'static str, C)> {
    let mk = |v: i64| match k {
        Int2 => C::I2(v as i16),
        Int4 | Date => C::I4(v as i32),
        _ => C::I8(v),
    };
    let (lo, hi) = match k {
        Int2 => (i16::MIN as i64, i16::MAX as i64),
        Int4 | Date => (i32::MIN as i64, i32::MAX as i64),
        _ => (i64::MIN, i64::MAX),
    };
    vec![("null", C::Null), ("min", mk(lo)), ("max", mk(hi)), ("typical", mk(19_737)), ("zero", mk(0)), ("minus1", mk(-1))]
}

fn f8(v: f64) -> u64 {
    v.to_bits()
}

fn ranges4() -> Vec<(&'static str, C)> {
    vec![
        ("null", C::Null),
        ("min", C::R4(Some((Some(i32::MIN), Some(i32::MIN), true, true)))),
        ("max", C::R4(Some((Some(i32::MAX), Some(i32::MAX), false, false)))),
        ("typical", C::R4(Some((Some(1), Some(10), true, false)))),
        ("empty", C::R4(None)),
        ("unbounded", C::R4(Some((None, None, false, false)))),
        ("half", C::R4(Some((Some(-5), None, true, true)))),
    ]
}
fn ranges8() -> Vec<(&'static str, C)> {
    vec![
        ("null", C::Null),
        ("min", C::R8(Some((Some(i64::MIN), Some(i64::MIN), true, true)))),
        ("max", C::R8(Some((Some(i64::MAX), Some(i64::MAX), false, false)))),
        ("typical", C::R8(Some((Some(1), Some(10_000_000_000), true, false)))),
        ("empty", C::R8(None)),
        ("unbounded", C::R8(Some((None, None, false, false)))),
        ("half", C::R8(Some((None, Some(-5), false, true)))),
    ]
}

fn int_array(v: &[Option<i32>]) -> C {
    let mut b = ArrayBuilder::new(DataType::Int4);
    for x in v {
        match x {
            Some(i) => b.push_int4(*i),
            None => b.push_null(),
        }
    }
    C::Arr { bytes: b.build(), ints: Some(v.to_vec()), len: v.len() }
}

fn composite(vals: Option<(i32, &str)>) -> C {
    let s = Schema::new(vec![ColumnDef::new("x", DataType::Int4), ColumnDef::new("y", DataType::Text)]);
    let mut b = RecordBuilder::new(&s);
    if let Some((i, t)) = vals {
        b.set_int4(0, i).unwrap();
        b.set_text(1, t).unwrap();
    }
    C::Bytes(b.build().unwrap())
}

/// value domain of a kind: index 0 = NULL, 1 = min, 2 = max, 3 = typical, then type-specific extras
/// (empty / 300-byte for variable width, -0.0 / NaN for floats, toast-marker look-alike for blobs).
fn domain_of(k: K) -> Vec<(&'static str, C)> {
    let s300: String = (0..300).map(|i| (b'a' + (i % 26) as u8) as char).collect();
    let b300: Vec<u8> = (0..300).map(|i| (i * 7 % 256) as u8).collect();
    match k {
        Bool => vec![("null", C::Null), ("min", C::Bool(false)), ("max", C::Bool(true))],
        Int2 | Int4 | Int8 | Date | Time | Timestamp => ints(k),
        Float4 => vec![
            ("null", C::Null),
            ("min", C::F4(f32::MIN.to_bits())),
            ("max", C::F4(f32::MAX.to_bits())),
            ("typical", C::F4(1.5f32.to_bits())),
            ("negzero", C::F4((-0.0f32).to_bits())),
            ("nan", C::F4(f32::NAN.to_bits())),
        ],
        Float8 => vec![
            ("null", C::Null),
            ("min", C::F8(f8(f64::MIN))),
            ("max", C::F8(f8(f64::MAX))),
            ("typical", C::F8(f8(1.5))),
            ("negzero", C::F8(f8(-0.0))),
            ("nan", C::F8(f8(f64::NAN))),
        ],
        TimestampTz => vec![
            ("null", C::Null),
            ("min", C::TsTz(i64::MIN, i32::MIN)),
            ("max", C::TsTz(i64::MAX, i32::MAX)),
            ("typical", C::TsTz(1_700_000_000_000_000, 3600)),
            ("zero", C::TsTz(0, -43_200)),
        ],
        Uuid | Inet6 => vec![
            ("null", C::Null),
            ("min", C::B16([0; 16])),
            ("max", C::B16([0xFF; 16])),
            ("typical", C::B16([0x00, 0x11, 0x22, 0x33, 0x44, 0x55, 0x66, 0x77, 0x88, 0x99, 0xAA, 0xBB, 0xCC, 0xDD, 0xEE, 0x01])),
        ],
        MacAddr => vec![("null", C::Null), ("min", C::B6([0; 6])), ("max", C::B6([0xFF; 6])), ("typical", C::B6([0xDE, 0xAD, 0xBE, 0xEF, 0x00, 0x01]))],
        Inet4 => vec![("null", C::Null), ("min", C::B4([0; 4])), ("max", C::B4([0xFF; 4])), ("typical", C::B4([192, 168, 1, 7]))],
        Text => vec![
            ("null", C::Null),
            ("min", C::Str(String::new())), // min == empty for variable width
            ("max", C::Str(s300)),          // the 300-byte value
            ("typical", C::Str("hello".into())),
            ("multibyte", C::Str("h\u{e9}llo \u{2713} \u{1F600}".into())),
        ],
        Varchar => vec![
            ("null", C::Null),
            ("min", C::Str(String::new())),
            ("max", C::Str(s300)),
            ("typical", C::Str("abc".into())),
            ("multibyte", C::Str("\u{e9}".repeat(150))), // 150 chars, 300 bytes
        ],
        Char => vec![
            ("null", C::Null),
            ("min", C::Str(String::new())),
            ("max", C::Str("abcdefgh".into())),
            ("typical", C::Str("abc".into())),
            ("multibyte", C::Str("\u{e9}".repeat(CHAR_LEN))),
        ],
        Blob => vec![
            ("null", C::Null),
            ("min", C::Bytes(vec![])),
            ("max", C::Bytes(b300)),
            ("typical", C::Bytes(vec![0x00, 0xFF, 0x01, 0x80])),
            // boundary of the value space: same length and first byte as an encoded TOAST pointer
            ("toastlike", C::Bytes({
                let mut v = vec![0u8; 17];
                v[0] = 0xFE;
                v
            })),
        ],
        Vector => vec![
            ("null", C::Null),
            ("min", C::Vec32(vec![])),
            ("max", C::Vec32((0..75).map(|i| (i as f32 * 0.25 - 3.0).to_bits()).collect())), // 4 + 300 bytes
            ("typical", C::Vec32(vec![1.0f32.to_bits(), (-2.5f32).to_bits(), 3.25f32.to_bits()])),
            ("special", C::Vec32(vec![f32::NAN.to_bits(), (-0.0f32).to_bits(), f32::INFINITY.to_bits(), f32::NEG_INFINITY.to_bits(), f32::MIN.to_bits(), f32::MAX.to_bits(), 1u32])),
        ],
        Jsonb => {
            let mut obj = JsonbBuilder::new_object();
            obj.set("a", 1i64);
            obj.set("b", "x");
            vec![
                ("null", C::Null),
                ("min", C::Bytes(JsonbBuilder::new_null().build())),
                ("max", C::Bytes(JsonbBuilder::new_string(s300).build())),
                ("typical", C::Bytes(obj.build())),
                ("empty", C::Bytes(JsonbBuilder::new_object().build())),
            ]
        }
        Decimal => vec![
            ("null", C::Null),
            ("min", C::Dec { digits: i128::MIN, scale: i16::MIN, neg: true }),
            ("max", C::Dec { digits: i128::MAX, scale: i16::MAX, neg: false }),
            ("typical", C::Dec { digits: 1_234_567, scale: 2, neg: false }),
            ("zero", C::Dec { digits: 0, scale: 0, neg: false }),
            ("negative", C::Dec { digits: -1_234_567, scale: 2, neg: true }),
            ("signflag", C::Dec { digits: 1_234_567, scale: 2, neg: true }),
        ],
        Interval => vec![
            ("null", C::Null),
            ("min", C::Interval(i64::MIN, i32::MIN, i32::MIN)),
            ("max", C::Interval(i64::MAX, i32::MAX, i32::MAX)),
            ("typical", C::Interval(3_600_000_000, 5, 14)),
        ],
        Int4Range | DateRange => ranges4(),
        Int8Range | TimestampRange => ranges8(),
        Enum => vec![("null", C::Null), ("min", C::Enum(0, 0)), ("max", C::Enum(u16::MAX, u16::MAX)), ("typical", C::Enum(7, 3))],
        Point | Box | Circle => {
            let n = match k {
                Point => 2,
                Box => 4,
                _ => 3,
            };
            let pat = [1.5f64, -2.5, 1e300, 4.0];
            let spc = [-0.0f64, f64::NAN, f64::INFINITY, f64::MIN_POSITIVE];
            vec![
                ("null", C::Null),
                ("min", C::F8s(vec![f8(f64::MIN); n])),
                ("max", C::F8s(vec![f8(f64::MAX); n])),
                ("typical", C::F8s(pat[..n].iter().map(|x| f8(*x)).collect())),
                ("special", C::F8s(spc[..n].iter().map(|x| f8(*x)).collect())),
            ]
        }
        Composite => vec![
            ("null", C::Null),
            ("min", composite(None)),
            ("max", composite(Some((i32::MAX, &"z".repeat(290))))),
            ("typical", composite(Some((7, "xy")))),
        ],
        Array => {
            let mut t = ArrayBuilder::new(DataType::Text);
            for i in 0..10 {
                t.push_text(&"q".repeat(25 + i));
            }
            vec![
                ("null", C::Null),
                ("min", int_array(&[])),
                ("max", C::Arr { bytes: t.build(), ints: None, len: 10 }),
                ("typical", int_array(&[Some(1), None, Some(3)])),
            ]
        }
    }
}

fn domains() -> &'static Vec<Vec<(&'static str, C)>> {
    static D: OnceLock<Vec<Vec<(&'static str, C)>>> = OnceLock::new();
    D.get_or_init(|| ALL.iter().map(|k| domain_of(*k)).collect())
}
fn dom(k: K) -> &'static [(&'static str, C)] {
    &domains()[k.idx()]
}
/// index of the longest encoding of the kind (used as the "dirty" prior row before reset)
fn largest(_k: K) -> u8 {
    2
}

/// what the record must return for an input cell (only CHAR(n) transforms its input: blank padding)
fn expected(k: K, c: &C) -> C {
    match (k, c) {
        (Char, C::Str(s)) => {
            let n = s.chars().count();
            let mut p = s.clone();
            p.extend(std::iter::repeat(' ').take(CHAR_LEN.saturating_sub(n)));
            C::Str(p)
        }
        _ => c.clone(),
    }
}

// ------------------------------------------------------------------------------------------
// typed setter / getter dispatch
// ------------------------------------------------------------------------------------------
fn set_cell(b: &mut RecordBuilder<'_>, i: usize, k: K, c: &C) -> eyre::Result<()> {
    match (k, c) {
        (_, C::Null) => {
            b.set_null(i);
            Ok(())
        }
        (Bool, C::Bool(v)) => b.set_bool(i, *v),
        (Int2, C::I2(v)) => b.set_int2(i, *v),
        (Int4, C::I4(v)) => b.set_int4(i, *v),
        (Int8, C::I8(v)) => b.set_int8(i, *v),
        (Float4, C::F4(v)) => b.set_float4(i, f32::from_bits(*v)),
        (Float8, C::F8(v)) => b.set_float8(i, f64::from_bits(*v)),
        (Date, C::I4(v)) => b.set_date(i, *v),
        (Time, C::I8(v)) => b.set_time(i, *v),
        (Timestamp, C::I8(v)) => b.set_timestamp(i, *v),
        (TimestampTz, C::TsTz(m, o)) => b.set_timestamptz(i, *m, *o),
        (Uuid, C::B16(v)) => b.set_uuid(i, v),
        (Inet6, C::B16(v)) => b.set_inet6(i, v),
        (MacAddr, C::B6(v)) => b.set_macaddr(i, v),
        (Inet4, C::B4(v)) => b.set_inet4(i, v),
        (Text, C::Str(s)) => b.set_text(i, s),
        (Varchar, C::Str(s)) => b.set_varchar(i, s),
        (Char, C::Str(s)) => b.set_char(i, s),
        (Blob, C::Bytes(v)) => b.set_blob(i, v),
        (Jsonb, C::Bytes(v)) => b.set_jsonb_bytes(i, v),
        (Composite, C::Bytes(v)) => b.set_composite(i, v),
        (Array, C::Arr { bytes, .. }) => b.set_array(i, bytes),
        (Vector, C::Vec32(v)) => {
            let f: Vec<f32> = v.iter().map(|x| f32::from_bits(*x)).collect();
            b.set_vector(i, &f)
        }
        (Decimal, C::Dec { digits, scale, neg }) => b.set_decimal(i, *digits, *scale, *neg),
        (Interval, C::Interval(m, d, mo)) => b.set_interval(i, *m, *d, *mo),
        (Int4Range, C::R4(None)) => b.set_int4_range_empty(i),
        (DateRange, C::R4(None)) => b.set_date_range_empty(i),
        (Int4Range, C::R4(Some((l, u, li, ui)))) => b.set_int4_range(i, *l, *u, *li, *ui),
        (DateRange, C::R4(Some((l, u, li, ui)))) => b.set_date_range(i, *l, *u, *li, *ui),
        (Int8Range, C::R8(None)) => b.set_int8_range_empty(i),
        (TimestampRange, C::R8(None)) => b.set_timestamp_range_empty(i),
        (Int8Range, C::R8(Some((l, u, li, ui)))) => b.set_int8_range(i, *l, *u, *li, *ui),
        (TimestampRange, C::R8(Some((l, u, li, ui)))) => b.set_timestamp_range(i, *l, *u, *li, *ui),
        (Enum, C::Enum(t, o)) => b.set_enum(i, *t, *o),
        (Point, C::F8s(v)) => b.set_point(i, f64::from_bits(v[0]), f64::from_bits(v[1])),
        (Box, C::F8s(v)) => b.set_box(i, (f64::from_bits(v[0]), f64::from_bits(v[1])), (f64::from_bits(v[2]), f64::from_bits(v[3]))),
        (Circle, C::F8s(v)) => b.set_circle(i, (f64::from_bits(v[0]), f64::from_bits(v[1])), f64::from_bits(v[2])),
        (k, c) => eyre::bail!("harness: cell {c:?} does not belong to kind {k:?}"),
    }
}

fn r4(r: turdb::records::Range<i32>) -> C {
    if r.is_empty {
        C::R4(None)
    } else {
        C::R4(Some((r.lower, r.upper, r.lower_inclusive, r.upper_inclusive)))
    }
}
fn r8(r: turdb::records::Range<i64>) -> C {
    if r.is_empty {
        C::R8(None)
    } else {
        C::R8(Some((r.lower, r.upper, r.lower_inclusive, r.upper_inclusive)))
    }
}

fn arr_cell(a: turdb::records::ArrayView<'_>, raw: &[u8], want: &C) -> eyre::Result<C> {
    // decode elements the way the expected cell describes them (int4 elements or just the length)
    let ints = match want {
        C::Arr { ints: Some(_), .. } => {
            let mut v = Vec::new();
            for j in 0..a.len() {
                v.push(if a.is_null(j) { None } else { Some(a.get_int4(j)?) });
            }
            Some(v)
        }
        _ => None,
    };
    Ok(C::Arr { bytes: raw.to_vec(), ints, len: a.len() })
}

/// read column `i` with the getter that belongs to the kind; `opt` selects the `_opt` flavour
/// (None => C::Null).  `want` only steers how array elements are decoded.
fn get_cell(v: &RecordView<'_>, i: usize, k: K, opt: bool, want: &C) -> eyre::Result<C> {
    macro_rules! g {
        ($plain:ident, $opt:ident, $map:expr) => {
            if opt {
                match v.$opt(i)? {
                    Some(x) => $map(x),
                    None => C::Null,
                }
            } else {
                $map(v.$plain(i)?)
            }
        };
    }
    Ok(match k {
        Bool => g!(get_bool, get_bool_opt, C::Bool),
        Int2 => g!(get_int2, get_int2_opt, C::I2),
        Int4 => g!(get_int4, get_int4_opt, C::I4),
        Int8 => g!(get_int8, get_int8_opt, C::I8),
        Float4 => g!(get_float4, get_float4_opt, |x: f32| C::F4(x.to_bits())),
        Float8 => g!(get_float8, get_float8_opt, |x: f64| C::F8(x.to_bits())),
        Date => g!(get_date, get_date_opt, C::I4),
        Time => g!(get_time, get_time_opt, C::I8),
        Timestamp => g!(get_timestamp, get_timestamp_opt, C::I8),
        TimestampTz => g!(get_timestamptz, get_timestamptz_opt, |(m, o)| C::TsTz(m, o)),
        Uuid => g!(get_uuid, get_uuid_opt, |x: &[u8; 16]| C::B16(*x)),
        Inet6 => g!(get_inet6, get_inet6_opt, |x: &[u8; 16]| C::B16(*x)),
        MacAddr => g!(get_macaddr, get_macaddr_opt, |x: &[u8; 6]| C::B6(*x)),
        Inet4 => g!(get_inet4, get_inet4_opt, |x: &[u8; 4]| C::B4(*x)),
        Text => g!(get_text, get_text_opt, |x: &str| C::Str(x.to_string())),
        Varchar => g!(get_varchar, get_text_opt, |x: &str| C::Str(x.to_string())),
        Char => g!(get_char, get_text_opt, |x: &str| C::Str(x.to_string())),
        Blob => g!(get_blob, get_blob_opt, |x: &[u8]| C::Bytes(x.to_vec())),
        Jsonb => g!(get_jsonb, get_jsonb_opt, |x: turdb::records::JsonbView<'_>| C::Bytes(x.data().to_vec())),
        Vector => g!(get_vector_copy, get_vector_opt, |x: Vec<f32>| C::Vec32(x.iter().map(|f| f.to_bits()).collect())),
        Decimal => g!(get_decimal, get_decimal_opt, |d: turdb::records::DecimalView<'_>| C::Dec { digits: d.digits(), scale: d.scale(), neg: d.is_negative() }),
        Interval => g!(get_interval, get_interval_opt, |(m, d, mo)| C::Interval(m, d, mo)),
        Int4Range => g!(get_int4_range, get_int4_range_opt, r4),
        DateRange => g!(get_date_range, get_date_range_opt, r4),
        Int8Range => g!(get_int8_range, get_int8_range_opt, r8),
        TimestampRange => g!(get_timestamp_range, get_timestamp_range_opt, r8),
        Enum => g!(get_enum, get_enum_opt, |(t, o)| C::Enum(t, o)),
        Point => g!(get_point, get_point_opt, |(x, y): (f64, f64)| C::F8s(vec![f8(x), f8(y)])),
        Box => g!(get_box, get_box_opt, |(l, h): ((f64, f64), (f64, f64))| C::F8s(vec![f8(l.0), f8(l.1), f8(h.0), f8(h.1)])),
        Circle => g!(get_circle, get_circle_opt, |(c, r): ((f64, f64), f64)| C::F8s(vec![f8(c.0), f8(c.1), f8(r)])),
        Composite => {
            // the composite payload is an opaque nested record for the row format: bytes must survive
            let cv = if opt { v.get_composite_opt(i, 2)? } else { Some(v.get_composite(i, 2)?) };
            match cv {
                None => C::Null,
                Some(cv) => {
                    eyre::ensure!(cv.field_count() == 2, "composite field count");
                    C::Bytes(v.get_var_raw(i)?.to_vec())
                }
            }
        }
        Array => {
            let av = if opt { v.get_array_opt(i)? } else { Some(v.get_array(i)?) };
            match av {
                None => C::Null,
                Some(a) => arr_cell(a, v.get_var_raw(i)?, want)?,
            }
        }
    })
}

// ------------------------------------------------------------------------------------------
// schema context
// ------------------------------------------------------------------------------------------
struct Sc {
    kinds: Vec<K>,
    schema: Schema,
    /// glue: table columns + record schema derived with the crate's own `create_record_schema`
    tcols: Vec<TblCol>,
    gschema: Schema,
}

impl Sc {
    fn new(kinds: &[K]) -> Sc {
        let schema = Schema::new(kinds.iter().enumerate().map(|(i, k)| k.coldef(format!("c{i}"))).collect());
        let tcols: Vec<TblCol> = kinds.iter().enumerate().map(|(i, k)| TblCol::new(format!("c{i}"), k.dt())).collect();
        let gschema = create_record_schema(&tcols);
        Sc { kinds: kinds.to_vec(), schema, tcols, gschema }
    }
    fn n(&self) -> usize {
        self.kinds.len()
    }
    fn cell(&self, col: usize, vi: u8) -> &'static C {
        &dom(self.kinds[col])[vi as usize].1
    }
    fn label(&self, col: usize, vi: u8) -> &'static str {
        dom(self.kinds[col])[vi as usize].0
    }
    fn kinds_json(&self) -> Value {
        json!(self.kinds.iter().map(|k| k.name()).collect::<Vec<_>>())
    }
}

struct Viol {
    oracle: &'static str,
    sig: String,
    expected: String,
    observed: String,
}

fn push(out: &mut Vec<Viol>, oracle: &'static str, kind: &str, aspect: &str, expected: String, observed: String) {
    let sig = format!("C31/{oracle}/{kind}/{aspect}");
    if !out.iter().any(|v| v.sig == sig) {
        out.push(Viol { oracle, sig, expected, observed });
    }
}

fn build_row(sc: &Sc, row: &[u8], b: &mut RecordBuilder<'_>, explicit_null: bool) -> Result<(), (usize, String, bool)> {
    for (i, &vi) in row.iter().enumerate() {
        let c = sc.cell(i, vi);
        if !explicit_null && matches!(c, C::Null) {
            continue;
        }
        match vcore::catch(|| set_cell(b, i, sc.kinds[i], c)) {
            Ok(Ok(())) => {}
            Ok(Err(e)) => return Err((i, e.to_string(), false)),
            Err(p) => return Err((i, p, true)),
        }
    }
    Ok(())
}

/// compare every column of `view` with the expected cells
fn check_view(sc: &Sc, want: &[C], view: &RecordView<'_>, oracle: &'static str, pre: &str, out: &mut Vec<Viol>, rep: &mut Reporter) {
    for i in 0..sc.n() {
        let k = sc.kinds[i];
        let w = &want[i];
        let wnull = matches!(w, C::Null);
        match vcore::catch(|| view.is_null(i)) {
            Err(p) => push(out, oracle, k.name(), &format!("{pre}is_null-panic"), format!("is_null={wnull}"), p),
            Ok(n) if n != wnull => push(out, oracle, k.name(), &format!("{pre}{}", if wnull { "null-lost" } else { "null-gained" }), format!("is_null={wnull}"), format!("is_null={n}")),
            Ok(_) => {}
        }
        for opt in [false, true] {
            if wnull && !opt {
                continue; // plain getters are only specified for non-NULL columns
            }
            let tag = if opt { "opt-" } else { "" };
            match vcore::catch(|| get_cell(view, i, k, opt, w)) {
                Err(p) => push(out, oracle, k.name(), &format!("{pre}{tag}getter-panic"), show(w), p),
                Ok(Err(e)) => push(out, oracle, k.name(), &format!("{pre}{tag}getter-error"), show(w), e.to_string()),
                Ok(Ok(g)) => {
                    if &g != w {
                        let aspect = match (wnull, matches!(g, C::Null)) {
                            (true, false) => "null-lost",
                            (false, true) => "null-gained",
                            _ => "value-changed",
                        };
                        push(out, oracle, k.name(), &format!("{pre}{tag}{aspect}"), show(w), show(&g));
                    }
                }
            }
        }
        // zero-copy vector getter: Ok(equal), or the documented "not aligned" refusal when the
        // float payload really is misaligned in this buffer
        if k == Vector && !wnull {
            let r = vcore::catch(|| view.get_vector(i).map(|s| s.iter().map(|f| f.to_bits()).collect::<Vec<u32>>()).map_err(|e| e.to_string()));
            match r {
                Err(p) => push(out, oracle, k.name(), &format!("{pre}zero-copy-getter-panic"), show(w), p),
                Ok(Ok(bits)) => {
                    rep.count("zero_copy_vector_ok", 1);
                    if &C::Vec32(bits.clone()) != w {
                        push(out, oracle, k.name(), &format!("{pre}zero-copy-value-changed"), show(w), show(&C::Vec32(bits)));
                    }
                }
                Ok(Err(e)) => {
                    let aligned = view.get_var_bounds(i).map(|(s, _)| (view.data().as_ptr() as usize + s + 4) % 4 == 0).unwrap_or(true);
                    if aligned || !e.contains("not aligned") {
                        push(out, oracle, k.name(), &format!("{pre}zero-copy-getter-error"), show(w), e);
                    } else {
                        rep.count("zero_copy_vector_refused_misaligned", 1);
                    }
                }
            }
        }
    }
}

fn region(sc: &Sc, a: &[u8], b: &[u8]) -> &'static str {
    if a.len() != b.len() {
        return "length-differs";
    }
    let p = a.iter().zip(b).position(|(x, y)| x != y).unwrap_or(0);
    let bm = sc.n().div_ceil(8);
    let hdr = 2 + bm + 2 * sc.kinds.iter().filter(|k| k.is_var()).count();
    if p < 2 {
        "header-length-differs"
    } else if p < 2 + bm {
        "null-bitmap-differs"
    } else if p < hdr {
        "offset-table-differs"
    } else {
        "payload-differs"
    }
}

// ---- OwnedValue glue ----------------------------------------------------------------------
fn to_owned(k: K, c: &C) -> Option<OwnedValue> {
    Some(match (k, c) {
        (_, C::Null) => OwnedValue::Null,
        (Bool, C::Bool(b)) => OwnedValue::Bool(*b),
        (Int2, C::I2(v)) => OwnedValue::Int(*v as i64),
        (Int4, C::I4(v)) => OwnedValue::Int(*v as i64),
        (Int8, C::I8(v)) => OwnedValue::Int(*v),
        (Float4, C::F4(v)) => OwnedValue::Float(f32::from_bits(*v) as f64),
        (Float8, C::F8(v)) => OwnedValue::Float(f64::from_bits(*v)),
        (Date, C::I4(v)) => OwnedValue::Date(*v),
        (Time, C::I8(v)) => OwnedValue::Time(*v),
        (Timestamp, C::I8(v)) => OwnedValue::Timestamp(*v),
        (TimestampTz, C::TsTz(m, o)) => OwnedValue::TimestampTz(*m, *o),
        (Uuid, C::B16(v)) => OwnedValue::Uuid(*v),
        (Inet6, C::B16(v)) => OwnedValue::Inet6(*v),
        (MacAddr, C::B6(v)) => OwnedValue::MacAddr(*v),
        (Inet4, C::B4(v)) => OwnedValue::Inet4(*v),
        (Text | Varchar | Char, C::Str(s)) => OwnedValue::Text(s.clone()),
        (Blob | Composite, C::Bytes(v)) => OwnedValue::Blob(v.clone()),
        (Array, C::Arr { bytes, .. }) => OwnedValue::Blob(bytes.clone()),
        (Jsonb, C::Bytes(v)) => OwnedValue::Jsonb(v.clone()),
        (Vector, C::Vec32(v)) => OwnedValue::Vector(v.iter().map(|x| f32::from_bits(*x)).collect()),
        (Decimal, C::Dec { digits, scale, neg }) if *neg == (*digits < 0) => OwnedValue::Decimal(*digits, *scale),
        (Interval, C::Interval(m, d, mo)) => OwnedValue::Interval(*m, *d, *mo),
        (Enum, C::Enum(t, o)) => OwnedValue::Enum(*t, *o),
        (Point, C::F8s(v)) => OwnedValue::Point(f64::from_bits(v[0]), f64::from_bits(v[1])),
        (Box, C::F8s(v)) => OwnedValue::Box((f64::from_bits(v[0]), f64::from_bits(v[1])), (f64::from_bits(v[2]), f64::from_bits(v[3]))),
        (Circle, C::F8s(v)) => OwnedValue::Circle((f64::from_bits(v[0]), f64::from_bits(v[1])), f64::from_bits(v[2])),
        _ => return None, // ranges (no OwnedValue variant), decimals whose sign flag disagrees with the digits
    })
}

fn fb(a: f64, b: f64) -> bool {
    a.to_bits() == b.to_bits()
}
/// strict equality (floats by bits); Err(aspect) tells how the two differ
fn ov_cmp(w: &OwnedValue, g: &OwnedValue) -> Result<(), &'static str> {
    use OwnedValue as O;
    let same = match (w, g) {
        (O::Float(a), O::Float(b)) => fb(*a, *b),
        (O::Point(a, b), O::Point(c, d)) => fb(*a, *c) && fb(*b, *d),
        (O::Box(a, b), O::Box(c, d)) => fb(a.0, c.0) && fb(a.1, c.1) && fb(b.0, d.0) && fb(b.1, d.1),
        (O::Circle(a, r), O::Circle(c, s)) => fb(a.0, c.0) && fb(a.1, c.1) && fb(*r, *s),
        (O::Vector(a), O::Vector(b)) => a.len() == b.len() && a.iter().zip(b).all(|(x, y)| x.to_bits() == y.to_bits()),
        (a, b) if std::mem::discriminant(a) == std::mem::discriminant(b) => a == b,
        (O::Null, _) => return Err("null-lost"),
        (_, O::Null) => return Err("null-gained"),
        _ => return Err("type-changed"),
    };
    if same {
        Ok(())
    } else {
        Err("value-changed")
    }
}

fn showo(o: &OwnedValue) -> String {
    vcore::util::clip(&format!("{o:?}"), 160)
}

/// one glue round trip; returns per-column / whole-row failure (column, aspect, expected, observed)
fn glue_once(sc: &Sc, vals: &[OwnedValue]) -> Result<Vec<u8>, (Option<usize>, String, String, String)> {
    let bytes = match vcore::catch(|| OwnedValue::build_record_from_values(vals, &sc.gschema)) {
        Err(p) => return Err((None, "build-panic".into(), "Ok(record)".into(), p)),
        Ok(Err(e)) => return Err((None, "build-error".into(), "Ok(record)".into(), e.to_string())),
        Ok(Ok(b)) => b,
    };
    let got = vcore::catch(|| RecordView::new(&bytes, &sc.gschema).and_then(|v| OwnedValue::extract_row_from_record(&v, &sc.tcols)));
    let got = match got {
        Err(p) => return Err((None, "extract-panic".into(), "Ok(row)".into(), p)),
        Ok(Err(e)) => return Err((None, "extract-error".into(), "Ok(row)".into(), e.to_string())),
        Ok(Ok(g)) => g,
    };
    if got.len() != vals.len() {
        return Err((None, "row-length-changed".into(), vals.len().to_string(), got.len().to_string()));
    }
    for i in 0..vals.len() {
        if let Err(a) = ov_cmp(&vals[i], &got[i]) {
            return Err((Some(i), a.to_string(), showo(&vals[i]), showo(&got[i])));
        }
    }
    Ok(bytes)
}

fn check_glue(sc: &Sc, row: &[u8], prior: &[u8], rep: &mut Reporter, out: &mut Vec<Viol>) {
    let vals: Option<Vec<OwnedValue>> = (0..sc.n()).map(|i| to_owned(sc.kinds[i], sc.cell(i, row[i]))).collect();
    let Some(vals) = vals else {
        rep.count("glue_rows_without_ownedvalue_form", 1);
        return;
    };
    rep.count("glue_rows", 1);
    match glue_once(sc, &vals) {
        Ok(bytes) => {
            // reset flavour of the glue: a builder that holds the prior row must give the same bytes
            let pvals: Option<Vec<OwnedValue>> = (0..sc.n()).map(|i| to_owned(sc.kinds[i], sc.cell(i, prior[i]))).collect();
            let mut b = RecordBuilder::new(&sc.gschema);
            if let Some(pv) = pvals {
                // a prior row that the glue cannot even build is irrelevant here (reported on its own row)
                let _ = vcore::catch(|| {
                    for (i, v) in pv.iter().enumerate() {
                        let _ = v.set_in_builder(&mut b, i);
                    }
                });
            }
            let k0 = if sc.n() <= 2 { sc.kinds.iter().map(|k| k.name()).collect::<Vec<_>>().join("+") } else { "row".to_string() };
            match vcore::catch(|| OwnedValue::build_record_with_builder(&vals, &mut b)) {
                Ok(Ok(b2)) if b2 == bytes => {}
                Ok(Ok(b2)) => push(out, "glue-reset", &k0, &format!("with_builder-{}", region(sc, &bytes, &b2)), vcore::util::hex(&bytes[..bytes.len().min(64)]), vcore::util::hex(&b2[..b2.len().min(64)])),
                Ok(Err(e)) => push(out, "glue-reset", &k0, "with_builder-error", "Ok".into(), e.to_string()),
                Err(p) => push(out, "glue-reset", &k0, "with_builder-panic", "Ok".into(), p),
            }
            let mut buf = vec![0xEEu8; 37];
            match vcore::catch(|| OwnedValue::build_record_into_buffer(&vals, &mut b, &mut buf)) {
                Ok(Ok(())) if buf == bytes => {}
                Ok(Ok(())) => push(out, "glue-reset", &k0, &format!("into_buffer-{}", region(sc, &bytes, &buf)), vcore::util::hex(&bytes[..bytes.len().min(64)]), vcore::util::hex(&buf[..buf.len().min(64)])),
                Ok(Err(e)) => push(out, "glue-reset", &k0, "into_buffer-error", "Ok".into(), e.to_string()),
                Err(p) => push(out, "glue-reset", &k0, "into_buffer-panic", "Ok".into(), p),
            }
        }
        Err((col, aspect, e, o)) => {
            // blame the minimal construct: every column that fails on its own in a 1-column
            // schema; a failure that needs the combination is blamed on the differing column.
            let mut bad: Vec<usize> = Vec::new();
            if sc.n() > 1 {
                for i in 0..sc.n() {
                    let one = Sc::new(&[sc.kinds[i]]);
                    if let Err((_, a1, e1, o1)) = glue_once(&one, &vals[i..=i]) {
                        push(out, "glue", sc.kinds[i].name(), &a1, e1, o1);
                        bad.push(i);
                    }
                }
            }
            let blame_rest = |out: &mut Vec<Viol>, col: Option<usize>, aspect: String, e: String, o: String| match col {
                Some(i) => push(out, "glue", sc.kinds[i].name(), &aspect, e, o),
                None => {
                    let ks = sc.kinds.iter().map(|k| k.name()).collect::<Vec<_>>().join("+");
                    push(out, "glue", &ks, &aspect, e, o)
                }
            };
            if bad.is_empty() {
                blame_rest(out, col, aspect, e, o);
            } else {
                // defect-free remainder: the same row with the individually failing cells NULLed
                let mut v2 = vals.clone();
                for i in &bad {
                    v2[*i] = OwnedValue::Null;
                }
                rep.count("glue_rows_rechecked_without_failing_cells", 1);
                if let Err((c2, a2, e2, o2)) = glue_once(sc, &v2) {
                    blame_rest(out, c2, format!("{a2}-with-neighbours"), e2, o2);
                }
            }
        }
    }
}

/// All oracles for one (schema, row, prior row).  Returns the violations (deduplicated by signature).
fn check_row(sc: &Sc, row: &[u8], prior: &[u8], rep: &mut Reporter) -> Vec<Viol> {
    let mut out = Vec::new();
    let want: Vec<C> = (0..sc.n()).map(|i| expected(sc.kinds[i], sc.cell(i, row[i]))).collect();

    // 1. fresh builder -> bytes
    let mut b = RecordBuilder::new(&sc.schema);
    if let Err((i, msg, panic)) = build_row(sc, row, &mut b, true) {
        push(&mut out, "build", sc.kinds[i].name(), if panic { "setter-panic" } else { "setter-error" }, format!("set {} accepted", show(sc.cell(i, row[i]))), msg);
        return out;
    }
    let bytes = match vcore::catch(|| b.build()) {
        Ok(Ok(x)) => x,
        Ok(Err(e)) => {
            push(&mut out, "build", "row", "build-error", "Ok(bytes)".into(), e.to_string());
            return out;
        }
        Err(p) => {
            push(&mut out, "build", "row", "build-panic", "Ok(bytes)".into(), p);
            return out;
        }
    };
    // 2. null bitmap, read straight from the documented position
    let bm = sc.n().div_ceil(8);
    if bytes.len() < 2 + bm {
        push(&mut out, "bitmap", "row", "record-shorter-than-header", format!(">= {} bytes", 2 + bm), bytes.len().to_string());
        return out;
    }
    for i in 0..sc.n() {
        let bit = (bytes[2 + i / 8] >> (i % 8)) & 1 == 1;
        let wnull = matches!(want[i], C::Null);
        if bit != wnull {
            push(&mut out, "bitmap", sc.kinds[i].name(), if wnull { "bit-clear-for-null" } else { "bit-set-for-value" }, format!("bit {i} = {}", wnull as u8), format!("bit {i} = {}", bit as u8));
        }
    }
    // 3. view over the record's own buffer
    match RecordView::new(&bytes, &sc.schema) {
        Ok(v) => check_view(sc, &want, &v, "roundtrip", "", &mut out, rep),
        Err(e) => push(&mut out, "roundtrip", "row", "view-rejects-record", "Ok(view)".into(), e.to_string()),
    }
    // 4. embedded: other bytes before (odd offsets => every alignment) and after the record
    for (off, trailing, pre) in [(1usize, false, "after-prefix-"), (2, false, "after-prefix-"), (3, true, "with-trailing-bytes-")] {
        let mut buf = vec![0xA5u8; off];
        buf.extend_from_slice(&bytes);
        buf.extend_from_slice(&[0x5A; 9]);
        let slice = if trailing { &buf[off..] } else { &buf[off..off + bytes.len()] };
        match RecordView::new(slice, &sc.schema) {
            Ok(v) => check_view(sc, &want, &v, "embedded", pre, &mut out, rep),
            Err(e) => push(&mut out, "embedded", "row", "view-rejects-record", "Ok(view)".into(), e.to_string()),
        }
    }
    // 5. implicit NULLs: a fresh builder on which NULL columns are simply never set
    {
        let mut b2 = RecordBuilder::new(&sc.schema);
        let r = build_row(sc, row, &mut b2, false).ok().and_then(|_| vcore::catch(|| b2.build().ok()).ok().flatten());
        if r.as_deref() != Some(&bytes[..]) {
            push(&mut out, "reset", "row", "unset-column-differs-from-set_null", "same bytes".into(), r.map(|x| region(sc, &bytes, &x).to_string()).unwrap_or("build failed".into()));
        }
    }
    // 6. reset: builder holding the prior row, reset, same row => identical bytes (three flavours)
    let kname = if sc.n() <= 2 { sc.kinds.iter().map(|k| k.name()).collect::<Vec<_>>().join("+") } else { "row".to_string() };
    {
        let mut b3 = RecordBuilder::new(&sc.schema);
        let _ = build_row(sc, prior, &mut b3, true);
        b3.reset();
        let r = build_row(sc, row, &mut b3, true).ok().and_then(|_| vcore::catch(|| b3.build().ok()).ok().flatten());
        match &r {
            Some(x) if x == &bytes => {}
            Some(x) => push(&mut out, "reset", &kname, &format!("after-reset-{}", region(sc, &bytes, x)), vcore::util::hex(&bytes[..bytes.len().min(64)]), vcore::util::hex(&x[..x.len().min(64)])),
            None => push(&mut out, "reset", &kname, "after-reset-build-failed", "Ok".into(), "error/panic".into()),
        }
        // build_into a dirty buffer
        let mut buf = vec![0xEEu8; 41];
        match vcore::catch(|| b3.build_into(&mut buf)) {
            Ok(Ok(())) if buf == bytes => {}
            Ok(Ok(())) => push(&mut out, "reset", &kname, &format!("build_into-{}", region(sc, &bytes, &buf)), "same bytes as build()".into(), vcore::util::hex(&buf[..buf.len().min(64)])),
            Ok(Err(e)) => push(&mut out, "reset", &kname, "build_into-error", "Ok".into(), e.to_string()),
            Err(p) => push(&mut out, "reset", &kname, "build_into-panic", "Ok".into(), p),
        }
        // RecordBuilderState::reset
        let mut b4 = RecordBuilder::new(&sc.schema);
        let _ = build_row(sc, prior, &mut b4, true);
        let mut st = b4.into_state();
        st.reset(&sc.schema);
        let mut b5 = st.into_builder(&sc.schema);
        let r = build_row(sc, row, &mut b5, true).ok().and_then(|_| vcore::catch(|| b5.build().ok()).ok().flatten());
        match &r {
            Some(x) if x == &bytes => {}
            Some(x) => push(&mut out, "reset", &kname, &format!("after-state-reset-{}", region(sc, &bytes, x)), vcore::util::hex(&bytes[..bytes.len().min(64)]), vcore::util::hex(&x[..x.len().min(64)])),
            None => push(&mut out, "reset", &kname, "after-state-reset-build-failed", "Ok".into(), "error/panic".into()),
        }
    }
    // 7. OwnedValue glue
    check_glue(sc, row, prior, rep, &mut out);
    if out.is_empty() {
        rep.outcome("row:all-oracles-hold");
    } else {
        for v in &out {
            rep.outcome(&format!("row:{}", v.sig));
        }
    }
    out
}

fn report(sc: &Sc, pass: &str, row: &[u8], prior: &[u8], viols: Vec<Viol>, rep: &mut Reporter) {
    for v in viols {
        let labels: Vec<&str> = (0..sc.n()).map(|i| sc.label(i, row[i])).collect();
        rep.violation("C31", v.oracle, &v.sig, || json!({"pass": pass, "kinds": sc.kinds_json(), "row": row, "prior": prior, "row_labels": labels}), &v.expected, &v.observed);
    }
}

// ------------------------------------------------------------------------------------------
// robustness pass: every getter x every column index must return, never panic
// ------------------------------------------------------------------------------------------
type G = (&'static str, fn(&RecordView<'_>, usize) -> bool);
macro_rules! getters {
    ($($n:ident),* $(,)?) => { &[ $( (stringify!($n), (|v, i| v.$n(i).is_ok()) as fn(&RecordView<'_>, usize) -> bool) ),* ] };
}
const GETTERS: &[G] = getters!(
    get_bool, get_int2, get_int4, get_int8, get_float4, get_float8, get_date, get_time, get_timestamp, get_uuid, get_macaddr,
    get_text, get_char, get_varchar, get_blob, get_var_raw, get_vector, get_vector_copy, get_jsonb, get_timestamptz, get_inet4,
    get_inet6, get_interval, get_enum, get_point, get_box, get_circle, get_int4_range, get_int8_range, get_date_range,
    get_timestamp_range, get_decimal, get_array, get_var_bounds,
    get_bool_opt, get_int2_opt, get_int4_opt, get_int8_opt, get_float4_opt, get_float8_opt, get_date_opt, get_time_opt,
    get_timestamp_opt, get_uuid_opt, get_macaddr_opt, get_text_opt, get_blob_opt, get_vector_opt, get_jsonb_opt,
    get_timestamptz_opt, get_inet4_opt, get_inet6_opt, get_interval_opt, get_enum_opt, get_point_opt, get_box_opt,
    get_circle_opt, get_int4_range_opt, get_int8_range_opt, get_date_range_opt, get_timestamp_range_opt, get_decimal_opt,
    get_array_opt
);
const GETTERS2: &[G] = &[("get_composite", |v, i| v.get_composite(i, 2).is_ok()), ("get_composite_opt", |v, i| v.get_composite_opt(i, 2).is_ok())];

fn all_getters() -> impl Iterator<Item = &'static G> {
    GETTERS.iter().chain(GETTERS2.iter())
}

/// getters that are the declared access path of a kind (a panic there is not a "wrong type" case)
fn native(k: K, g: &str) -> bool {
    let base = g.trim_end_matches("_opt");
    let own: &[&str] = match k {
        Bool => &["get_bool"], Int2 => &["get_int2"], Int4 => &["get_int4"], Int8 => &["get_int8"], Float4 => &["get_float4"],
        Float8 => &["get_float8"], Date => &["get_date"], Time => &["get_time"], Timestamp => &["get_timestamp"],
        TimestampTz => &["get_timestamptz"], Uuid => &["get_uuid"], MacAddr => &["get_macaddr"], Inet4 => &["get_inet4"],
        Inet6 => &["get_inet6"], Text | Varchar | Char => &["get_text", "get_char", "get_varchar", "get_blob", "get_var_raw", "get_var_bounds"],
        Blob => &["get_blob", "get_var_raw", "get_var_bounds"], Vector => &["get_vector", "get_vector_copy", "get_var_raw", "get_var_bounds"],
        Jsonb => &["get_jsonb", "get_var_raw", "get_var_bounds"], Decimal => &["get_decimal", "get_var_raw", "get_var_bounds"],
        Interval => &["get_interval"], Int4Range => &["get_int4_range"], DateRange => &["get_date_range", "get_int4_range"],
        Int8Range => &["get_int8_range"], TimestampRange => &["get_timestamp_range", "get_int8_range"], Enum => &["get_enum"],
        Point => &["get_point"], Box => &["get_box"], Circle => &["get_circle"], Composite => &["get_composite", "get_var_raw", "get_var_bounds"],
        Array => &["get_array", "get_var_raw", "get_var_bounds"],
    };
    own.contains(&base)
}

fn panic_file(p: &str) -> String {
    // "message @ /repo/src/records/view.rs:123" -> "view.rs"
    p.rsplit(" @ ").next().and_then(|loc| loc.rsplit('/').next()).map(|f| f.split(':').next().unwrap_or("").to_string()).filter(|s| !s.is_empty()).unwrap_or_else(|| "unknown".into())
}

fn robust_one(sc: &Sc, row: &[u8], bytes: &[u8], g: &G, idx: usize, rep: &mut Reporter) {
    let Ok(view) = RecordView::new(bytes, &sc.schema) else { return };
    let r = vcore::catch(|| (g.1)(&view, idx));
    let situation = if idx >= sc.n() {
        "index-out-of-range"
    } else if native(sc.kinds[idx], g.0) {
        "declared-type"
    } else {
        "wrong-type"
    };
    match r {
        Ok(true) => {
            rep.count(&format!("robust_{situation}_ok"), 1);
            rep.outcome(&format!("robust:{situation}:Ok"));
        }
        Ok(false) => {
            rep.count(&format!("robust_{situation}_err"), 1);
            rep.outcome(&format!("robust:{situation}:Err"));
        }
        Err(p) => {
            rep.outcome(&format!("robust:{situation}:panic"));
            rep.count(&format!("robust_{situation}_panic"), 1);
            let sig = format!("C31/robust/{}/{}/panic@{}", g.0, situation, panic_file(&p));
            let what = if idx >= sc.n() { format!("{}({idx}) on a {}-column record", g.0, sc.n()) } else { format!("{}({idx}) on a {} column", g.0, sc.kinds[idx].name()) };
            rep.violation("C31", "robust", &sig, || json!({"pass": "robust", "kinds": sc.kinds_json(), "row": row, "getter": g.0, "idx": idx}), &format!("{what} returns Ok or Err"), &p);
        }
    }
}

fn robust_schema(sc: &Sc, rep: &mut Reporter) {
    let n = sc.n();
    // rows: all NULL, all typical (or max for Bool), all min/empty
    let rows: Vec<Vec<u8>> = vec![vec![0; n], (0..n).map(|i| 3u8.min(dom(sc.kinds[i]).len() as u8 - 1)).collect(), vec![1; n]];
    for row in rows {
        let mut b = RecordBuilder::new(&sc.schema);
        if build_row(sc, &row, &mut b, true).is_err() {
            continue; // reported by the round-trip passes
        }
        let Ok(bytes) = b.build() else { continue };
        for g in all_getters() {
            for idx in (0..n).chain([n, n + 7]) {
                robust_one(sc, &row, &bytes, g, idx, rep);
            }
        }
        rep.bulk(1, 1);
    }
}

// ------------------------------------------------------------------------------------------
// enumeration
// ------------------------------------------------------------------------------------------
/// all ordered selections with repetition of length 1..=maxlen over `list`, shortest first
fn selections(list: &[K], maxlen: usize) -> Vec<Vec<K>> {
    let mut out = Vec::new();
    for len in 1..=maxlen {
        let total = list.len().pow(len as u32);
        for code in 0..total {
            let mut x = code;
            let mut v = vec![list[0]; len];
            for p in (0..len).rev() {
                v[p] = list[x % list.len()];
                x /= list.len();
            }
            out.push(v);
        }
    }
    out
}

/// full cross product of the column domains, all-NULL row first; prior row = the previous row of
/// the enumeration (the all-"max" row for the first one)
fn small_schema(sc: &Sc, pass: &str, rep: &mut Reporter) {
    let n = sc.n();
    let sizes: Vec<u8> = sc.kinds.iter().map(|k| dom(*k).len() as u8).collect();
    let mut row = vec![0u8; n];
    let mut prior: Vec<u8> = sc.kinds.iter().map(|k| largest(*k)).collect();
    let mut rows = 0u64;
    loop {
        let v = check_row(sc, &row, &prior, rep);
        rows += 1;
        if !v.is_empty() {
            report(sc, pass, &row, &prior, v, rep);
        }
        prior.copy_from_slice(&row);
        // next row (last column fastest)
        let mut p = n;
        let mut done = true;
        while p > 0 {
            p -= 1;
            row[p] += 1;
            if row[p] < sizes[p] {
                done = false;
                break;
            }
            row[p] = 0;
        }
        if done {
            break;
        }
    }
    rep.bulk(rows, rows - 1); // every row except the all-NULL one carries a value
    rep.count("rows", rows);
    rep.count(&format!("schemas_{}col", n), 1);
}

const WIDE_N: [usize; 7] = [8, 9, 16, 17, 33, 64, 65];
/// kind layouts of the wide schemas
fn wide_kinds(n: usize, variant: usize) -> Vec<K> {
    let fixed: Vec<K> = ALL.iter().copied().filter(|k| !k.is_var()).collect();
    let var: Vec<K> = ALL.iter().copied().filter(|k| k.is_var()).collect();
    (0..n)
        .map(|i| match variant {
            0 => ALL[i % 32],                                                  // declaration order of all 32 types
            1 => if i % 2 == 0 { fixed[(i / 2) % fixed.len()] } else { var[(i / 2) % var.len()] }, // fixed/variable alternate
            2 => var[i % var.len()],                                           // variable width only (largest offset table)
            _ => ALL[(31 + 13 * i) % 32],                                      // stride-13 permutation starting with a variable type
        })
        .collect()
}

/// Covering rows of a wide schema (the full product is astronomically large; this is the cap):
///  a. 6 uniform rows (every column takes value index j of its domain, clamped)
///  b. one-factor rows: base = all typical / all NULL, one column runs through its whole domain
///  c. windows: for each null-bitmap byte boundary b in {8,16,32,64}: the columns b-1, b, b+1 run
///     through the full cross product of their domains, the others typical / NULL
///  d. NULL patterns with typical values elsewhere: n <= 17: ALL 2^n patterns; n > 17: every
///     pattern of one bitmap byte (256) x the other bytes all-NULL / all-set, plus 0x55/0xAA stripes
fn wide_rows(sc: &Sc) -> Vec<Vec<u8>> {
    let n = sc.n();
    let size = |c: usize| dom(sc.kinds[c]).len() as u8;
    let typ = |c: usize| 3u8.min(size(c) - 1);
    let mut rows: Vec<Vec<u8>> = Vec::new();
    for j in 0..7u8 {
        rows.push((0..n).map(|c| j.min(size(c) - 1)).collect());
    }
    for base_null in [false, true] {
        let base: Vec<u8> = (0..n).map(|c| if base_null { 0 } else { typ(c) }).collect();
        for c in 0..n {
            for v in 0..size(c) {
                let mut r = base.clone();
                r[c] = v;
                rows.push(r);
            }
        }
        for b in [8usize, 16, 32, 64] {
            let cols: Vec<usize> = [b - 1, b, b + 1].into_iter().filter(|c| *c < n).collect();
            if cols.len() < 2 {
                continue;
            }
            let mut cur = vec![0u8; cols.len()];
            loop {
                let mut r = base.clone();
                for (j, c) in cols.iter().enumerate() {
                    r[*c] = cur[j];
                }
                rows.push(r);
                let mut p = cols.len();
                let mut done = true;
                while p > 0 {
                    p -= 1;
                    cur[p] += 1;
                    if cur[p] < size(cols[p]) {
                        done = false;
                        break;
                    }
                    cur[p] = 0;
                }
                if done {
                    break;
                }
            }
        }
    }
    if n <= 17 {
        for m in 0u32..(1 << n) {
            rows.push((0..n).map(|c| if m >> c & 1 == 1 { 0 } else { typ(c) }).collect());
        }
    } else {
        for byte in 0..n.div_ceil(8) {
            for others_null in [false, true] {
                for pat in 0u32..256 {
                    rows.push(
                        (0..n)
                            .map(|c| {
                                let null = if c / 8 == byte { pat >> (c % 8) & 1 == 1 } else { others_null };
                                if null { 0 } else { typ(c) }
                            })
                            .collect(),
                    );
                }
            }
        }
        for phase in 0..2 {
            rows.push((0..n).map(|c| if c % 2 == phase { 0 } else { typ(c) }).collect());
        }
    }
    rows
}

fn parse_kinds(case: &Value) -> Vec<K> {
    case["kinds"].as_array().map(|a| a.iter().filter_map(|x| x.as_str().and_then(K::from_name)).collect()).unwrap_or_default()
}
fn parse_row(v: &Value) -> Vec<u8> {
    v.as_array().map(|a| a.iter().map(|x| x.as_u64().unwrap_or(0) as u8).collect()).unwrap_or_default()
}

struct C31;

impl Check for C31 {
    fn specs(&self) -> Vec<Spec> {
        let mut s = Spec::new(
            "C31",
            "exploration",
            "a case is one (schema, row, prior row): the row is built with the typed RecordBuilder setters, read back with every RecordView getter flavour (plain, _opt, zero-copy) from its own buffer and embedded at offsets 1,2,3 with/without trailing bytes, rebuilt after reset/state-reset/build_into on a builder that held the prior row, and pushed through the OwnedValue glue. Schemas: every ordered selection with repetition of 1..=3 of the 32 record data types (33,824 schemas; thorough adds all 4-type selections of a 16-type list = 65,536) x the FULL cross product of the per-type domains {NULL,min,max,typical + empty/300-byte/-0.0/NaN/multibyte/toast-lookalike extras} (3..7 values per type); 28 wide schemas (8,9,16,17,33,64,65 columns x 4 type layouts) x covering rows (uniform, one-factor, full product over the 3 columns around every null-bitmap byte boundary, all 2^n NULL patterns for n<=17, every pattern of each bitmap byte for n>17); robustness: 65 getters x every column index incl. n and n+7 on all 1..=2-type schemas x 3 rows. Distinct by construction (each schema/row enumerated once); non-trivial = row has at least one non-NULL value.",
        );
        s.assumptions = &[
            "expected values are the harness's own inputs (floats as bit patterns); the only format knowledge used by the oracle is the documented null-bitmap position (byte 2 + i/8, bit i%8)",
            "CHAR(n) is expected to blank-pad to n characters (builder contract); composite payloads are opaque bytes for the row format",
            "RecordView::get_vector may refuse with 'not aligned' exactly when the float payload is misaligned in the buffer (documented zero-copy limitation); get_vector_copy/_opt must always succeed",
            "records stay below the u16 offset limit (largest record about 20 KB)",
        ];
        s.cap_quick_s = 100;
        s.cap_thorough_s = 1500;
        vec![s]
    }

    fn run(&self, ctx: &Ctx, rep: &mut Reporter) {
        // recorded first so that a capped run still carries a sample
        rep.sample(|| json!({"pass": "small", "kinds": ["Int2", "Text", "Float4"], "row": [1, 2, 5], "meaning": "Int2 MIN, 300-byte text, NaN"}));
        for name in ["rows", "glue_rows", "wide_rows", "robust_index-out-of-range_err", "robust_wrong-type_err", "robust_declared-type_ok", "zero_copy_vector_ok", "zero_copy_vector_refused_misaligned"] {
            rep.expect_nonzero(name);
        }
        let mut idx = 0u64;
        let only = ctx.opt("pass");
        let on = |p: &str| only.map(|o| o == p).unwrap_or(true);

        // ---- pass small: 1..=3 of all 32 kinds ------------------------------------------------
        if on("small") {
            let maxlen = ctx.opt("maxlen").and_then(|s| s.parse().ok()).unwrap_or(3usize);
            rep.bound("small_schema_max_columns_all_32_types", json!(maxlen));
            for (si, kinds) in selections(&ALL, maxlen).into_iter().enumerate() {
                idx += 1;
                if !ctx.mine(idx) {
                    continue;
                }
                let sc = Sc::new(&kinds);
                small_schema(&sc, "small", rep);
                if si % 64 == 0 && ctx.expired() {
                    rep.capped("deadline in pass small");
                    return;
                }
            }
        }
        // ---- pass robust ------------------------------------------------------------------------
        if on("robust") {
            let maxlen = 2usize;
            rep.bound("robust_schema_max_columns", json!(maxlen));
            for kinds in selections(&ALL, maxlen) {
                idx += 1;
                if !ctx.mine(idx) {
                    continue;
                }
                robust_schema(&Sc::new(&kinds), rep);
            }
            if !ctx.quick() {
                // thorough: 3-column schemas over the reduced list
                for kinds in selections(&REDUCED, 3).into_iter().filter(|k| k.len() == 3) {
                    idx += 1;
                    if !ctx.mine(idx) {
                        continue;
                    }
                    robust_schema(&Sc::new(&kinds), rep);
                    if ctx.expired() {
                        rep.capped("deadline in pass robust");
                        return;
                    }
                }
            }
        }
        // ---- pass wide --------------------------------------------------------------------------
        if on("wide") {
            rep.bound("wide_column_counts", json!(WIDE_N));
            rep.bound("wide_all_null_patterns_up_to_columns", json!(17));
            for n in WIDE_N {
                for variant in 0..4 {
                    let sc = Sc::new(&wide_kinds(n, variant));
                    let rows = wide_rows(&sc);
                    let largest_row: Vec<u8> = sc.kinds.iter().map(|k| largest(*k)).collect();
                    for (ri, chunk) in rows.chunks(64).enumerate() {
                        idx += 1;
                        if !ctx.mine(idx) {
                            continue;
                        }
                        for (j, row) in chunk.iter().enumerate() {
                            // prior: the largest row for the first row of a chunk, else the previous row
                            let prior = if j == 0 { &largest_row } else { &chunk[j - 1] };
                            let v = check_row(&sc, row, prior, rep);
                            if !v.is_empty() {
                                report(&sc, "wide", row, prior, v, rep);
                            }
                        }
                        // rows of different generators may coincide: hash instead of bulk
                        for row in chunk {
                            rep.case(vcore::util::hash_of(&(n, variant, row)), row.iter().any(|x| *x != 0));
                        }
                        rep.count("wide_rows", chunk.len() as u64);
                        if ri % 16 == 0 && ctx.expired() {
                            rep.capped("deadline in pass wide");
                            return;
                        }
                    }
                    rep.count(&format!("wide_schemas_{n}col"), (ctx.worker == 0) as u64);
                }
            }
        }
        // ---- pass small4 (thorough): 4 columns over the reduced list ---------------------------
        if on("small4") && !ctx.quick() {
            rep.bound("small4_types", json!(REDUCED.iter().map(|k| k.name()).collect::<Vec<_>>()));
            for kinds in selections(&REDUCED, 4).into_iter().filter(|k| k.len() == 4) {
                idx += 1;
                if !ctx.mine(idx) {
                    continue;
                }
                small_schema(&Sc::new(&kinds), "small4", rep);
                if ctx.expired() {
                    rep.capped("deadline in pass small4");
                    return;
                }
            }
        }
    }

    fn replay(&self, _ctx: &Ctx, case: &Value, rep: &mut Reporter) {
        let kinds = parse_kinds(case);
        let sc = Sc::new(&kinds);
        let row = parse_row(&case["row"]);
        if row.len() != sc.n() || sc.n() == 0 {
            rep.note("replay: malformed case");
            return;
        }
        rep.case(vcore::util::hash_of(&(&kinds, &row)), true);
        if case["pass"] == "robust" {
            let mut b = RecordBuilder::new(&sc.schema);
            if build_row(&sc, &row, &mut b, true).is_err() {
                return;
            }
            let Ok(bytes) = b.build() else { return };
            let gname = case["getter"].as_str().unwrap_or("");
            let idx = case["idx"].as_u64().unwrap_or(0) as usize;
            if let Some(g) = all_getters().find(|g| g.0 == gname) {
                robust_one(&sc, &row, &bytes, g, idx, rep);
            }
            return;
        }
        let prior = parse_row(&case["prior"]);
        let prior = if prior.len() == sc.n() { prior } else { vec![0; sc.n()] };
        let pass = case["pass"].as_str().unwrap_or("small").to_string();
        let v = check_row(&sc, &row, &prior, rep);
        report(&sc, &pass, &row, &prior, v, rep);
    }
}

fn main() {
    // the value domains are built once, outside any oracle
    let _ = domains();
    vcore::main(&C31)
}
