//! C04 — close, reopen and checkpoint preserve the logical database.
//!
//! Differential model checking (engine SQLH): every history over a small,
//! collision-forcing DDL/DML alphabet is executed on twin fresh databases.
//! The twins differ ONLY in the maintenance operations (checkpoint(), PRAGMA
//! wal_checkpoint, drop+open, close()+open, arming the automatic checkpoint)
//! that one of them performs at a chosen position.  Every statement result and
//! the full final observation (schema, rows as bags, COUNT(*), PK / secondary
//! index point and range probes, next AUTO_INCREMENT value) must be identical.
//! No reference semantics are needed, so TurDB's SQL-semantics defects cancel.
//!
//! The history tree is explored depth first; a (maintenance combo) that has
//! diverged on a prefix is not extended (stop at divergence).  Every fresh
//! divergence is delta-debugged (remove ops, replace ops by simpler ones,
//! simplify the schema variant) to a 1-minimal history which names the
//! signature, so that all manifestations of one defect share one signature.
use checks::sqlh::{self, Res, TestDb};
use std::collections::{BTreeSet, HashMap};
use std::rc::Rc;
use turdb::OwnedValue;
use vcore::{json, Check, Ctx, Reporter, Spec, Value};

const PROP: &str = "C04";

// ---------------------------------------------------------------------------
// alphabet
// ---------------------------------------------------------------------------

/// schema variant of table `t` (always columns id, a, s)
#[derive(Clone, Copy, PartialEq, Eq, Hash, PartialOrd, Ord, Debug)]
enum Var {
    NoPk,
    Pk,
    PkIdx,
    Auto,
    Big,
    Fixed,
}
const ALL_VARS: [Var; 6] = [Var::NoPk, Var::Pk, Var::Fixed, Var::PkIdx, Var::Auto, Var::Big];
impl Var {
    fn name(self) -> &'static str {
        match self {
            Var::NoPk => "nopk",
            Var::Pk => "pk",
            Var::PkIdx => "pkidx",
            Var::Auto => "auto",
            Var::Big => "big",
            Var::Fixed => "fixed",
        }
    }
    fn parse(s: &str) -> Option<Var> {
        ALL_VARS.iter().copied().find(|v| v.name() == s)
    }
    /// simpler variants, simplest first (delta debugging)
    fn simpler(self) -> Vec<Var> {
        match self {
            Var::NoPk => vec![],
            Var::Pk => vec![Var::NoPk],
            _ => vec![Var::NoPk, Var::Pk],
        }
    }
    fn create_sql(self) -> Vec<String> {
        match self {
            Var::NoPk => vec!["CREATE TABLE t(id INT, a INT, s TEXT)".into()],
            Var::Pk | Var::Big => vec!["CREATE TABLE t(id INT PRIMARY KEY, a INT, s TEXT)".into()],
            Var::PkIdx => vec!["CREATE TABLE t(id INT PRIMARY KEY, a INT, s TEXT)".into(), "CREATE INDEX t_a ON t(a)".into()],
            Var::Auto => vec!["CREATE TABLE t(id INT PRIMARY KEY AUTO_INCREMENT, a INT, s TEXT)".into()],
            // fixed-width columns only (no variable-length value anywhere in the row)
            Var::Fixed => vec!["CREATE TABLE t(id INT PRIMARY KEY, a INT, s INT)".into()],
        }
    }
}

#[derive(Clone, Copy, PartialEq, Eq, Hash, PartialOrd, Ord, Debug)]
enum Op {
    Ins(u8),
    Ins2(u8, u8),
    Upd(u8),
    /// fixed-width in-place update by primary key: only the INT column changes (row size unchanged)
    UpdA(u8),
    UpdAll,
    Del(u8),
    DelAll,
    Trunc,
    CIdx,
    AddCol,
    InsA,
    TxnIns(u8),
    TxnUpdAll,
    CreateU,
    InsU,
    Prep(u8, u8),
}

/// every op the harness knows, in "simplicity" order (rank = index)
fn universe() -> Vec<Op> {
    let mut v = vec![];
    for k in 1..=3 {
        v.push(Op::Ins(k));
    }
    for k in 1..=3 {
        v.push(Op::Upd(k));
    }
    for k in 1..=3 {
        v.push(Op::UpdA(k));
    }
    for k in 1..=3 {
        v.push(Op::Del(k));
    }
    v.push(Op::UpdAll);
    v.push(Op::DelAll);
    v.push(Op::Trunc);
    v.push(Op::InsA);
    for (a, b) in [(1, 2), (2, 3), (3, 1)] {
        v.push(Op::Ins2(a, b));
    }
    for k in 1..=3 {
        v.push(Op::TxnIns(k));
    }
    v.push(Op::TxnUpdAll);
    for (a, b) in [(1, 2), (2, 3), (3, 1)] {
        v.push(Op::Prep(a, b));
    }
    v.push(Op::CIdx);
    v.push(Op::AddCol);
    v.push(Op::CreateU);
    v.push(Op::InsU);
    v
}
fn rank(op: Op) -> usize {
    universe().iter().position(|o| *o == op).unwrap_or(usize::MAX)
}

impl Op {
    fn name(self) -> String {
        match self {
            Op::Ins(k) => format!("INS{k}"),
            Op::Ins2(a, b) => format!("INS2_{a}{b}"),
            Op::Upd(k) => format!("UPD{k}"),
            Op::UpdA(k) => format!("UPDA{k}"),
            Op::UpdAll => "UPDALL".into(),
            Op::Del(k) => format!("DEL{k}"),
            Op::DelAll => "DELALL".into(),
            Op::Trunc => "TRUNC".into(),
            Op::CIdx => "CIDX".into(),
            Op::AddCol => "ADDCOL".into(),
            Op::InsA => "INSA".into(),
            Op::TxnIns(k) => format!("TXN_INS{k}"),
            Op::TxnUpdAll => "TXN_UPDALL".into(),
            Op::CreateU => "CU".into(),
            Op::InsU => "IU".into(),
            Op::Prep(a, b) => format!("PREP_{a}{b}"),
        }
    }
    fn parse(s: &str) -> Option<Op> {
        universe().into_iter().find(|o| o.name() == s)
    }
    /// strictly simpler replacement candidates (delta debugging)
    fn simpler(self) -> Vec<Op> {
        let c: Vec<Op> = match self {
            Op::Ins(_) => vec![Op::Ins(1), Op::Ins(2)],
            Op::Ins2(a, b) => vec![Op::Ins(1), Op::Ins(a), Op::Ins(b), Op::Ins2(1, 2)],
            Op::InsA => vec![Op::Ins(1)],
            Op::TxnIns(k) => vec![Op::Ins(1), Op::Ins(k), Op::TxnIns(1)],
            Op::TxnUpdAll => vec![Op::Upd(1), Op::UpdAll],
            Op::Upd(_) => vec![Op::Upd(1), Op::Upd(2)],
            Op::UpdA(_) => vec![Op::UpdA(1), Op::UpdA(2)],
            Op::UpdAll => vec![Op::Upd(1)],
            Op::Del(_) => vec![Op::Del(1), Op::Del(2)],
            Op::DelAll => vec![Op::Del(1)],
            Op::Trunc => vec![Op::Del(1), Op::DelAll],
            Op::Prep(a, b) => vec![Op::Ins(1), Op::Ins(a), Op::Ins2(1, 2), Op::Ins2(a, b), Op::Prep(1, 2)],
            Op::InsU => vec![Op::Ins(1)],
            Op::CIdx | Op::AddCol | Op::CreateU => vec![],
        };
        let r = rank(self);
        c.into_iter().filter(|o| rank(*o) < r).collect()
    }
    /// number of row ids this op may consume (upper bound; for the row-id compensation)
    fn insert_rows(self) -> u64 {
        match self {
            Op::Ins(_) | Op::InsA | Op::TxnIns(_) | Op::InsU => 1,
            Op::Ins2(..) | Op::Prep(..) => 2,
            _ => 0,
        }
    }
}

fn text_val(var: Var, step: usize, tag: char) -> String {
    if var == Var::Big {
        // 1.5 KB value: above the 1000-byte TOAST threshold
        let c = (b'a' + (step % 26) as u8) as char;
        let mut s = String::with_capacity(1502);
        s.push(tag);
        for _ in 0..1500 {
            s.push(c);
        }
        s
    } else {
        format!("{tag}{step}")
    }
}

#[derive(Clone, Copy, PartialEq, Eq, Hash, PartialOrd, Ord, Debug)]
enum Maint {
    Ckpt,
    PragmaCkpt,
    Reopen,
    CloseReopen,
    AutoCkpt,
    /// drop + open WITHOUT re-issuing the pragmas: WAL stays off from here on (pass wal-left-off)
    ReopenNoPragma,
    /// close() + open without re-issuing the pragmas
    CloseReopenNoPragma,
}
const ALL_MAINT: [Maint; 7] = [Maint::Ckpt, Maint::PragmaCkpt, Maint::Reopen, Maint::CloseReopen, Maint::AutoCkpt, Maint::ReopenNoPragma, Maint::CloseReopenNoPragma];
/// the maintenance ops of the generic passes
const STD_MAINT: [Maint; 5] = [Maint::Ckpt, Maint::PragmaCkpt, Maint::Reopen, Maint::CloseReopen, Maint::AutoCkpt];
impl Maint {
    fn name(self) -> &'static str {
        match self {
            Maint::Ckpt => "checkpoint",
            Maint::PragmaCkpt => "pragma_wal_checkpoint",
            Maint::Reopen => "reopen",
            Maint::CloseReopen => "close_reopen",
            Maint::ReopenNoPragma => "reopen_nopragma",
            Maint::CloseReopenNoPragma => "close_reopen_nopragma",
            Maint::AutoCkpt => "auto_checkpoint",
        }
    }
    fn parse(s: &str) -> Option<Maint> {
        ALL_MAINT.iter().copied().find(|m| m.name() == s)
    }
    fn is_reopen(self) -> bool {
        matches!(self, Maint::Reopen | Maint::CloseReopen | Maint::ReopenNoPragma | Maint::CloseReopenNoPragma)
    }
}

/// database configuration (pragmas are process-memory only: re-applied after every reopen)
#[derive(Clone, Copy, PartialEq, Eq, Hash, PartialOrd, Ord, Debug)]
struct Cfg {
    wal: bool,
    /// 0 = not set (default FULL), 1 OFF, 2 NORMAL, 3 FULL
    sync: u8,
    /// 0 = not set (default ON), 1 = OFF, 2 = ON
    autoflush: u8,
    /// 0 = not set (default 1000)
    threshold: u32,
}
impl Cfg {
    const DEFAULT: Cfg = Cfg { wal: false, sync: 0, autoflush: 0, threshold: 0 };
    fn wal(on: bool) -> Cfg {
        Cfg { wal: on, ..Cfg::DEFAULT }
    }
    fn pragmas(self) -> Vec<String> {
        let mut v = vec![];
        if self.wal {
            v.push("PRAGMA wal=ON".to_string());
        }
        match self.sync {
            1 => v.push("PRAGMA synchronous=OFF".into()),
            2 => v.push("PRAGMA synchronous=NORMAL".into()),
            3 => v.push("PRAGMA synchronous=FULL".into()),
            _ => {}
        }
        match self.autoflush {
            1 => v.push("PRAGMA wal_autoflush=OFF".into()),
            2 => v.push("PRAGMA wal_autoflush=ON".into()),
            _ => {}
        }
        if self.threshold > 0 {
            v.push(format!("PRAGMA wal_checkpoint_threshold={}", self.threshold));
        }
        v
    }
    fn wal_name(self) -> &'static str {
        if self.wal {
            "wal-on"
        } else {
            "wal-off"
        }
    }
    fn to_json(self) -> Value {
        json!({"wal": self.wal, "sync": self.sync, "autoflush": self.autoflush, "threshold": self.threshold})
    }
    fn from_json(v: &Value) -> Cfg {
        Cfg {
            wal: v["wal"].as_bool().unwrap_or(false),
            sync: v["sync"].as_u64().unwrap_or(0) as u8,
            autoflush: v["autoflush"].as_u64().unwrap_or(0) as u8,
            threshold: v["threshold"].as_u64().unwrap_or(0) as u32,
        }
    }
}

type MaintList = Vec<(u8, Maint)>;

/// one fully specified execution
#[derive(Clone, PartialEq, Eq, Hash, Debug)]
struct RunKey {
    var: Var,
    ops: Vec<Op>,
    cfg: Cfg,
    /// (position, op): performed before step `position` (0 = before CREATE, n = after the last step)
    maint: MaintList,
    /// known-defect avoidance: side table zz + re-advancing the row-id counter after a reopen
    comp: bool,
}
impl RunKey {
    fn steps(&self) -> usize {
        1 + self.ops.len()
    }
    fn twin(&self) -> RunKey {
        RunKey { maint: vec![], ..self.clone() }
    }
    /// op pattern with the maintenance points marked `M`; keys are renamed a,b,c by first appearance so
    /// that histories differing only by a key permutation share a signature
    fn pattern(&self) -> String {
        let mut seen: Vec<u8> = vec![];
        let mut letter = |k: u8| -> char {
            let i = match seen.iter().position(|x| *x == k) {
                Some(i) => i,
                None => {
                    seen.push(k);
                    seen.len() - 1
                }
            };
            (b'a' + i as u8) as char
        };
        let mut toks: Vec<String> = vec![];
        for s in 0..=self.steps() {
            for (p, _) in &self.maint {
                if *p as usize == s {
                    toks.push("M".into());
                }
            }
            if s == 0 {
                toks.push(format!("T:{}", self.var.name()));
            } else if s <= self.ops.len() {
                toks.push(match self.ops[s - 1] {
                    Op::Ins(k) => format!("INS[{}]", letter(k)),
                    Op::Ins2(a, b) => {
                        let (x, y) = (letter(a), letter(b));
                        format!("INS2[{x}{y}]")
                    }
                    Op::Upd(k) => format!("UPD[{}]", letter(k)),
                    Op::UpdA(k) => format!("UPDA[{}]", letter(k)),
                    Op::Del(k) => format!("DEL[{}]", letter(k)),
                    Op::TxnIns(k) => format!("TXN_INS[{}]", letter(k)),
                    Op::Prep(a, b) => {
                        let (x, y) = (letter(a), letter(b));
                        format!("PREP[{x}{y}]")
                    }
                    o => o.name(),
                });
            }
        }
        toks.join("+")
    }
    fn maint_name(&self) -> String {
        self.maint.iter().map(|(_, m)| m.name()).collect::<Vec<_>>().join("+")
    }
    fn to_json(&self) -> Value {
        json!({
            "variant": self.var.name(),
            "ops": self.ops.iter().map(|o| o.name()).collect::<Vec<_>>(),
            "cfg": self.cfg.to_json(),
            "maint": self.maint.iter().map(|(p, m)| json!({"pos": p, "op": m.name()})).collect::<Vec<_>>(),
            "compensate_rowid": self.comp,
        })
    }
    fn from_json(v: &Value) -> Option<RunKey> {
        let var = Var::parse(v["variant"].as_str()?)?;
        let mut ops = vec![];
        for o in v["ops"].as_array()? {
            ops.push(Op::parse(o.as_str()?)?);
        }
        let mut maint = vec![];
        for m in v["maint"].as_array()? {
            maint.push((m["pos"].as_u64()? as u8, Maint::parse(m["op"].as_str()?)?));
        }
        Some(RunKey { var, ops, cfg: Cfg::from_json(&v["cfg"]), maint, comp: v["compensate_rowid"].as_bool().unwrap_or(false) })
    }
}

// ---------------------------------------------------------------------------
// execution
// ---------------------------------------------------------------------------

#[derive(Default, Clone, Debug)]
struct RunStats {
    maint_by_kind: [u64; 7],
    ckpt_frames_moved: u64,
    ckpt_wal_truncated: u64,
    reopens: u64,
    auto_ckpt_commits: u64,
    statements: u64,
    burned: u64,
}

#[derive(Clone, Debug)]
struct Trace {
    /// results per step (step 0 = CREATE statements)
    steps: Vec<Vec<Res>>,
    /// a maintenance op / pragma that failed: (position, description)
    maint_fail: Option<(usize, String)>,
    /// (kind, sql, result) — row results as sorted bags
    obs: Vec<(&'static str, String, Res)>,
    stats: RunStats,
    rows_final: usize,
    index_plan: bool,
    /// upper bound of the row ids handed out so far (rows of INSERT statements attempted + compensation inserts)
    ids_upper: u64,
}

fn same(a: &Res, b: &Res) -> bool {
    match (a, b) {
        (Res::Rows(x), Res::Rows(y)) => refmodel::val::bag(x) == refmodel::val::bag(y),
        (Res::Affected(n, x), Res::Affected(m, y)) => {
            n == m
                && match (x, y) {
                    (None, None) => true,
                    (Some(x), Some(y)) => refmodel::val::bag(x) == refmodel::val::bag(y),
                    _ => false,
                }
        }
        (Res::Done(x), Res::Done(y)) => x == y,
        // error text may legitimately differ (paths); the class is what is compared
        (Res::Err(_), Res::Err(_)) => true,
        (Res::Panic(_), Res::Panic(_)) => true,
        _ => false,
    }
}

/// SQL literal for column `s`: quoted text, or an integer for the fixed-width variant
fn s_lit(var: Var, step: usize, tag: char) -> String {
    if var == Var::Fixed {
        format!("{}", step * 10 + (tag as usize % 7))
    } else {
        format!("'{}'", text_val(var, step, tag))
    }
}

fn op_exec(t: &TestDb, var: Var, op: Op, step: usize) -> Vec<Res> {
    let ins = |k: u8, tag: char| format!("({k},{k},{})", s_lit(var, step, tag));
    match op {
        Op::Ins(k) => vec![t.exec(&format!("INSERT INTO t (id,a,s) VALUES {}", ins(k, 'i')))],
        Op::Ins2(a, b) => vec![t.exec(&format!("INSERT INTO t (id,a,s) VALUES {},{}", ins(a, 'i'), ins(b, 'j')))],
        Op::Upd(k) => vec![t.exec(&format!("UPDATE t SET a = {}, s = {} WHERE id = {k}", k % 3 + 1, s_lit(var, step, 'u')))],
        Op::UpdA(k) => vec![t.exec(&format!("UPDATE t SET a = {} WHERE id = {k}", k % 3 + 4 + (step as u8 % 2)))],
        Op::UpdAll => vec![t.exec("UPDATE t SET a = a + 1")],
        Op::Del(k) => vec![t.exec(&format!("DELETE FROM t WHERE id = {k}"))],
        Op::DelAll => vec![t.exec("DELETE FROM t")],
        Op::Trunc => vec![t.exec("TRUNCATE TABLE t")],
        Op::CIdx => vec![t.exec("CREATE INDEX t_a2 ON t(a)")],
        Op::AddCol => vec![t.exec("ALTER TABLE t ADD COLUMN z INT")],
        Op::InsA => vec![t.exec(&format!("INSERT INTO t (a,s) VALUES (1,{})", s_lit(var, step, 'n')))],
        Op::TxnIns(k) => vec![t.exec("BEGIN"), t.exec(&format!("INSERT INTO t (id,a,s) VALUES {}", ins(k, 'i'))), t.exec("COMMIT")],
        Op::TxnUpdAll => vec![t.exec("BEGIN"), t.exec("UPDATE t SET a = a + 1"), t.exec("COMMIT")],
        Op::CreateU => vec![t.exec("CREATE TABLE u(id INT PRIMARY KEY AUTO_INCREMENT, a INT)")],
        Op::InsU => vec![t.exec(&format!("INSERT INTO u (a) VALUES ({step})"))],
        Op::Prep(a, b) => {
            // prepared INSERT executed twice: the second execution takes the cached-plan path
            let db = t.db();
            let prepared = vcore::catch(|| db.prepare("INSERT INTO t (id,a,s) VALUES (?,?,?)").map_err(|e| format!("{e:#}")));
            match prepared {
                Err(p) => vec![Res::Panic(p)],
                Ok(Err(e)) => vec![Res::Err(e)],
                Ok(Ok(stmt)) => [(a, 'p'), (b, 'q')]
                    .iter()
                    .map(|(k, tag)| {
                        let r = vcore::catch(|| {
                            stmt.bind(OwnedValue::Int(*k as i64))
                                .bind(OwnedValue::Int(*k as i64))
                                .bind(if var == Var::Fixed { OwnedValue::Int((step * 10 + (*tag as usize % 7)) as i64) } else { OwnedValue::Text(text_val(var, step, *tag)) })
                                .execute(db)
                                .map_err(|e| format!("{e:#}"))
                        });
                        match r {
                            Ok(r) => sqlh::norm(r),
                            Err(p) => Res::Panic(p),
                        }
                    })
                    .collect(),
            }
        }
    }
}

fn apply_cfg(t: &TestDb, cfg: Cfg) -> Result<(), String> {
    for p in cfg.pragmas() {
        let r = t.exec(&p);
        if !r.ok() {
            return Err(format!("{p}: {}", r.show()));
        }
    }
    Ok(())
}

fn bagged(r: Res) -> Res {
    match r {
        Res::Rows(rows) => Res::Rows(refmodel::val::bag(&rows)),
        o => o,
    }
}

fn columns_of(t: &TestDb, table: &str) -> Res {
    let db = t.db();
    match vcore::catch(|| db.query_with_columns(&format!("SELECT * FROM {table}")).map_err(|e| format!("{e:#}"))) {
        Ok(Ok((cols, _))) => Res::Done(cols.join(",")),
        Ok(Err(e)) => Res::Err(e),
        Err(p) => Res::Panic(p),
    }
}

/// the full observation; the AUTO_INCREMENT probes write and therefore come last
fn observe_all(t: &TestDb, out: &mut Vec<(&'static str, String, Res)>) {
    out.push(("schema", "columns of t".into(), columns_of(t, "t")));
    out.push(("schema", "columns of u".into(), columns_of(t, "u")));
    let mut q = |kind: &'static str, sql: String| {
        let r = bagged(t.exec(&sql));
        out.push((kind, sql, r));
    };
    q("rows", "SELECT * FROM t".into());
    q("rows", "SELECT * FROM u".into());
    q("count", "SELECT COUNT(*) FROM t".into());
    q("count", "SELECT COUNT(*) FROM u".into());
    for k in 0..=4 {
        q("pk-lookup", format!("SELECT * FROM t WHERE id = {k}"));
    }
    q("pk-lookup", "SELECT * FROM t WHERE id >= 2".into());
    q("pk-lookup", "SELECT * FROM t WHERE id < 2".into());
    q("pk-lookup", "SELECT * FROM u WHERE id = 1".into());
    q("pk-lookup", "SELECT * FROM u WHERE id = 2".into());
    for v in 0..=4 {
        q("index-lookup", format!("SELECT * FROM t WHERE a = {v}"));
    }
    q("index-lookup", "SELECT * FROM t WHERE a >= 2".into());
    q("index-lookup", "SELECT * FROM t WHERE a < 3".into());
    // next AUTO_INCREMENT value: insert a probe row in BOTH twins and read it back
    q("autoinc", "INSERT INTO t (a,s) VALUES (77,'probe')".into());
    q("autoinc", "SELECT id FROM t WHERE a = 77".into());
    q("autoinc", "INSERT INTO u (a) VALUES (77)".into());
    q("autoinc", "SELECT id FROM u WHERE a = 77".into());
    q("count", "SELECT COUNT(*) FROM t".into());
}

fn do_maint(t: &mut TestDb, m: Maint, cfg: Cfg, burn: u64, ids_upper: &mut u64, armed: &mut bool, st: &mut RunStats) -> Result<(), String> {
    st.maint_by_kind[ALL_MAINT.iter().position(|x| *x == m).unwrap()] += 1;
    match m {
        Maint::Ckpt => {
            let db = t.db();
            match vcore::catch(|| db.checkpoint().map_err(|e| format!("{e:#}"))) {
                Ok(Ok(info)) => {
                    if info.frames_checkpointed > 0 {
                        st.ckpt_frames_moved += 1;
                    }
                    if info.wal_truncated {
                        st.ckpt_wal_truncated += 1;
                    }
                    Ok(())
                }
                Ok(Err(e)) => Err(format!("checkpoint() returned Err: {e}")),
                Err(p) => Err(format!("checkpoint() PANIC: {p}")),
            }
        }
        Maint::PragmaCkpt => match t.exec("PRAGMA wal_checkpoint") {
            Res::Done(tag) => {
                // "Pragma(WAL_CHECKPOINT,Some("checkpointed N frames"))"
                let moved = tag.split("checkpointed ").nth(1).and_then(|s| s.split(' ').next()).and_then(|n| n.parse::<u64>().ok()).unwrap_or(0);
                if moved > 0 {
                    st.ckpt_frames_moved += 1;
                }
                Ok(())
            }
            o => Err(format!("PRAGMA wal_checkpoint: {}", o.show())),
        },
        Maint::AutoCkpt => {
            // arm the automatic checkpoint: every later COMMIT whose WAL holds >= 1 frame checkpoints
            *armed = true;
            match t.exec("PRAGMA wal_checkpoint_threshold=1") {
                Res::Done(_) => Ok(()),
                o => Err(format!("PRAGMA wal_checkpoint_threshold=1: {}", o.show())),
            }
        }
        Maint::Reopen | Maint::CloseReopen | Maint::ReopenNoPragma | Maint::CloseReopenNoPragma => {
            st.reopens += 1;
            let np = matches!(m, Maint::ReopenNoPragma | Maint::CloseReopenNoPragma);
            if np && STALE_WAL_PLANT.with(|p| p.get()) {
                // harness self-test (`--opt plant=stale-wal`): emulate an open that forgets to truncate the WAL —
                // the session-1 log is saved before the first reopen and put back before the second one
                let wal_dir = t.dir.join("wal");
                let stash = t.dir.with_extension("walstash");
                let have = STALE_WAL_STASH.with(|s| s.get());
                if !have {
                    let _ = std::fs::remove_dir_all(&stash);
                    let _ = std::fs::create_dir_all(&stash);
                    if let Ok(rd) = std::fs::read_dir(&wal_dir) {
                        for e in rd.flatten() {
                            let _ = std::fs::copy(e.path(), stash.join(e.file_name()));
                        }
                    }
                    STALE_WAL_STASH.with(|s| s.set(true));
                } else {
                    if m == Maint::CloseReopenNoPragma {
                        if let Some(db) = &t.db {
                            let _ = vcore::catch(|| db.close().map(|_| ()));
                        }
                    }
                    let db = t.db.take();
                    let _ = vcore::catch(move || drop(db));
                    let _ = std::fs::create_dir_all(&wal_dir);
                    if let Ok(rd) = std::fs::read_dir(&stash) {
                        for e in rd.flatten() {
                            let _ = std::fs::copy(e.path(), wal_dir.join(e.file_name()));
                        }
                    }
                    let _ = std::fs::remove_dir_all(&stash);
                }
            }
            let r = if matches!(m, Maint::Reopen | Maint::ReopenNoPragma) || t.db.is_none() { t.reopen() } else { t.close_reopen() };
            r.map_err(|e| format!("{} failed: {e}", m.name()))?;
            if matches!(m, Maint::Reopen | Maint::CloseReopen) {
                // pragmas are not persisted: WAL is OFF again after a reopen
                apply_cfg(t, cfg).map_err(|e| format!("pragma after reopen failed: {e}"))?;
                if *armed {
                    let _ = t.exec("PRAGMA wal_checkpoint_threshold=1");
                }
            }
            // KF-C04-01 avoidance: the global row-id counter restarts at 1 on open; restore its exact
            // pre-reopen value (measured by a calibration run) by (possibly failing) inserts into the side
            // table zz — every attempt consumes one id
            for _ in 0..burn {
                let _ = t.exec("INSERT INTO zz (x) VALUES (0)");
            }
            st.burned += burn;
            *ids_upper += burn;
            Ok(())
        }
    }
}

thread_local! {
    /// harness self-test `--opt plant=stale-wal` (see do_maint)
    static STALE_WAL_PLANT: std::cell::Cell<bool> = std::cell::Cell::new(false);
    static STALE_WAL_STASH: std::cell::Cell<bool> = std::cell::Cell::new(false);
}
thread_local! {
    /// (create, statements+maintenance, observe, teardown) nanoseconds — diagnostics only (`--opt timing=1`)
    static TIMING: std::cell::RefCell<[u128; 4]> = std::cell::RefCell::new([0; 4]);
}
fn tick(slot: usize, t0: std::time::Instant) -> std::time::Instant {
    let now = std::time::Instant::now();
    TIMING.with(|t| t.borrow_mut()[slot] += (now - t0).as_nanos());
    now
}

/// (variant, stop step, ops executed before it, cfg, maintenance performed before it)
type CalKey = (Var, u8, Vec<Op>, Cfg, MaintList);

/// executes histories; owns the memo of calibrated row-id counter values
struct Runner {
    scratch: std::path::PathBuf,
    calib: HashMap<CalKey, u64>,
    calib_runs: u64,
}

impl Runner {
    /// Value of the database-global row-id counter just before maintenance op number `mi` (at step `s`)
    /// of `k`, measured on a separate calibration database: run the same prefix, insert one row into a
    /// fresh table `cal` (it receives id C), reopen (counter restarts at 1 — known finding KF-C04-01) and
    /// count the attempts until an INSERT into `cal` collides with that row.  0 = no collision observed
    /// (the counter survives a reopen: nothing to compensate).
    fn counter_before(&mut self, k: &RunKey, s: usize, mi: usize, depth: usize) -> u64 {
        let ck: CalKey = (k.var, s as u8, k.ops[..s.saturating_sub(1).min(k.ops.len())].to_vec(), k.cfg, k.maint[..mi].to_vec());
        if let Some(c) = self.calib.get(&ck) {
            return *c;
        }
        self.calib_runs += 1;
        let (tr, t) = self.drive(&format!("c{depth}"), k, Some((s, mi)), depth + 1);
        let c = match t {
            None => 0,
            Some(mut t) => {
                let limit = tr.ids_upper + 2;
                let _ = t.exec("CREATE TABLE cal(x INT)");
                let _ = t.exec("INSERT INTO cal (x) VALUES (0)");
                let mut c = 0;
                if t.reopen().is_ok() {
                    for j in 1..=limit {
                        if !t.exec("INSERT INTO cal (x) VALUES (1)").ok() {
                            c = j;
                            break;
                        }
                    }
                }
                c
            }
        };
        if self.calib.len() > 300_000 {
            self.calib.clear();
        }
        self.calib.insert(ck, c);
        c
    }

    fn execute(&mut self, name: &str, k: &RunKey) -> Trace {
        self.drive(name, k, None, 0).0
    }

    /// run `k`; with `stop = Some((s, mi))` return the open database just before that maintenance op
    fn drive(&mut self, name: &str, k: &RunKey, stop: Option<(usize, usize)>, depth: usize) -> (Trace, Option<TestDb>) {
        let t0 = std::time::Instant::now();
        STALE_WAL_STASH.with(|s| s.set(false));
        let mut tr = Trace { steps: vec![], maint_fail: None, obs: vec![], stats: RunStats::default(), rows_final: 0, index_plan: false, ids_upper: 0 };
        let scratch = self.scratch.clone();
        let mut t = match TestDb::create(&scratch, name) {
            Ok(t) => t,
            Err(e) => {
                tr.maint_fail = Some((0, format!("Database::create failed: {e}")));
                return (tr, None);
            }
        };
        if let Err(e) = apply_cfg(&t, k.cfg) {
            tr.maint_fail = Some((0, format!("initial pragma failed: {e}")));
            return (tr, None);
        }
        if k.comp {
            let _ = t.exec("CREATE TABLE zz(x INT)");
        }
        let mut armed = false;
        let n = k.steps();
        let t0 = tick(0, t0);
        for s in 0..=n {
            for (mi, (p, m)) in k.maint.iter().enumerate() {
                if *p as usize != s {
                    continue;
                }
                if stop == Some((s, mi)) {
                    return (tr, Some(t));
                }
                let burn = if k.comp && m.is_reopen() { self.counter_before(k, s, mi, depth).saturating_sub(1) } else { 0 };
                let mut iu = tr.ids_upper;
                let r = do_maint(&mut t, *m, k.cfg, burn, &mut iu, &mut armed, &mut tr.stats);
                tr.ids_upper = iu;
                if let Err(e) = r {
                    tr.maint_fail = Some((s, e));
                    return (tr, None);
                }
            }
            if s == n {
                break;
            }
            let res = if s == 0 {
                k.var.create_sql().iter().map(|q| t.exec(q)).collect::<Vec<_>>()
            } else {
                let op = k.ops[s - 1];
                tr.ids_upper += op.insert_rows();
                let r = op_exec(&t, k.var, op, s);
                if armed && matches!(op, Op::TxnIns(_) | Op::TxnUpdAll) {
                    tr.stats.auto_ckpt_commits += 1;
                }
                r
            };
            tr.stats.statements += res.len() as u64;
            tr.steps.push(res);
        }
        if stop.is_some() {
            return (tr, None);
        }
        let t0 = tick(1, t0);
        if k.maint.is_empty() {
            // vacuity evidence only (not compared): does the a-lookup use the secondary index?
            if let Some(plan) = sqlh::explain(t.db(), "SELECT * FROM t WHERE a = 1") {
                tr.index_plan = plan.contains("Index");
            }
        }
        observe_all(&t, &mut tr.obs);
        if let Some((_, _, Res::Rows(r))) = tr.obs.iter().find(|(k, _, _)| *k == "rows") {
            tr.rows_final = r.len();
        }
        let t0 = tick(2, t0);
        drop(t);
        tick(3, t0);
        (tr, None)
    }
}

#[derive(Clone, Debug)]
struct Diff {
    kind: &'static str,
    at: String,
    expected: String,
    observed: String,
}

fn show_step(v: &[Res]) -> String {
    v.iter().map(|r| r.show()).collect::<Vec<_>>().join(" ; ")
}

fn step_kind(a: &Res, b: &Res) -> &'static str {
    if a.class() != b.class() {
        if !a.ok() || !b.ok() {
            "error"
        } else {
            "schema"
        }
    } else {
        match a {
            Res::Done(_) => "schema",
            _ => "rows",
        }
    }
}

/// first difference between the twin (no maintenance) and the run
fn diff(key: &RunKey, twin: &Trace, run: &Trace) -> Option<Diff> {
    let step_name = |s: usize| if s == 0 { format!("step 0 (CREATE {})", key.var.name()) } else { format!("step {s} ({})", key.ops[s - 1].name()) };
    if let Some((p, e)) = &twin.maint_fail {
        // the baseline itself could not be set up: nothing to compare against (harness-level problem)
        return Some(Diff { kind: "error", at: format!("baseline setup at {p}"), expected: "baseline runs".into(), observed: e.clone() });
    }
    for s in 0..twin.steps.len().min(run.steps.len()) {
        let (a, b) = (&twin.steps[s], &run.steps[s]);
        for i in 0..a.len().max(b.len()) {
            match (a.get(i), b.get(i)) {
                (Some(x), Some(y)) if same(x, y) => {}
                (Some(x), Some(y)) => {
                    return Some(Diff { kind: step_kind(x, y), at: format!("result of {}", step_name(s)), expected: show_step(a), observed: show_step(b) });
                }
                _ => return Some(Diff { kind: "error", at: format!("result of {}", step_name(s)), expected: show_step(a), observed: show_step(b) }),
            }
        }
    }
    if let Some((p, e)) = &run.maint_fail {
        return Some(Diff { kind: "error", at: format!("maintenance before step {p}"), expected: "maintenance operation succeeds".into(), observed: e.clone() });
    }
    for (x, y) in twin.obs.iter().zip(run.obs.iter()) {
        if !same(&x.2, &y.2) {
            return Some(Diff { kind: x.0, at: format!("final observation `{}`", x.1), expected: x.2.show(), observed: y.2.show() });
        }
    }
    None
}

// ---------------------------------------------------------------------------
// engine: memoised judging + delta debugging
// ---------------------------------------------------------------------------

struct Engine<'a> {
    ctx: &'a Ctx,
    runner: Runner,
    twins: HashMap<RunKey, Rc<Trace>>,
    memo: HashMap<RunKey, Option<Diff>>,
    runs: u64,
    shrink_runs: u64,
    /// event counters over every database execution of this worker (including shrinking runs)
    acc: RunStats,
    /// planted difference for the harness self-test (`--opt plant=1`): the maintained twin loses a row
    plant: bool,
}

impl<'a> Engine<'a> {
    fn new(ctx: &'a Ctx) -> Self {
        STALE_WAL_PLANT.with(|p| p.set(ctx.opt("plant") == Some("stale-wal")));
        Engine { ctx, runner: Runner { scratch: ctx.scratch.clone(), calib: HashMap::new(), calib_runs: 0 }, twins: HashMap::new(), memo: HashMap::new(), runs: 0, shrink_runs: 0, acc: RunStats::default(), plant: ctx.opt("plant").map(|p| p != "stale-wal").unwrap_or(false) }
    }
    fn twin(&mut self, key: &RunKey) -> Rc<Trace> {
        let tk = key.twin();
        if let Some(t) = self.twins.get(&tk) {
            return t.clone();
        }
        if self.twins.len() > 400 {
            self.twins.clear();
        }
        self.runs += 1;
        let t = Rc::new(self.runner.execute("a", &tk));
        self.twins.insert(tk, t.clone());
        t
    }
    fn run(&mut self, key: &RunKey) -> Trace {
        self.runs += 1;
        let mut t = self.runner.execute("b", key);
        self.acc.ckpt_frames_moved += t.stats.ckpt_frames_moved;
        self.acc.ckpt_wal_truncated += t.stats.ckpt_wal_truncated;
        self.acc.reopens += t.stats.reopens;
        self.acc.auto_ckpt_commits += t.stats.auto_ckpt_commits;
        self.acc.burned += t.stats.burned;
        self.acc.statements += t.stats.statements;
        if self.plant && key.maint.iter().any(|(_, m)| *m == Maint::PragmaCkpt) {
            // self-test: pretend the checkpoint lost one row
            for o in t.obs.iter_mut() {
                if let Res::Rows(r) = &mut o.2 {
                    if o.0 == "rows" && r.len() >= 2 {
                        r.pop();
                    }
                }
            }
        }
        t
    }
    /// memoised verdict of one execution against its twin
    fn judge(&mut self, key: &RunKey) -> Option<Diff> {
        if let Some(d) = self.memo.get(key) {
            return d.clone();
        }
        let twin = self.twin(key);
        let run = self.run(key);
        let d = diff(key, &twin, &run);
        if self.memo.len() > 400_000 {
            self.memo.clear();
        }
        self.memo.insert(key.clone(), d.clone());
        d
    }
    /// delta debugging to a 1-minimal history that still shows a difference of the same kind
    fn shrink(&mut self, key: &RunKey, kind: &str) -> (RunKey, Diff) {
        let mut cur = key.clone();
        let mut cur_diff = self.judge(&cur).expect("shrink of a non-violating case");
        let before = self.runs;
        loop {
            let mut changed = false;
            // 1. remove ops
            let mut i = 0;
            while i < cur.ops.len() {
                let mut cand = cur.clone();
                cand.ops.remove(i);
                let removed_step = i + 1;
                for m in cand.maint.iter_mut() {
                    if m.0 as usize > removed_step {
                        m.0 -= 1;
                    }
                }
                match self.judge(&cand) {
                    Some(d) if d.kind == kind => {
                        cur = cand;
                        cur_diff = d;
                        changed = true;
                    }
                    _ => i += 1,
                }
            }
            // 2. simpler ops
            for i in 0..cur.ops.len() {
                for alt in cur.ops[i].simpler() {
                    let mut cand = cur.clone();
                    cand.ops[i] = alt;
                    if let Some(d) = self.judge(&cand) {
                        if d.kind == kind {
                            cur = cand;
                            cur_diff = d;
                            changed = true;
                            break;
                        }
                    }
                }
            }
            // 3. simpler schema variant
            for v in cur.var.simpler() {
                let mut cand = cur.clone();
                cand.var = v;
                if let Some(d) = self.judge(&cand) {
                    if d.kind == kind {
                        cur = cand;
                        cur_diff = d;
                        changed = true;
                        break;
                    }
                }
            }
            // 4. canonical position: move every maintenance op as late as it still matters
            for mi in 0..cur.maint.len() {
                loop {
                    let limit = if mi + 1 < cur.maint.len() { cur.maint[mi + 1].0 as usize } else { cur.steps() };
                    if cur.maint[mi].0 as usize >= limit {
                        break;
                    }
                    let mut cand = cur.clone();
                    cand.maint[mi].0 += 1;
                    match self.judge(&cand) {
                        Some(d) if d.kind == kind => {
                            cur = cand;
                            cur_diff = d;
                            changed = true;
                        }
                        _ => break,
                    }
                }
            }
            if !changed {
                break;
            }
        }
        self.shrink_runs += self.runs - before;
        (cur, cur_diff)
    }
}

fn signature(min: &RunKey, kind: &str) -> String {
    format!("{PROP}/{}/{}/{}/{}", min.maint_name(), min.cfg.wal_name(), kind, min.pattern())
}

/// judge one case; on a difference shrink it and report.  Returns true when it violated.
fn check_case(eng: &mut Engine, rep: &mut Reporter, key: &RunKey, pass: &str, report: bool) -> bool {
    let Some(d) = eng.judge(key) else { return false };
    if report {
        let (min, md) = eng.shrink(key, d.kind);
        let sig = signature(&min, d.kind);
        let case = json!({"pass": pass, "run": key.to_json(), "minimal": min.to_json(), "minimal_pattern": min.pattern()});
        rep.violation(
            PROP,
            "twin-equality",
            &sig,
            || case,
            &format!("[{}] same as twin without maintenance: {}", md.at, md.expected),
            &format!("[{}] {}", md.at, md.observed),
        );
    }
    true
}

// ---------------------------------------------------------------------------
// passes
// ---------------------------------------------------------------------------

struct Pass {
    name: &'static str,
    vars: Vec<Var>,
    alphabet: Vec<Op>,
    /// max number of ops after the CREATE step
    max_ops: usize,
    maints: Vec<Maint>,
    wals: Vec<bool>,
    comp: bool,
    /// also every ordered pair of maintenance ops (positions p1 <= p2)
    pairs: bool,
    /// position 0 (before CREATE) is included for histories with at most this many ops
    pos0_upto: usize,
}

fn full_alphabet() -> Vec<Op> {
    vec![
        Op::Ins(1),
        Op::Ins(2),
        Op::Ins(3),
        Op::Ins2(1, 2),
        Op::Ins2(2, 3),
        Op::Upd(1),
        Op::Upd(2),
        Op::UpdA(1),
        Op::UpdAll,
        Op::Del(1),
        Op::Del(2),
        Op::DelAll,
        Op::Trunc,
        Op::CIdx,
        Op::AddCol,
        Op::InsA,
        Op::TxnIns(3),
        Op::TxnUpdAll,
        Op::CreateU,
        Op::InsU,
    ]
}
fn reduced_alphabet() -> Vec<Op> {
    vec![Op::Ins(1), Op::TxnUpdAll, Op::Ins2(2, 3), Op::Upd(1), Op::UpdA(1), Op::UpdAll, Op::Del(1), Op::Trunc, Op::CIdx, Op::InsA, Op::TxnIns(3)]
}

const CKPTS: [Maint; 3] = [Maint::Ckpt, Maint::PragmaCkpt, Maint::AutoCkpt];
const REOPENS: [Maint; 2] = [Maint::Reopen, Maint::CloseReopen];

fn passes(ctx: &Ctx) -> Vec<Pass> {
    let q = ctx.quick();
    let both = vec![false, true];
    let mut v = vec![];
    // raw passes: nothing avoided
    v.push(Pass { name: "raw-checkpoint", vars: ALL_VARS.to_vec(), alphabet: full_alphabet(), max_ops: if q { 2 } else { 3 }, maints: CKPTS.to_vec(), wals: both.clone(), comp: false, pairs: false, pos0_upto: 1 });
    // (every reopen of a non-empty database runs into KF-C04-01, so the raw reopen pass is shallow)
    v.push(Pass { name: "raw-reopen", vars: ALL_VARS.to_vec(), alphabet: full_alphabet(), max_ops: if q { 1 } else { 2 }, maints: REOPENS.to_vec(), wals: both.clone(), comp: false, pairs: false, pos0_upto: 1 });
    // row-id compensated passes (KF-C04-01 avoided) so that the rest of the reopen space is explored
    v.push(Pass { name: "comp-reopen", vars: ALL_VARS.to_vec(), alphabet: full_alphabet(), max_ops: if q { 2 } else { 3 }, maints: REOPENS.to_vec(), wals: both.clone(), comp: true, pairs: false, pos0_upto: 1 });
    // deepest level over a reduced alphabet
    let deep_vars = if q { vec![Var::PkIdx, Var::Auto] } else { vec![Var::PkIdx, Var::Auto, Var::Big] };
    let deep_alpha = if q { vec![Op::Ins(1), Op::TxnUpdAll, Op::Upd(1), Op::UpdA(1), Op::UpdAll, Op::Del(1), Op::Trunc, Op::InsA, Op::TxnIns(3)] } else { reduced_alphabet() };
    // (with WAL off the explicit checkpoints are no-ops on a database without WAL object: WAL on only)
    v.push(Pass { name: "deep-checkpoint", vars: deep_vars.clone(), alphabet: deep_alpha.clone(), max_ops: if q { 3 } else { 4 }, maints: CKPTS.to_vec(), wals: vec![true], comp: false, pairs: false, pos0_upto: 0 });
    v.push(Pass { name: "deep-comp-reopen", vars: deep_vars, alphabet: deep_alpha, max_ops: if q { 3 } else { 4 }, maints: REOPENS.to_vec(), wals: both.clone(), comp: true, pairs: false, pos0_upto: 0 });
    if !q {
        // two maintenance ops (every ordered pair at positions p1 <= p2)
        v.push(Pass { name: "pairs", vars: vec![Var::PkIdx, Var::Auto], alphabet: reduced_alphabet(), max_ops: 2, maints: STD_MAINT.to_vec(), wals: both, comp: true, pairs: true, pos0_upto: 1 });
    }
    v
}

struct Walker<'a, 'b> {
    eng: Engine<'a>,
    rep: &'b mut Reporter,
    case_idx: u64,
    capped: bool,
}

impl<'a, 'b> Walker<'a, 'b> {
    /// evaluate one history node for every live maintenance combo; returns the combos that diverged here
    fn eval_node(&mut self, pass: &Pass, var: Var, ops: &[Op], dead: &BTreeSet<(bool, MaintList)>, report: bool) -> BTreeSet<(bool, MaintList)> {
        let mut newly = BTreeSet::new();
        let n = 1 + ops.len();
        let pmin = if ops.len() <= pass.pos0_upto { 0 } else { 1 };
        for &wal in &pass.wals {
            let cfg = Cfg::wal(wal);
            let mut singles: Vec<MaintList> = vec![];
            for p in pmin..=n {
                for &m in &pass.maints {
                    if m == Maint::AutoCkpt && !wal {
                        continue; // needs a WAL object: not a valid combination
                    }
                    singles.push(vec![(p as u8, m)]);
                }
            }
            let mut combos: Vec<MaintList> = if pass.pairs { vec![] } else { singles.clone() };
            if pass.pairs {
                for a in &singles {
                    for b in &singles {
                        if a[0].0 <= b[0].0 {
                            combos.push(vec![a[0], b[0]]);
                        }
                    }
                }
            }
            let twin_key = RunKey { var, ops: ops.to_vec(), cfg, maint: vec![], comp: pass.comp };
            let mut twin_rows = 0;
            let mut first = true;
            for ml in combos {
                let dk = (wal, ml.clone());
                if dead.contains(&dk) {
                    if report {
                        self.rep.pruned(1);
                    }
                    continue;
                }
                if pass.pairs {
                    // a pair is explored only over components that are individually clean
                    let comp_bad = ml.iter().any(|x| {
                        let k = RunKey { var, ops: ops.to_vec(), cfg, maint: vec![*x], comp: pass.comp };
                        self.eng.judge(&k).is_some()
                    });
                    if comp_bad {
                        if report {
                            self.rep.pruned(1);
                        }
                        continue;
                    }
                }
                let key = RunKey { var, ops: ops.to_vec(), cfg, maint: ml, comp: pass.comp };
                if first {
                    first = false;
                    let tw = self.eng.twin(&twin_key);
                    twin_rows = tw.rows_final;
                    if report {
                        self.rep.count("twin_histories", 1);
                        if tw.index_plan {
                            self.rep.count("twin_index_plans_for_a_lookup", 1);
                        }
                        let errs = tw.steps.iter().flatten().filter(|r| r.is_err()).count();
                        let panics = tw.steps.iter().flatten().filter(|r| r.is_panic()).count() + tw.obs.iter().filter(|o| o.2.is_panic()).count();
                        self.rep.count("twin_statement_errors", errs as u64);
                        self.rep.count("twin_panics", panics as u64);
                        self.rep.outcome(&format!("twin/{}/rows{}/err{}/panic{}", var.name(), twin_rows.min(4), errs.min(2), panics.min(1)));
                        self.rep.add_states(n as u64);
                        self.rep.add_transitions(tw.stats.statements);
                        self.rep.add_traces_validated(1);
                    }
                }
                let violated = check_case(&mut self.eng, self.rep, &key, pass.name, report);
                if report {
                    // statistics of the maintained run come from a re-read of the memoised verdict only;
                    // run-level counters are collected in `account`
                    self.account(&key, n, twin_rows, violated);
                }
                if violated {
                    newly.insert(dk);
                }
            }
        }
        newly
    }

    fn account(&mut self, key: &RunKey, n: usize, twin_rows: usize, violated: bool) {
        let rep = &mut *self.rep;
        rep.case(vcore::util::hash_of(key), twin_rows > 0 || key.ops.len() >= 1);
        rep.add_states(n as u64 + key.maint.len() as u64);
        rep.add_transitions(n as u64 + key.maint.len() as u64);
        rep.add_traces_validated(1);
        for (_, m) in &key.maint {
            rep.count(&format!("maint_{}", m.name()), 1);
            if m.is_reopen() {
                rep.count("reopens", 1);
            }
        }
        rep.count(if key.cfg.wal { "runs_wal_on" } else { "runs_wal_off" }, 1);
        if violated {
            rep.count("diverged_runs", 1);
        }
        rep.outcome(&format!("{}/{}/{}", key.maint_name(), key.cfg.wal_name(), if violated { "diverged" } else { "equal" }));
    }

    fn dfs(&mut self, pass: &Pass, var: Var, ops: &mut Vec<Op>, dead: &BTreeSet<(bool, MaintList)>, owned: bool) {
        if self.capped {
            return;
        }
        if self.eng.ctx.expired() {
            self.capped = true;
            self.rep.capped(&format!("deadline in pass {}", pass.name));
            return;
        }
        // ownership: the root node of a variant is evaluated by every worker (cheap) and
        // reported by the owner of its index; subtrees are split at depth 1
        let depth = ops.len();
        let (report, owned_below) = if depth == 0 {
            self.case_idx += 1;
            (self.eng.ctx.mine(self.case_idx), false)
        } else if depth == 1 {
            self.case_idx += 1;
            let mine = self.eng.ctx.mine(self.case_idx);
            (mine, mine)
        } else {
            (owned, owned)
        };
        if depth >= 1 && !owned_below {
            return;
        }
        let newly = self.eval_node(pass, var, ops, dead, report);
        if depth >= pass.max_ops {
            return;
        }
        let mut dead2 = dead.clone();
        dead2.extend(newly);
        for &op in &pass.alphabet {
            ops.push(op);
            self.dfs(pass, var, ops, &dead2, owned_below);
            ops.pop();
        }
    }
}

// ---------------------------------------------------------------------------
// pass "catalog-roundtrip": constraint BEHAVIOUR must survive a reopen
// ---------------------------------------------------------------------------
//
// Twin A: DDL, populate, drop+open / close()+open, probes.  Twin B: DDL, populate, probes.
// Probes are chosen so that every declared property is observable (duplicate key, NULL into
// NOT NULL, omitted DEFAULT column, CHECK violating / satisfying insert, child insert without
// parent, parent key UPDATE and parent DELETE with a child present, index still used, next
// AUTO_INCREMENT value, SELECT * of every table).  Purely differential: defective constraint
// behaviour cancels as long as it is the same before and after the reopen.
mod roundtrip {
    use super::*;

    const TYPES: [(&str, &str); 7] = [("int", "INT"), ("bigint", "BIGINT"), ("real", "REAL"), ("text", "TEXT"), ("bool", "BOOL"), ("blob", "BLOB"), ("date", "DATE")];
    const ACTIONS: [(&str, &str); 4] = [("none", ""), ("restrict", "RESTRICT"), ("cascade", "CASCADE"), ("setnull", "SET NULL")];

    #[derive(Clone, Copy, PartialEq, Eq, Hash, PartialOrd, Ord, Debug)]
    pub enum Feat {
        Ty(u8),
        PkSingle,
        PkComp,
        AutoInc,
        UniqCol,
        UniqTab,
        NotNull,
        DefInt,
        DefNeg,
        DefText,
        DefNull,
        ChkGt,
        ChkRange,
        /// (ON DELETE action, ON UPDATE action) indices into ACTIONS
        Fk(u8, u8),
        IdxSec,
        IdxUniq,
        IdxComp,
        IdxPartial,
        TwoTables,
    }
    use Feat::*;

    pub fn all_feats() -> Vec<Feat> {
        let mut v: Vec<Feat> = (0..7).map(Ty).collect();
        v.extend([PkSingle, PkComp, AutoInc, UniqCol, UniqTab, NotNull, DefInt, DefNeg, DefText, DefNull, ChkGt, ChkRange]);
        for d in 0..4 {
            for u in 0..4 {
                v.push(Fk(d, u));
            }
        }
        v.extend([IdxSec, IdxUniq, IdxComp, IdxPartial, TwoTables]);
        v
    }

    impl Feat {
        pub fn name(self) -> String {
            match self {
                Ty(i) => format!("type-{}", TYPES[i as usize].0),
                PkSingle => "pk".into(),
                PkComp => "pk-composite".into(),
                AutoInc => "auto-increment".into(),
                UniqCol => "unique-column".into(),
                UniqTab => "unique-table".into(),
                NotNull => "not-null".into(),
                DefInt => "default-int".into(),
                DefNeg => "default-negative".into(),
                DefText => "default-text".into(),
                DefNull => "default-null".into(),
                ChkGt => "check-gt".into(),
                ChkRange => "check-range".into(),
                Fk(d, u) => format!("fk-del:{}-upd:{}", ACTIONS[d as usize].0, ACTIONS[u as usize].0),
                IdxSec => "index".into(),
                IdxUniq => "unique-index".into(),
                IdxComp => "composite-index".into(),
                IdxPartial => "partial-index".into(),
                TwoTables => "second-table".into(),
            }
        }
        pub fn parse(s: &str) -> Option<Feat> {
            all_feats().into_iter().find(|f| f.name() == s)
        }
        /// features of one group exclude each other
        fn group(self) -> u8 {
            match self {
                PkSingle | PkComp | AutoInc => 1,
                Fk(..) => 2,
                _ => 0,
            }
        }
    }

    pub fn compatible(fs: &[Feat]) -> bool {
        for g in [1u8, 2] {
            if fs.iter().filter(|f| f.group() == g).count() > 1 {
                return false;
            }
        }
        true
    }

    /// columns of table c contributed by a feature: (name, declaration suffix)
    fn columns(f: Feat) -> Vec<(&'static str, String)> {
        match f {
            Ty(i) => vec![("t", TYPES[i as usize].1.to_string())],
            PkSingle | AutoInc => vec![],
            PkComp => vec![("g", "INT".into())],
            UniqCol => vec![("u1", "INT UNIQUE".into())],
            UniqTab => vec![("u2", "INT".into())],
            NotNull => vec![("nn", "INT NOT NULL".into())],
            DefInt => vec![("d1", "INT DEFAULT 5".into())],
            DefNeg => vec![("d2", "INT DEFAULT -7".into())],
            DefText => vec![("d3", "TEXT DEFAULT 'dflt'".into())],
            DefNull => vec![("d4", "INT DEFAULT NULL".into())],
            ChkGt => vec![("k1", "INT CHECK (k1 > 0)".into())],
            ChkRange => vec![("k2", "INT CHECK (k2 >= 0 AND k2 < 10)".into())],
            Fk(d, u) => {
                let mut s = "INT REFERENCES p(id)".to_string();
                if d > 0 {
                    s.push_str(&format!(" ON DELETE {}", ACTIONS[d as usize].1));
                }
                if u > 0 {
                    s.push_str(&format!(" ON UPDATE {}", ACTIONS[u as usize].1));
                }
                vec![("f", s)]
            }
            IdxSec => vec![("i1", "INT".into())],
            IdxUniq => vec![("i2", "INT".into())],
            IdxComp => vec![("i3a", "INT".into()), ("i3b", "INT".into())],
            IdxPartial => vec![("i4", "INT".into())],
            TwoTables => vec![],
        }
    }

    /// a value of column `col` for row number n that satisfies every constraint
    fn valid(fs: &[Feat], col: &str, n: i64) -> String {
        match col {
            "id" | "g" | "nn" | "d1" | "d2" | "d4" | "i1" | "i3a" => n.to_string(),
            "i3b" => (n + 1).to_string(),
            "u1" => (100 + n).to_string(),
            "u2" => (200 + n).to_string(),
            "i2" => (300 + n).to_string(),
            "i4" => (if n % 2 == 1 { n } else { -n }).to_string(),
            "d3" => format!("'x{n}'"),
            "k1" | "k2" => (n % 9 + 1).to_string(),
            "f" => (if n <= 2 { n } else { 3 }).to_string(),
            "t" => {
                let ty = fs.iter().find_map(|f| if let Ty(i) = f { Some(*i) } else { None }).unwrap_or(0);
                match ty {
                    0 => n.to_string(),
                    1 => (10_000_000_000i64 + n).to_string(),
                    2 => format!("{n}.5"),
                    3 => format!("'t{n}'"),
                    4 => (if n % 2 == 1 { "TRUE" } else { "FALSE" }).to_string(),
                    5 => format!("x'0{}'", n % 10),
                    _ => format!("'2024-01-0{}'", n % 9 + 1),
                }
            }
            _ => "NULL".into(),
        }
    }

    pub struct Schema {
        pub feats: Vec<Feat>,
        cols: Vec<String>,
        pub ddl: Vec<String>,
        pub populate: Vec<String>,
        /// (owner feature name, probe name, statement; "EXPLAIN-INDEX <sql>" = does the plan use an index)
        pub probes: Vec<(String, &'static str, String)>,
        pub tables: Vec<&'static str>,
    }

    impl Schema {
        /// INSERT of row n with every column valid, except the overrides (None = column omitted)
        fn ins(&self, n: i64, over: &[(&str, Option<String>)]) -> String {
            let mut cs = vec![];
            let mut vs = vec![];
            for c in &self.cols {
                match over.iter().find(|(k, _)| k == c) {
                    Some((_, None)) => {}
                    Some((_, Some(v))) => {
                        cs.push(c.clone());
                        vs.push(v.clone());
                    }
                    None => {
                        cs.push(c.clone());
                        vs.push(valid(&self.feats, c, n));
                    }
                }
            }
            format!("INSERT INTO c ({}) VALUES ({})", cs.join(","), vs.join(","))
        }

        pub fn build(feats: &[Feat]) -> Schema {
            let has = |f: Feat| feats.contains(&f);
            let has_fk = feats.iter().any(|f| matches!(f, Fk(..)));
            let mut s = Schema { feats: feats.to_vec(), cols: vec!["id".into()], ddl: vec![], populate: vec![], probes: vec![], tables: vec![] };
            let mut decls = vec![if has(AutoInc) {
                "id INT PRIMARY KEY AUTO_INCREMENT".to_string()
            } else if has(PkSingle) {
                "id INT PRIMARY KEY".to_string()
            } else {
                "id INT".to_string()
            }];
            for f in feats {
                for (c, d) in columns(*f) {
                    s.cols.push(c.to_string());
                    decls.push(format!("{c} {d}"));
                }
            }
            if has(PkComp) {
                decls.push("PRIMARY KEY (id, g)".into());
            }
            if has(UniqTab) {
                decls.push("UNIQUE (u2)".into());
            }
            if has_fk {
                s.ddl.push("CREATE TABLE p(id INT PRIMARY KEY, v INT)".into());
                s.tables.push("p");
                s.populate.push("INSERT INTO p (id,v) VALUES (1,10)".into());
                s.populate.push("INSERT INTO p (id,v) VALUES (2,20)".into());
                s.populate.push("INSERT INTO p (id,v) VALUES (3,30)".into());
            }
            s.ddl.push(format!("CREATE TABLE c({})", decls.join(", ")));
            s.tables.push("c");
            if has(IdxSec) {
                s.ddl.push("CREATE INDEX ci1 ON c(i1)".into());
            }
            if has(IdxUniq) {
                s.ddl.push("CREATE UNIQUE INDEX ci2 ON c(i2)".into());
            }
            if has(IdxComp) {
                s.ddl.push("CREATE INDEX ci3 ON c(i3a, i3b)".into());
            }
            if has(IdxPartial) {
                s.ddl.push("CREATE INDEX ci4 ON c(i4) WHERE i4 > 0".into());
            }
            if has(TwoTables) {
                s.ddl.push("CREATE TABLE d(id INT PRIMARY KEY, w INT)".into());
                s.tables.push("d");
                s.populate.push("INSERT INTO d (id,w) VALUES (1,1)".into());
                s.populate.push("INSERT INTO d (id,w) VALUES (2,2)".into());
            }
            let p1 = s.ins(1, &[]);
            let p2 = s.ins(2, &[]);
            s.populate.push(p1);
            s.populate.push(p2);
            // ---- probes (run after the reopen / non-reopen) ----
            let mut n = 2i64;
            let mut next = || {
                n += 1;
                n
            };
            let mut probes: Vec<(String, &'static str, String)> = vec![];
            for f in feats {
                let o = f.name();
                let mut p = |name: &'static str, sql: String| probes.push((o.clone(), name, sql));
                match *f {
                    Ty(_) => {
                        let k = next();
                        p("typed-insert", s.ins(k, &[]));
                        p("typed-lookup", format!("SELECT * FROM c WHERE t = {}", valid(feats, "t", 1)));
                        p("typed-update", format!("UPDATE c SET t = {} WHERE id = 2", valid(feats, "t", 7)));
                    }
                    PkSingle => {
                        p("duplicate-key-insert", s.ins(1, &[("u1", Some("150".into())), ("u2", Some("250".into())), ("i2", Some("350".into()))]));
                        p("fresh-key-insert", s.ins(next(), &[]));
                        p("null-key-insert", s.ins(next(), &[("id", Some("NULL".into()))]));
                        p("EXPLAIN-pk-lookup", "EXPLAIN-INDEX SELECT * FROM c WHERE id = 1".into());
                        p("pk-lookup", "SELECT * FROM c WHERE id = 1".into());
                    }
                    PkComp => {
                        p("duplicate-key-insert", s.ins(1, &[("u1", Some("151".into())), ("u2", Some("251".into())), ("i2", Some("351".into()))]));
                        let k = next();
                        p("same-id-other-g-insert", s.ins(k, &[("id", Some("1".into()))]));
                        p("pk-lookup", "SELECT * FROM c WHERE id = 1 AND g = 1".into());
                    }
                    AutoInc => {
                        let k = next();
                        p("insert-without-id", s.ins(k, &[("id", None)]));
                        let k = next();
                        p("insert-without-id-2", s.ins(k, &[("id", None)]));
                        p("duplicate-key-insert", s.ins(1, &[("u1", Some("152".into())), ("u2", Some("252".into())), ("i2", Some("352".into()))]));
                    }
                    UniqCol => {
                        p("duplicate-insert", s.ins(next(), &[("u1", Some(valid(feats, "u1", 1)))]));
                        p("distinct-insert", s.ins(next(), &[]));
                        p("duplicate-update", format!("UPDATE c SET u1 = {} WHERE id = 2", valid(feats, "u1", 1)));
                    }
                    UniqTab => {
                        p("duplicate-insert", s.ins(next(), &[("u2", Some(valid(feats, "u2", 1)))]));
                        p("distinct-insert", s.ins(next(), &[]));
                        p("duplicate-update", format!("UPDATE c SET u2 = {} WHERE id = 2", valid(feats, "u2", 1)));
                    }
                    NotNull => {
                        p("null-insert", s.ins(next(), &[("nn", Some("NULL".into()))]));
                        p("omitted-insert", s.ins(next(), &[("nn", None)]));
                        p("null-update", "UPDATE c SET nn = NULL WHERE id = 2".into());
                        p("valid-insert", s.ins(next(), &[]));
                    }
                    DefInt | DefNeg | DefText | DefNull => {
                        let col = columns(*f)[0].0;
                        let k = next();
                        p("insert-omitting-column", s.ins(k, &[(col, None)]));
                        p("read-default", format!("SELECT * FROM c WHERE id = {k}"));
                    }
                    ChkGt => {
                        p("violating-insert", s.ins(next(), &[("k1", Some("0".into()))]));
                        p("violating-insert-negative", s.ins(next(), &[("k1", Some("-3".into()))]));
                        p("satisfying-insert", s.ins(next(), &[("k1", Some("1".into()))]));
                        p("violating-update", "UPDATE c SET k1 = 0 WHERE id = 2".into());
                    }
                    ChkRange => {
                        p("violating-insert-high", s.ins(next(), &[("k2", Some("10".into()))]));
                        p("violating-insert-low", s.ins(next(), &[("k2", Some("-1".into()))]));
                        p("satisfying-insert", s.ins(next(), &[("k2", Some("0".into()))]));
                        p("violating-update", "UPDATE c SET k2 = 10 WHERE id = 2".into());
                    }
                    Fk(..) => {
                        p("child-insert-without-parent", s.ins(next(), &[("f", Some("99".into()))]));
                        p("child-insert-with-parent", s.ins(next(), &[]));
                        p("child-update-to-missing-parent", "UPDATE c SET f = 98 WHERE id = 2".into());
                        p("parent-key-update", "UPDATE p SET id = 11 WHERE id = 1".into());
                        p("child-rows-after-parent-update", "SELECT * FROM c".into());
                        p("parent-rows-after-parent-update", "SELECT * FROM p".into());
                        p("parent-delete", "DELETE FROM p WHERE id = 2".into());
                        p("child-rows-after-parent-delete", "SELECT * FROM c".into());
                        p("parent-rows-after-parent-delete", "SELECT * FROM p".into());
                    }
                    IdxSec => {
                        p("EXPLAIN-indexed-equality", "EXPLAIN-INDEX SELECT * FROM c WHERE i1 = 1".into());
                        p("index-lookup", "SELECT * FROM c WHERE i1 = 1".into());
                        p("insert", s.ins(next(), &[("i1", Some("1".into()))]));
                        p("index-lookup-after-insert", "SELECT * FROM c WHERE i1 = 1".into());
                    }
                    IdxUniq => {
                        p("duplicate-insert", s.ins(next(), &[("i2", Some(valid(feats, "i2", 1)))]));
                        p("distinct-insert", s.ins(next(), &[]));
                        p("EXPLAIN-indexed-equality", format!("EXPLAIN-INDEX SELECT * FROM c WHERE i2 = {}", valid(feats, "i2", 1)));
                        p("index-lookup", format!("SELECT * FROM c WHERE i2 = {}", valid(feats, "i2", 1)));
                    }
                    IdxComp => {
                        p("EXPLAIN-indexed-equality", "EXPLAIN-INDEX SELECT * FROM c WHERE i3a = 1 AND i3b = 2".into());
                        p("index-lookup", "SELECT * FROM c WHERE i3a = 1 AND i3b = 2".into());
                        p("insert", s.ins(next(), &[("i3a", Some("1".into())), ("i3b", Some("2".into()))]));
                        p("index-lookup-after-insert", "SELECT * FROM c WHERE i3a = 1 AND i3b = 2".into());
                    }
                    IdxPartial => {
                        p("EXPLAIN-indexed-equality", "EXPLAIN-INDEX SELECT * FROM c WHERE i4 = 1".into());
                        p("lookup-inside-predicate", "SELECT * FROM c WHERE i4 = 1".into());
                        p("lookup-outside-predicate", "SELECT * FROM c WHERE i4 = -2".into());
                        p("insert-outside-predicate", s.ins(next(), &[("i4", Some("-2".into()))]));
                        p("lookup-outside-predicate-after-insert", "SELECT * FROM c WHERE i4 = -2".into());
                    }
                    TwoTables => {
                        p("second-table-duplicate-key-insert", "INSERT INTO d (id,w) VALUES (1,9)".into());
                        p("second-table-update", "UPDATE d SET w = w + 1".into());
                        p("second-table-pk-lookup", "SELECT * FROM d WHERE id = 2".into());
                    }
                }
            }
            for t in s.tables.clone() {
                probes.push(("all".into(), if t == "c" { "select-all-c" } else if t == "p" { "select-all-p" } else { "select-all-d" }, format!("SELECT * FROM {t}")));
                probes.push(("all".into(), if t == "c" { "count-c" } else if t == "p" { "count-p" } else { "count-d" }, format!("SELECT COUNT(*) FROM {t}")));
            }
            s.probes = probes;
            s
        }
    }

    pub struct RtRunner {
        pub scratch: std::path::PathBuf,
        calib: HashMap<(Vec<Feat>, bool), u64>,
        pub executions: u64,
        pub statements: u64,
        pub index_plans: u64,
        /// self-test (`--opt plant=1`): the reopened twin forgets ON UPDATE CASCADE
        pub plant: bool,
    }

    impl RtRunner {
        pub fn new(ctx: &Ctx) -> Self {
            RtRunner { scratch: ctx.scratch.clone(), calib: HashMap::new(), executions: 0, statements: 0, index_plans: 0, plant: ctx.opt("plant").map(|p| p != "stale-wal").unwrap_or(false) }
        }

        fn setup(&mut self, name: &str, s: &Schema, wal: bool) -> Option<TestDb> {
            self.executions += 1;
            let t = TestDb::create(&self.scratch, name).ok()?;
            apply_cfg(&t, Cfg::wal(wal)).ok()?;
            let _ = t.exec("CREATE TABLE zz(x INT)");
            for q in s.ddl.iter().chain(s.populate.iter()) {
                let _ = t.exec(q);
                self.statements += 1;
            }
            Some(t)
        }

        /// value of the global row-id counter after DDL + populate (see Runner::counter_before); 0 = no compensation needed
        fn counter(&mut self, s: &Schema, wal: bool) -> u64 {
            let key = (s.feats.clone(), wal);
            if let Some(c) = self.calib.get(&key) {
                return *c;
            }
            let mut c = 0;
            if let Some(mut t) = self.setup("rc", s, wal) {
                let _ = t.exec("CREATE TABLE cal(x INT)");
                let _ = t.exec("INSERT INTO cal (x) VALUES (0)");
                if t.reopen().is_ok() {
                    for j in 1..=(s.populate.len() as u64 + 3) {
                        if !t.exec("INSERT INTO cal (x) VALUES (1)").ok() {
                            c = j;
                            break;
                        }
                    }
                }
            }
            if self.calib.len() > 50_000 {
                self.calib.clear();
            }
            self.calib.insert(key, c);
            c
        }

        /// results of DDL+populate (as one block) and of every probe; Err = maintenance failed
        pub fn run(&mut self, name: &str, s: &Schema, wal: bool, maint: Option<Maint>) -> Result<Vec<Res>, String> {
            let burn = if maint.is_some() { self.counter(s, wal).saturating_sub(1) } else { 0 };
            let Some(mut t) = self.setup(name, s, wal) else { return Err("setup failed".into()) };
            if let Some(m) = maint {
                let r = if m == Maint::Reopen { t.reopen() } else { t.close_reopen() };
                r.map_err(|e| format!("{} failed: {e}", m.name()))?;
                apply_cfg(&t, Cfg::wal(wal)).map_err(|e| format!("pragma after reopen failed: {e}"))?;
                for _ in 0..burn {
                    let _ = t.exec("INSERT INTO zz (x) VALUES (0)");
                }
            }
            let mut out = vec![];
            for (owner, name, sql) in &s.probes {
                self.statements += 1;
                let r = if let Some(q) = sql.strip_prefix("EXPLAIN-INDEX ") {
                    match sqlh::explain(t.db(), q) {
                        Some(plan) => {
                            let idx = plan.contains("Index");
                            if idx {
                                self.index_plans += 1;
                            }
                            Res::Done(if idx { "plan uses an index".into() } else { "plan uses no index".into() })
                        }
                        None => Res::Err("EXPLAIN failed".into()),
                    }
                } else if self.plant && maint.is_some() && *name == "parent-key-update" && owner.contains("upd:cascade") {
                    Res::Err("planted: ON UPDATE action lost".into())
                } else {
                    bagged(t.exec(sql))
                };
                out.push(r);
            }
            Ok(out)
        }

        /// first differing probe of (schema, wal, maint) vs the non-reopened twin: (probe index, expected, observed)
        pub fn judge(&mut self, s: &Schema, wal: bool, m: Maint, twin: &[Res]) -> Option<(usize, String, String)> {
            match self.run("rb", s, wal, Some(m)) {
                Err(e) => Some((usize::MAX, "maintenance operation succeeds".into(), e)),
                Ok(r) => {
                    for i in 0..twin.len().max(r.len()) {
                        match (twin.get(i), r.get(i)) {
                            (Some(a), Some(b)) if same(a, b) => {}
                            (a, b) => return Some((i, a.map(|x| x.show()).unwrap_or_default(), b.map(|x| x.show()).unwrap_or_default())),
                        }
                    }
                    None
                }
            }
        }
    }

    fn probe_id(s: &Schema, i: usize) -> (String, String) {
        if i == usize::MAX {
            ("all".into(), "reopen".into())
        } else {
            (s.probes[i].0.clone(), s.probes[i].1.to_string())
        }
    }

    /// evaluate one schema under wal x {reopen, close_reopen}; report divergences (minimised over the feature set)
    pub fn check_schema(rt: &mut RtRunner, rep: &mut Reporter, feats: &[Feat]) {
        let s = Schema::build(feats);
        for wal in [false, true] {
            let Ok(twin) = rt.run("ra", &s, wal, None) else { continue };
            for m in REOPENS {
                let d = rt.judge(&s, wal, m, &twin);
                rep.case(vcore::util::hash_of(&(feats, wal, m)), true);
                rep.add_states((s.ddl.len() + s.populate.len() + s.probes.len() + 1) as u64);
                rep.add_transitions((s.ddl.len() + s.populate.len() + s.probes.len() + 1) as u64);
                rep.add_traces_validated(1);
                rep.count("catalog_roundtrip_runs", 1);
                rep.count(&format!("maint_{}", m.name()), 1);
                rep.count("reopens", 1);
                rep.count(if wal { "runs_wal_on" } else { "runs_wal_off" }, 1);
                let Some((i, _, _)) = d else {
                    rep.outcome(&format!("catalog-roundtrip/{}/equal", m.name()));
                    continue;
                };
                rep.outcome(&format!("catalog-roundtrip/{}/diverged", m.name()));
                // minimise: drop features while the same probe still differs
                let (owner, pname) = probe_id(&s, i);
                let mut cur: Vec<Feat> = feats.to_vec();
                let mut detail = d.clone().unwrap();
                let mut k = 0;
                while k < cur.len() {
                    if cur.len() == 1 || cur[k].name() == owner {
                        k += 1;
                        continue;
                    }
                    let mut cand = cur.clone();
                    cand.remove(k);
                    let cs = Schema::build(&cand);
                    let still = match rt.run("ra", &cs, wal, None) {
                        Ok(tw) => rt.judge(&cs, wal, m, &tw).filter(|(j, _, _)| probe_id(&cs, *j) == (owner.clone(), pname.clone())),
                        Err(_) => None,
                    };
                    match still {
                        Some(dd) => {
                            cur = cand;
                            detail = dd;
                        }
                        None => k += 1,
                    }
                }
                let kind = cur.iter().map(|f| f.name()).collect::<Vec<_>>().join("+");
                let sig = format!("{PROP}/{}/{}/catalog:{}/{}", m.name(), Cfg::wal(wal).wal_name(), kind, pname);
                let ms = Schema::build(&cur);
                let stmt = if detail.0 == usize::MAX { "reopen".to_string() } else { ms.probes[detail.0].2.clone() };
                let case = json!({"scenario": "catalog-roundtrip", "features": feats.iter().map(|f| f.name()).collect::<Vec<_>>(), "wal": wal, "maint": m.name(),
                    "minimal_features": cur.iter().map(|f| f.name()).collect::<Vec<_>>(), "minimal_ddl": ms.ddl, "minimal_populate": ms.populate, "probe": stmt});
                rep.violation(PROP, "catalog-roundtrip", &sig, || case, &format!("[{stmt}] same as on the twin that was not reopened: {}", detail.1), &format!("[{stmt}] {}", detail.2));
            }
        }
    }

    /// all compatible feature sets of size 1..=k, simplest first
    pub fn schemas(k: usize) -> Vec<Vec<Feat>> {
        let all = all_feats();
        let mut out: Vec<Vec<Feat>> = all.iter().map(|f| vec![*f]).collect();
        if k >= 2 {
            for i in 0..all.len() {
                for j in i + 1..all.len() {
                    let v = vec![all[i], all[j]];
                    if compatible(&v) {
                        out.push(v);
                    }
                }
            }
        }
        if k >= 3 {
            for i in 0..all.len() {
                for j in i + 1..all.len() {
                    for l in j + 1..all.len() {
                        let v = vec![all[i], all[j], all[l]];
                        if compatible(&v) {
                            out.push(v);
                        }
                    }
                }
            }
        }
        out
    }
}

struct C04;

impl Check for C04 {
    fn specs(&self) -> Vec<Spec> {
        let mut s = Spec::new(
            PROP,
            "model_checking",
            "a case is one (history, WAL on/off, maintenance combo) execution compared with its twin that runs the same history without maintenance. History = CREATE TABLE t variant (no PK / INT PK / PK + secondary index / AUTO_INCREMENT PK / PK with 1.5 KB TEXT values) followed by every sequence of <= d ops over the alphabet {INSERT k, 2-row INSERT, UPDATE by key, UPDATE all, DELETE by key, DELETE all, TRUNCATE, CREATE INDEX, ALTER ADD COLUMN, INSERT without id, BEGIN..COMMIT around a write, CREATE TABLE u (AUTO_INCREMENT), INSERT INTO u}, keys in {1,2,3}; maintenance op in {checkpoint(), PRAGMA wal_checkpoint, drop+open, close()+open, arm auto-checkpoint (WAL on)} inserted at EVERY position (thorough: also every ordered pair of maintenance ops for d<=2 over a reduced alphabet). Depth-first over the history tree; a combo that diverged on a prefix is not extended. Distinct = distinct (history, wal, combo); non-trivial = history has at least one op after CREATE. states = history prefixes executed, transitions = statements + maintenance ops executed on the real Database.",
        );
        s.assumptions = &[
            "differential oracle: twin database driven with the same statements minus the maintenance ops; no reference semantics",
            "statement results are compared by class (rows as bags, affected counts, DDL tag); error texts are not compared",
            "observation directly after a maintenance op = final observation of the prefix history with the op at its end (all prefixes are enumerated)",
            "PRAGMA wal=ON is re-issued after every reopen (pragmas live in process memory only)",
            "pass catalog-roundtrip: twin A = DDL, populate, drop+open or close()+open, probes; twin B = the same without the reopen; the oracle is the equality of every probe result (class + rows), never the constraint semantics themselves",
            "passes named comp-* re-advance the global row-id counter after a reopen through inserts into a side table (avoids known finding KF-C04-01)",
        ];
        s.cap_quick_s = 90;
        s.cap_thorough_s = 1500;
        vec![s]
    }

    fn run(&self, ctx: &Ctx, rep: &mut Reporter) {
        // recorded first so that a capped run still carries a sample
        rep.sample(|| json!({"variant": "pkidx", "ops": ["INS1", "UPDALL", "DEL1"], "maint": [{"pos": 2, "op": "close_reopen"}], "cfg": {"wal": true}, "meaning": "CREATE t + index; INSERT 1; close()+open; UPDATE all; DELETE 1; observe — vs. the same without close()+open"}));
        for c in ["wal_left_off_runs", "catalog_roundtrip_runs", "catalog_roundtrip_index_plans", "maint_checkpoint", "maint_pragma_wal_checkpoint", "maint_reopen", "maint_close_reopen", "maint_auto_checkpoint", "reopens", "checkpoints_that_moved_frames", "runs_wal_on", "runs_wal_off", "twin_index_plans_for_a_lookup"] {
            rep.expect_nonzero(c);
        }
        let ps = passes(ctx);
        rep.bound("passes", json!(ps.iter().map(|p| json!({"name": p.name, "variants": p.vars.iter().map(|v| v.name()).collect::<Vec<_>>(), "alphabet": p.alphabet.iter().map(|o| o.name()).collect::<Vec<_>>(), "max_ops_after_create": p.max_ops, "maintenance": p.maints.iter().map(|m| m.name()).collect::<Vec<_>>(), "pairs": p.pairs, "rowid_compensation": p.comp})).collect::<Vec<_>>()));
        if let Some(path) = ctx.opt("cases") {
            // development aid: `--opt cases=<file>` judges an explicit JSON array of run keys (split by index)
            let list: Vec<Value> = serde_json::from_slice(&std::fs::read(path).unwrap_or_default()).unwrap_or_default();
            let mut eng = Engine::new(ctx);
            for (i, c) in list.iter().enumerate() {
                if !ctx.mine(i as u64) {
                    continue;
                }
                if ctx.expired() {
                    rep.capped("deadline in explicit case list");
                    break;
                }
                if let Some(key) = RunKey::from_json(c) {
                    check_case(&mut eng, rep, &key, "cases", true);
                    rep.case(vcore::util::hash_of(&key), true);
                }
            }
            return;
        }
        // pass "wal-left-off": session 1 with WAL on, reopen WITHOUT re-issuing PRAGMA wal=ON (the real default:
        // WAL is off after every open), session 2 modifies the same pages, second reopen.  A stale session-1
        // log replayed by the second open would revert the session-2 writes.  Twin: never reopens.
        if ctx.opt("only").map(|o| o == "wal-left-off").unwrap_or(true) {
            let q = ctx.quick();
            let a1: Vec<Op> = if q { vec![Op::Ins(1), Op::Ins2(2, 3), Op::Upd(1), Op::Del(1), Op::InsA] } else { vec![Op::Ins(1), Op::Ins(2), Op::Ins2(2, 3), Op::Upd(1), Op::UpdAll, Op::Del(1), Op::InsA, Op::TxnIns(3)] };
            let a2: Vec<Op> = vec![Op::Upd(1), Op::UpdA(1), Op::UpdAll, Op::Del(1), Op::Ins(2), Op::Upd(2)];
            let seqs = |alpha: &[Op], min: usize, max: usize| -> Vec<Vec<Op>> {
                let mut out: Vec<Vec<Op>> = vec![];
                let mut level: Vec<Vec<Op>> = vec![vec![]];
                for d in 0..=max {
                    if d >= min {
                        out.extend(level.iter().cloned());
                    }
                    let mut next = vec![];
                    for s in &level {
                        for &o in alpha {
                            let mut t = s.clone();
                            t.push(o);
                            next.push(t);
                        }
                    }
                    level = next;
                }
                out
            };
            let s1s = seqs(&a1, 0, 2);
            let s2s = seqs(&a2, 1, if q { 1 } else { 2 });
            let nps = [Maint::ReopenNoPragma, Maint::CloseReopenNoPragma];
            rep.bound("wal_left_off", json!({"session1_alphabet": a1.iter().map(|o| o.name()).collect::<Vec<_>>(), "session1_max_ops": 2, "session2_alphabet": a2.iter().map(|o| o.name()).collect::<Vec<_>>(), "session2_ops": if q { "1" } else { "1..2" }, "reopen_kinds": ["reopen_nopragma", "close_reopen_nopragma"], "variants": ALL_VARS.iter().map(|v| v.name()).collect::<Vec<_>>()}));
            let mut eng = Engine::new(ctx);
            // the side passes get a fixed share of the wall cap each, so that a slow machine cannot starve the history passes
            let wlo_deadline = { let now = std::time::Instant::now(); now + ctx.deadline.saturating_duration_since(now) / 5 };
            let mut idx = 3_000_000u64;
            'outer: for &var in &ALL_VARS {
                for s1 in &s1s {
                    idx += 1;
                    if !ctx.mine(idx) {
                        continue;
                    }
                    if ctx.expired() || std::time::Instant::now() >= wlo_deadline {
                        rep.capped("deadline in pass wal-left-off (its share is 20% of the wall cap)");
                        break 'outer;
                    }
                    for s2 in &s2s {
                        let mut ops = s1.clone();
                        ops.extend(s2.iter().copied());
                        let (p1, p2) = ((1 + s1.len()) as u8, (1 + ops.len()) as u8);
                        let cfg = Cfg::wal(true);
                        for m1 in nps {
                            for m2 in nps {
                                // a pair is explored only over components that are individually clean (known WAL findings)
                                let single_bad = [(p1, m1), (p2, m2)].iter().any(|x| eng.judge(&RunKey { var, ops: ops.clone(), cfg, maint: vec![*x], comp: true }).is_some());
                                if single_bad {
                                    rep.pruned(1);
                                    continue;
                                }
                                let key = RunKey { var, ops: ops.clone(), cfg, maint: vec![(p1, m1), (p2, m2)], comp: true };
                                let violated = check_case(&mut eng, rep, &key, "wal-left-off", true);
                                rep.case(vcore::util::hash_of(&key), true);
                                rep.add_states(key.steps() as u64 + 2);
                                rep.add_transitions(key.steps() as u64 + 2);
                                rep.add_traces_validated(1);
                                rep.count("wal_left_off_runs", 1);
                                rep.count("reopens", 2);
                                rep.count("runs_wal_on", 1);
                                rep.outcome(&format!("wal-left-off/{}+{}/{}", m1.name(), m2.name(), if violated { "diverged" } else { "equal" }));
                            }
                        }
                    }
                }
            }
            rep.count("wal_left_off_database_executions", eng.runs + eng.runner.calib_runs);
        }
        // pass "catalog-roundtrip" (first: small, and independent of the history passes)
        if ctx.opt("only").map(|o| o == "catalog-roundtrip").unwrap_or(true) {
            let k = ctx.tier.pick(2usize, 3usize);
            let list = roundtrip::schemas(k);
            rep.bound("catalog_roundtrip", json!({"constraint_kinds": roundtrip::all_feats().iter().map(|f| f.name()).collect::<Vec<_>>(), "max_kinds_per_schema": k, "schemas": list.len(), "maintenance": ["reopen", "close_reopen"], "wal": ["off", "on"]}));
            let mut rt = roundtrip::RtRunner::new(ctx);
            let rt_deadline = { let now = std::time::Instant::now(); now + ctx.deadline.saturating_duration_since(now) / 5 };
            for (i, feats) in list.iter().enumerate() {
                if !ctx.mine(2_000_000 + i as u64) {
                    continue;
                }
                if ctx.expired() || std::time::Instant::now() >= rt_deadline {
                    rep.capped("deadline in pass catalog-roundtrip (its share is 20% of the remaining wall cap)");
                    break;
                }
                roundtrip::check_schema(&mut rt, rep, feats);
            }
            rep.count("catalog_roundtrip_database_executions", rt.executions);
            rep.count("catalog_roundtrip_index_plans", rt.index_plans);
            rep.add_transitions(0);
        }
        let mut w = Walker { eng: Engine::new(ctx), rep, case_idx: 0, capped: false };
        for pass in &ps {
            // development aid: `--opt only=<pass name>` restricts the run to one pass
            if ctx.opt("only").map(|o| o != pass.name).unwrap_or(false) {
                continue;
            }
            for &var in &pass.vars {
                let mut ops = vec![];
                w.dfs(pass, var, &mut ops, &BTreeSet::new(), false);
            }
        }
        let (runs, shrink_runs, acc, calib_runs) = (w.eng.runs, w.eng.shrink_runs, w.eng.acc.clone(), w.eng.runner.calib_runs);
        drop(w);
        rep.count("checkpoints_that_moved_frames", acc.ckpt_frames_moved);
        rep.count("checkpoints_that_truncated_wal", acc.ckpt_wal_truncated);
        rep.count("commits_with_auto_checkpoint_armed", acc.auto_ckpt_commits);
        rep.count("rowid_compensation_inserts", acc.burned);
        rep.count("reopen_executions_incl_shrinking", acc.reopens);
        if ctx.opt("timing").is_some() {
            TIMING.with(|t| {
                let t = t.borrow();
                eprintln!("TIMING worker {} runs {} create {:.1}ms stmts {:.1}ms observe {:.1}ms teardown {:.1}ms (per run, avg)", ctx.worker, runs, t[0] as f64 / 1e6 / runs as f64, t[1] as f64 / 1e6 / runs as f64, t[2] as f64 / 1e6 / runs as f64, t[3] as f64 / 1e6 / runs as f64);
            });
        }
        rep.count("rowid_calibration_runs", calib_runs);
        rep.count("database_executions", runs);
        rep.count("executions_spent_shrinking", shrink_runs);
    }

    fn replay(&self, ctx: &Ctx, case: &Value, rep: &mut Reporter) {
        if case["scenario"].as_str() == Some("catalog-roundtrip") {
            let feats: Vec<roundtrip::Feat> = case["features"].as_array().map(|a| a.iter().filter_map(|x| x.as_str().and_then(roundtrip::Feat::parse)).collect()).unwrap_or_default();
            if feats.is_empty() {
                rep.note("replay: case does not parse");
                return;
            }
            // (both WAL settings and both reopen kinds are re-run; the recorded one reproduces its signature)
            let mut rt = roundtrip::RtRunner::new(ctx);
            roundtrip::check_schema(&mut rt, rep, &feats);
            return;
        }
        let Some(key) = RunKey::from_json(&case["run"]).or_else(|| RunKey::from_json(case)) else {
            rep.note("replay: case does not parse");
            return;
        };
        let mut eng = Engine::new(ctx);
        let pass = case["pass"].as_str().unwrap_or("replay").to_string();
        let v = check_case(&mut eng, rep, &key, &pass, true);
        rep.case(vcore::util::hash_of(&key), true);
        rep.add_states(key.steps() as u64);
        rep.add_transitions(key.steps() as u64);
        rep.add_traces_validated(1);
        rep.outcome(if v { "diverged" } else { "equal" });
    }
}

fn main() {
    vcore::main(&C04)
}
