//! C14 — WHERE filtering follows SQL three-valued logic (QRY engine, bounded-exhaustive
//! expression enumeration against the reference evaluator `refmodel::sql::expr`).
//!
//! Table = full cross product a∈{NULL,-1,0,1,2} × b∈{NULL,-1.5,-1.0,-0.5,0.5,1.0,2.0} × c∈{NULL,'','a','ab','b'}
//! (175 rows; b and the float constants -1.5,-0.5,0.5,1.0,1.5 make every int-vs-float comparison class occur:
//! negative / positive fractional float whose truncation equals / differs from the int, integral float
//! equal / unequal, in the orders int column-float constant, float column-int constant, int column-float column), once with `id INT PRIMARY KEY` (table `t`), once with a plain `id INT` (table `n`) and once
//! with the primary key plus secondary B-tree indexes on a and c (table `x`: index-probe plans).
//! For every enumerated predicate p two observations are compared with the model, row by row:
//!   where        `SELECT id FROM <tb> WHERE p`            returned id set == rows where eval_truth(p) = TRUE
//!   select-list  `SELECT id, p FROM <tb> WHERE 1=1`       value per id == TRUE / FALSE / NULL of the model
//!                (a WHERE clause is kept: TurDB's WHERE-less sub-projection is a separate defect)
//!
//! Blame assignment is per ROW: a predicate is reported for a row only if, on that row, every proper
//! boolean sub-expression (evaluated by its own query on the same table, same observation form) agrees
//! with the model.  So `NOT (x)` is blamed on NOT only where x itself filters correctly, and a defect in
//! x (e.g. on the NULL rows only) does not mask the parent on the remaining rows.
//!
//! Signature = C14/<where|select-list>/<shape>/<expected>><observed>; the shape names operators and operand
//! KINDS (col/const/NULL, int/real/text), never literal values.
//!
//! Pass L (LIKE sub-space): tables `lk(id INT PRIMARY KEY, s TEXT)` and `lx` (same + index on s) hold every
//! text of length <= 5 (thorough 6) over {a,b} plus one NULL; every pattern of length <= 4 (thorough 5) over
//! {a,b,%,_} is evaluated as `s LIKE p` and `s NOT LIKE p` in both forms against the recursive reference
//! matcher (so suffix / infix patterns meet texts with repeated and overlapping prefixes).
//! Signature there: C14/<form>/<like|notlike>(text_col|text_ixcol,const:<class>)/<e>><o>, class = the pattern
//! with every run of literals/`_` written X (`%X` suffix, `X%` prefix, `X%X`, ...).
//!
//! Passes: A* = the full grammar; B* = the grammar without the constructs of the recorded findings
//! (`known_broken`), explored deeper; the per-pass predicate counts are in the counters.
use checks::sqlh::{self, Res, TestDb};
use refmodel::sql::expr::*;
use refmodel::sql::{loosely_equal_bool, Schema, Ty};
use refmodel::val::V;
use std::collections::{BTreeMap, HashMap};
use std::rc::Rc;
use vcore::{json, Check, Ctx, Reporter, Spec, Value};

const NROWS: usize = 175;
const ALL: Mask = Mask::first(NROWS);

/// set of row numbers (bit i = row with id i+1); 256 bits
#[derive(Clone, Copy, PartialEq, Eq, Debug, Default)]
struct Mask([u64; 4]);
impl Mask {
    const ZERO: Mask = Mask([0; 4]);
    const fn first(n: usize) -> Mask {
        let mut m = [0u64; 4];
        let mut i = 0;
        while i < n {
            m[i / 64] |= 1 << (i % 64);
            i += 1;
        }
        Mask(m)
    }
    fn set(&mut self, i: usize) {
        self.0[i / 64] |= 1 << (i % 64);
    }
    fn has(&self, i: usize) -> bool {
        self.0[i / 64] & (1 << (i % 64)) != 0
    }
    fn is_zero(&self) -> bool {
        self.0 == [0; 4]
    }
    fn count_ones(&self) -> u32 {
        self.0.iter().map(|w| w.count_ones()).sum()
    }
}
impl std::ops::BitOr for Mask {
    type Output = Mask;
    fn bitor(self, o: Mask) -> Mask {
        Mask([self.0[0] | o.0[0], self.0[1] | o.0[1], self.0[2] | o.0[2], self.0[3] | o.0[3]])
    }
}
impl std::ops::BitAnd for Mask {
    type Output = Mask;
    fn bitand(self, o: Mask) -> Mask {
        Mask([self.0[0] & o.0[0], self.0[1] & o.0[1], self.0[2] & o.0[2], self.0[3] & o.0[3]])
    }
}
impl std::ops::BitXor for Mask {
    type Output = Mask;
    fn bitxor(self, o: Mask) -> Mask {
        Mask([self.0[0] ^ o.0[0], self.0[1] ^ o.0[1], self.0[2] ^ o.0[2], self.0[3] ^ o.0[3]])
    }
}
impl std::ops::Not for Mask {
    type Output = Mask;
    fn not(self) -> Mask {
        Mask([!self.0[0], !self.0[1], !self.0[2], !self.0[3]])
    }
}
impl std::ops::BitOrAssign for Mask {
    fn bitor_assign(&mut self, o: Mask) {
        *self = *self | o;
    }
}
const TABLES: [&str; 3] = ["t", "n", "x"];
const MODES: [&str; 2] = ["where", "select-list"];

// ---------------------------------------------------------------------------
// shapes (signature component)
// ---------------------------------------------------------------------------
/// kind of a column reference in table `tb`: type + access path (`pkcol` = PRIMARY KEY column,
/// `ixcol` = column carrying a secondary B-tree index, `col` = plain column)
fn col_kind(name: &str, tb: usize) -> &'static str {
    match (name, tb) {
        ("id", 0) | ("id", 2) => "id_pkcol",
        ("id", _) => "id_col",
        ("a", 2) => "int_ixcol",
        ("a", _) => "int_col",
        ("b", _) => "real_col",
        ("c", 2) => "text_ixcol",
        ("c", _) => "text_col",
        _ => "any_col",
    }
}
fn is_pred(e: &Expr) -> bool {
    matches!(e, Expr::Cmp(..) | Expr::And(..) | Expr::Or(..) | Expr::Not(..) | Expr::IsNull(..) | Expr::IsNotNull(..) | Expr::In(..) | Expr::Between(..) | Expr::Like(..))
}
fn kind(e: &Expr, tb: usize) -> String {
    match e {
        Expr::Lit(V::Null) => "NULL".into(),
        Expr::Lit(V::Int(_)) => "int_const".into(),
        Expr::Lit(V::Float(_)) => "real_const".into(),
        Expr::Lit(V::Text(_)) => "text_const".into(),
        Expr::Lit(V::Bool(_)) => "bool_const".into(),
        Expr::Lit(_) => "raw_expr".into(),
        Expr::Col(c) => col_kind(&c.name, tb).to_string(),
        o => brief(o).to_string(),
    }
}
/// operand kind without the type (inside IN lists / BETWEEN bounds: the type is that of the subject)
fn kind_short(e: &Expr) -> &'static str {
    match e {
        Expr::Lit(V::Null) => "NULL",
        Expr::Lit(_) => "const",
        Expr::Col(_) => "col",
        _ => "expr",
    }
}
fn op_name(op: CmpOp) -> &'static str {
    match op {
        CmpOp::Eq => "eq",
        CmpOp::Ne => "ne",
        CmpOp::Lt => "lt",
        CmpOp::Le => "le",
        CmpOp::Gt => "gt",
        CmpOp::Ge => "ge",
    }
}
/// operator family of a node
fn brief(e: &Expr) -> &'static str {
    match e {
        Expr::Cmp(..) => "cmp",
        Expr::And(..) => "AND",
        Expr::Or(..) => "OR",
        Expr::Not(..) => "NOT",
        Expr::IsNull(..) => "isnull",
        Expr::IsNotNull(..) => "isnotnull",
        Expr::In(_, _, false) => "in",
        Expr::In(_, _, true) => "notin",
        Expr::Between(_, _, _, false) => "between",
        Expr::Between(_, _, _, true) => "notbetween",
        Expr::Like(_, _, false) => "like",
        Expr::Like(_, _, true) => "notlike",
        Expr::Lit(_) => "lit",
        Expr::Col(_) => "col",
        _ => "other",
    }
}
/// operand of a connective: operator family, plus `@pk` / `@ix` when it reads an indexed column of `tb`
/// (the planner treats conjuncts on indexed columns specially)
fn operand(e: &Expr, tb: usize) -> String {
    let mut s = brief(e).to_string();
    let kinds: Vec<&str> = e.columns().iter().map(|c| col_kind(&c.name, tb)).collect();
    if kinds.iter().any(|k| k.ends_with("_pkcol")) {
        s.push_str("@pk");
    } else if kinds.iter().any(|k| k.ends_with("_ixcol")) {
        s.push_str("@ix");
    }
    s
}
fn is_atom(e: &Expr) -> bool {
    match e {
        Expr::And(..) | Expr::Or(..) | Expr::Not(..) => false,
        Expr::IsNull(a) | Expr::IsNotNull(a) => !is_pred(a),
        _ => true,
    }
}
/// canonical shape: atoms in full operand-kind detail, connectives with the operator family of their operands
fn shape(e: &Expr, tb: usize) -> String {
    match e {
        Expr::Cmp(op, a, b) => format!("cmp_{}({},{})", op_name(*op), kind(a, tb), kind(b, tb)),
        Expr::IsNull(a) | Expr::IsNotNull(a) => format!("{}({})", brief(e), if is_pred(a) { format!("pred:{}", operand(a, tb)) } else { kind(a, tb) }),
        Expr::In(x, list, _) => format!("{}({},[{}])", brief(e), kind(x, tb), list.iter().map(kind_short).collect::<Vec<_>>().join(",")),
        Expr::Between(x, lo, hi, _) => format!("{}({},{},{})", brief(e), kind(x, tb), kind_short(lo), kind_short(hi)),
        Expr::Like(x, p, _) => format!("{}({},{})", brief(e), kind(x, tb), kind_short(p)),
        Expr::Not(a) => {
            if is_atom(a) {
                format!("NOT({})", shape(a, tb))
            } else {
                format!("NOT({})", brief(a))
            }
        }
        Expr::And(a, b) => format!("AND({},{})", operand(a, tb), operand(b, tb)),
        Expr::Or(a, b) => format!("OR({},{})", operand(a, tb), operand(b, tb)),
        o => brief(o).to_string(),
    }
}
fn count_ops(e: &Expr, out: &mut BTreeMap<&'static str, u64>) {
    if is_pred(e) {
        *out.entry(brief(e)).or_insert(0) += 1;
        for c in e.children() {
            count_ops(c, out);
        }
    }
}
fn pred_children(e: &Expr) -> Vec<&Expr> {
    match e {
        Expr::Not(a) => vec![a],
        Expr::And(a, b) | Expr::Or(a, b) => vec![a, b],
        Expr::IsNull(a) | Expr::IsNotNull(a) if is_pred(a) => vec![a],
        _ => vec![],
    }
}

/// Constructs listed in /verif/findings.d/C14.json (the B passes leave exactly these out):
///  * NOT (any operand)                                                  KF-C14-01
///  * `=`, `<=`, `>=` between two nullable operands                       KF-C14-02 (NULL = NULL is TRUE)
///  * IN list containing NULL                                             KF-C14-03
///  * NOT IN / NOT BETWEEN / NOT LIKE                                     KF-C14-04 (UNKNOWN negated to TRUE)
///  * IS [NOT] NULL applied to a predicate                                KF-C14-05
///  (KF-C14-06, conjuncts dropped next to an index probe, is fixed in /repo by 17280f3: no longer excluded)
///  * indexed INT column = REAL literal                                   KF-C14-07 (index probe with a float key)
/// (the select-list defect KF-C14-08 — UNKNOWN shown as FALSE — touches every operator; there the
///  per-row blame keeps the remaining rows under test)
fn known_broken(e: &Expr, tb: usize) -> bool {
    fn nullable(e: &Expr) -> bool {
        match e {
            Expr::Lit(V::Null) => true,
            Expr::Col(c) => c.name != "id",
            _ => false,
        }
    }
    fn indexed(name: &str, tb: usize) -> bool {
        let k = col_kind(name, tb);
        k.ends_with("_pkcol") || k.ends_with("_ixcol")
    }
    fn eq_col_lit(e: &Expr) -> Option<(&str, &Expr)> {
        match e {
            Expr::Cmp(CmpOp::Eq, a, b) => match (&**a, &**b) {
                (Expr::Col(c), l @ Expr::Lit(_)) | (l @ Expr::Lit(_), Expr::Col(c)) => Some((c.name.as_str(), l)),
                _ => None,
            },
            _ => None,
        }
    }
    match e {
        Expr::Not(_) => true,
        Expr::Cmp(op, a, b) => {
            if matches!(op, CmpOp::Eq | CmpOp::Le | CmpOp::Ge) && nullable(a) && nullable(b) {
                return true;
            }
            matches!(eq_col_lit(e), Some((c, Expr::Lit(V::Float(_)))) if indexed(c, tb) && c != "b")
        }
        Expr::In(_, list, false) => list.iter().any(|x| matches!(x, Expr::Lit(V::Null))),
        Expr::In(_, _, true) | Expr::Between(_, _, _, true) | Expr::Like(_, _, true) => true,
        Expr::IsNull(a) | Expr::IsNotNull(a) => is_pred(a),
        Expr::And(a, b) => {
            if known_broken(a, tb) || known_broken(b, tb) {
                return true;
            }
            false
        }
        Expr::Or(a, b) => known_broken(a, tb) || known_broken(b, tb),
        _ => false,
    }
}

// ---------------------------------------------------------------------------
// predicate <-> JSON (replay files)
// ---------------------------------------------------------------------------
fn enc(e: &Expr) -> Value {
    match e {
        Expr::Lit(V::Null) => json!({"k": "null"}),
        Expr::Lit(V::Int(i)) => json!({"k": "int", "v": i}),
        Expr::Lit(V::Float(f)) => json!({"k": "float", "v": f}),
        Expr::Lit(V::Text(s)) => json!({"k": "text", "v": s}),
        Expr::Lit(V::Bool(b)) => json!({"k": "bool", "v": b}),
        Expr::Lit(V::Other(s)) => json!({"k": "raw", "v": s}),
        Expr::Lit(V::Blob(_)) => json!({"k": "unsupported"}),
        Expr::Col(c) => json!({"k": "col", "v": c.to_sql()}),
        Expr::Cmp(op, a, b) => json!({"k": "cmp", "op": op.sql(), "a": enc(a), "b": enc(b)}),
        Expr::And(a, b) => json!({"k": "and", "a": enc(a), "b": enc(b)}),
        Expr::Or(a, b) => json!({"k": "or", "a": enc(a), "b": enc(b)}),
        Expr::Not(a) => json!({"k": "not", "a": enc(a)}),
        Expr::IsNull(a) => json!({"k": "isnull", "a": enc(a)}),
        Expr::IsNotNull(a) => json!({"k": "isnotnull", "a": enc(a)}),
        Expr::In(a, l, n) => json!({"k": "in", "neg": n, "a": enc(a), "list": l.iter().map(enc).collect::<Vec<_>>()}),
        Expr::Between(a, lo, hi, n) => json!({"k": "between", "neg": n, "a": enc(a), "lo": enc(lo), "hi": enc(hi)}),
        Expr::Like(a, p, n) => json!({"k": "like", "neg": n, "a": enc(a), "p": enc(p)}),
        _ => json!({"k": "unsupported"}),
    }
}
fn dec(v: &Value) -> Option<Expr> {
    let sub = |k: &str| dec(&v[k]);
    Some(match v["k"].as_str()? {
        "null" => null(),
        "int" => int(v["v"].as_i64()?),
        "float" => float(v["v"].as_f64()?),
        "text" => text(v["v"].as_str()?),
        "bool" => boolean(v["v"].as_bool()?),
        "raw" => lit(V::Other(v["v"].as_str()?.to_string())),
        "col" => col(v["v"].as_str()?),
        "cmp" => {
            let op = *CmpOp::ALL.iter().find(|o| o.sql() == v["op"].as_str().unwrap_or(""))?;
            cmp(op, sub("a")?, sub("b")?)
        }
        "and" => and(sub("a")?, sub("b")?),
        "or" => or(sub("a")?, sub("b")?),
        "not" => not(sub("a")?),
        "isnull" => is_null(sub("a")?),
        "isnotnull" => is_not_null(sub("a")?),
        "in" => {
            let l: Option<Vec<Expr>> = v["list"].as_array()?.iter().map(dec).collect();
            Expr::In(Box::new(sub("a")?), l?, v["neg"].as_bool()?)
        }
        "between" => Expr::Between(Box::new(sub("a")?), Box::new(sub("lo")?), Box::new(sub("hi")?), v["neg"].as_bool()?),
        "like" => Expr::Like(Box::new(sub("a")?), Box::new(sub("p")?), v["neg"].as_bool()?),
        _ => return None,
    })
}

// ---------------------------------------------------------------------------
// enumeration of NOT/AND/OR trees with lazy construction (index -> tree)
// ---------------------------------------------------------------------------
/// Same order as `refmodel::sql::expr::trees` (simplest first; within one depth NOT, then AND, then OR,
/// ordered operand pairs); `with_not=false` leaves the NOT block out.  Trees are built from their index,
/// so a worker only constructs the trees of its own slice.
struct Gen {
    levels: Vec<Vec<Expr>>, // levels[d] = trees of depth exactly d (materialised)
    with_not: bool,
}
impl Gen {
    fn new(atoms: &[Expr], with_not: bool) -> Gen {
        Gen { levels: vec![atoms.to_vec()], with_not }
    }
    fn lower_total(&self, below: usize) -> usize {
        self.levels[..below].iter().map(|l| l.len()).sum()
    }
    fn nth_lower(&self, below: usize, mut i: usize) -> &Expr {
        for l in &self.levels[..below] {
            if i < l.len() {
                return &l[i];
            }
            i -= l.len();
        }
        unreachable!()
    }
    /// number of trees of depth exactly d (levels[..d] must be materialised)
    fn level_len(&self, d: usize) -> u128 {
        if d == 0 {
            return self.levels[0].len() as u128;
        }
        let nt = self.levels[d - 1].len() as u128;
        let nl = self.lower_total(d - 1) as u128;
        (if self.with_not { nt } else { 0 }) + 2 * (nt * (nt + nl) + nl * nt)
    }
    fn make(&self, d: usize, pos: u128) -> Option<Expr> {
        if d == 0 {
            return self.levels[0].get(pos as usize).cloned();
        }
        let top = &self.levels[d - 1];
        let nt = top.len() as u128;
        let nl = self.lower_total(d - 1) as u128;
        let all = nt + nl;
        let nn = if self.with_not { nt } else { 0 };
        if pos < nn {
            return Some(not(top[pos as usize].clone()));
        }
        let mut p = pos - nn;
        let per_op = nt * all + nl * nt;
        if per_op == 0 {
            return None;
        }
        let op = p / per_op;
        if op >= 2 {
            return None;
        }
        p %= per_op;
        let pick_all = |i: u128| -> Expr {
            if i < nl {
                self.nth_lower(d - 1, i as usize).clone()
            } else {
                top[(i - nl) as usize].clone()
            }
        };
        let (l, r) = if p < nt * all {
            (top[(p / all) as usize].clone(), pick_all(p % all))
        } else {
            let q = p - nt * all;
            (self.nth_lower(d - 1, (q / nt) as usize).clone(), top[(q % nt) as usize].clone())
        };
        Some(if op == 0 { and(l, r) } else { or(l, r) })
    }
    fn materialize(&mut self, d: usize) {
        if self.levels.len() > d {
            return;
        }
        let n = self.level_len(d);
        let v: Vec<Expr> = (0..n).filter_map(|p| self.make(d, p)).collect();
        self.levels.push(v);
    }
}

// ---------------------------------------------------------------------------
// fixture
// ---------------------------------------------------------------------------
struct Fx {
    db: TestDb,
    rows: Vec<Vec<V>>, // id, a, b, c
    schema: Schema,
    memo: HashMap<(u8, u8, String), Rc<Ev>>,
    plant: Option<String>,
}

fn domain_rows() -> Vec<Vec<V>> {
    let a = [V::Null, V::Int(-1), V::Int(0), V::Int(1), V::Int(2)];
    let b = [V::Null, V::Float(-1.5), V::Float(-1.0), V::Float(-0.5), V::Float(0.5), V::Float(1.0), V::Float(2.0)];
    let c = [V::Null, V::Text("".into()), V::Text("a".into()), V::Text("ab".into()), V::Text("b".into())];
    let mut rows = vec![];
    for x in &a {
        for y in &b {
            for z in &c {
                rows.push(vec![V::Int(rows.len() as i64 + 1), x.clone(), y.clone(), z.clone()]);
            }
        }
    }
    rows
}
fn full_schema() -> Schema {
    Schema::of(&[("id", Ty::Int), ("a", Ty::Int), ("b", Ty::Real), ("c", Ty::Text)])
}
fn abc_schema() -> Schema {
    Schema::of(&[("a", Ty::Int), ("b", Ty::Real), ("c", Ty::Text)])
}

impl Fx {
    fn new(ctx: &Ctx) -> Result<Fx, String> {
        let db = TestDb::create(&ctx.scratch, "c14db")?;
        let rows = domain_rows();
        for (tb, ddl) in [("t", "CREATE TABLE t(id INT PRIMARY KEY, a INT, b REAL, c TEXT)"), ("n", "CREATE TABLE n(id INT, a INT, b REAL, c TEXT)"), ("x", "CREATE TABLE x(id INT PRIMARY KEY, a INT, b REAL, c TEXT)")] {
            let r = db.exec(ddl);
            if !r.ok() {
                return Err(format!("{ddl}: {}", r.show()));
            }
            if tb == "x" {
                for ix in ["CREATE INDEX xa ON x(a)", "CREATE INDEX xc ON x(c)"] {
                    let r = db.exec(ix);
                    if !r.ok() {
                        return Err(format!("{ix}: {}", r.show()));
                    }
                }
            }
            for chunk in rows.chunks(25) {
                let vals: Vec<String> = chunk.iter().map(|r| format!("({})", r.iter().map(lit_sql).collect::<Vec<_>>().join(", "))).collect();
                let sql = format!("INSERT INTO {tb} VALUES {}", vals.join(", "));
                match db.exec(&sql) {
                    Res::Affected(25, _) => {}
                    o => return Err(format!("{}: {}", vcore::util::clip(&sql, 120), o.show())),
                }
            }
            // the fixture itself must read back exactly (SELECT * is the observation the other checks trust)
            match db.exec(&format!("SELECT * FROM {tb}")) {
                Res::Rows(got) => {
                    if refmodel::val::bag(&got) != refmodel::val::bag(&rows) {
                        return Err(format!("table {tb} does not read back as loaded: {}", refmodel::val::show_rows(&got)));
                    }
                }
                o => return Err(format!("SELECT * FROM {tb}: {}", o.show())),
            }
        }
        Ok(Fx { db, rows, schema: full_schema(), memo: HashMap::new(), plant: ctx.opt("plant").map(|s| s.to_string()) })
    }
}

// ---------------------------------------------------------------------------
// one evaluation: model vs TurDB, per row
// ---------------------------------------------------------------------------
#[derive(Clone, Debug)]
enum Obs {
    /// bit i set = row i returned (where) / has that class (select-list)
    Where { t: Mask },
    Sel { t: Mask, f: Mask, n: Mask },
    /// Err / Panic / malformed result (duplicate ids, unknown id, wrong row or column count)
    Bad { class: &'static str, msg: String },
}
struct Ev {
    exp_t: Mask,
    exp_f: Mask,
    exp_n: Mask,
    skipped: Mask, // rows on which the model raises (Overflow/DivZero/Type): not compared
    obs: Obs,
    wrong: Mask, // compared rows on which observation and model differ (ALL for Bad)
}

fn model(fx: &Fx, p: &Expr) -> (Mask, Mask, Mask, Mask) {
    let (mut t, mut f, mut n, mut s) = (Mask::ZERO, Mask::ZERO, Mask::ZERO, Mask::ZERO);
    for (i, r) in fx.rows.iter().enumerate() {
        match p.eval_truth(r, &fx.schema) {
            Ok(Some(true)) => t.set(i as usize),
            Ok(Some(false)) => f.set(i as usize),
            Ok(None) => n.set(i as usize),
            Err(_) => s.set(i as usize),
        }
    }
    (t, f, n, s)
}

fn planted_sql(fx: &Fx, sql: String) -> String {
    // harness self-test only (`--opt plant=<name>`): perturb what is sent to the subject
    match fx.plant.as_deref() {
        Some("and2or") => sql.replacen(" AND ", " OR ", 1),
        Some("le2lt") => sql.replace(" <= ", " < "),
        Some("like") => sql.replace("LIKE 'a%'", "LIKE 'a_'"),
        Some("negfrac") => sql.replace("(-1.5)", "(-1.0)").replace("(-0.5)", "0"),
        _ => sql,
    }
}

fn observe(fx: &Fx, tb: usize, mode: usize, p: &Expr) -> Obs {
    let psql = planted_sql(fx, p.to_sql());
    let sql = if mode == 0 { format!("SELECT id FROM {} WHERE {}", TABLES[tb], psql) } else { format!("SELECT id, {} FROM {} WHERE 1=1", psql, TABLES[tb]) };
    let rows = match fx.db.exec(&sql) {
        Res::Rows(r) => r,
        Res::Err(e) => return Obs::Bad { class: "error", msg: e },
        Res::Panic(e) => return Obs::Bad { class: "panic", msg: e },
        o => return Obs::Bad { class: "not-rows", msg: o.show() },
    };
    let (mut t, mut f, mut n) = (Mask::ZERO, Mask::ZERO, Mask::ZERO);
    let mut seen = Mask::ZERO;
    for r in &rows {
        if r.len() != 1 + mode {
            return Obs::Bad { class: "column-count", msg: format!("row {}", refmodel::val::show_row(r)) };
        }
        let id = match &r[0] {
            V::Int(i) if *i >= 1 && *i <= NROWS as i64 => (*i - 1) as u32,
            o => return Obs::Bad { class: "unknown-id", msg: o.show() },
        };
        if seen.has(id as usize) {
            return Obs::Bad { class: "duplicate-row", msg: format!("id {} returned twice", id + 1) };
        }
        seen.set(id as usize);
        if mode == 0 {
            t.set(id as usize);
        } else {
            let v = &r[1];
            if v.is_null() {
                n.set(id as usize);
            } else if loosely_equal_bool(v, &V::Bool(true)) {
                t.set(id as usize);
            } else if loosely_equal_bool(v, &V::Bool(false)) {
                f.set(id as usize);
            } else {
                return Obs::Bad { class: "not-a-truth-value", msg: format!("id {}: {}", id + 1, v.show()) };
            }
        }
    }
    if mode == 0 {
        Obs::Where { t }
    } else if seen != ALL {
        Obs::Bad { class: "row-count", msg: format!("{} of {NROWS} rows returned with WHERE 1=1", rows.len()) }
    } else {
        Obs::Sel { t, f, n }
    }
}

fn evaluate(fx: &Fx, tb: usize, mode: usize, p: &Expr) -> Ev {
    let (exp_t, exp_f, exp_n, skipped) = model(fx, p);
    let obs = observe(fx, tb, mode, p);
    let cmp = ALL & !skipped;
    let wrong = match &obs {
        Obs::Where { t } => (*t ^ exp_t) & cmp,
        Obs::Sel { t, f, n } => ((*t ^ exp_t) | (*f ^ exp_f) | (*n ^ exp_n)) & cmp,
        Obs::Bad { .. } => ALL,
    };
    Ev { exp_t, exp_f, exp_n, skipped, obs, wrong }
}

/// memoised evaluation of a sub-expression
fn sub_eval(fx: &mut Fx, tb: usize, mode: usize, p: &Expr) -> Rc<Ev> {
    let key = (tb as u8, mode as u8, p.to_sql());
    if let Some(e) = fx.memo.get(&key) {
        return e.clone();
    }
    let ev = Rc::new(evaluate(fx, tb, mode, p));
    fx.memo.insert(key, ev.clone());
    ev
}
/// rows on which some proper boolean sub-expression disagrees with the model; .1 = some sub-expression is Bad
fn descendants_wrong(fx: &mut Fx, tb: usize, mode: usize, p: &Expr) -> (Mask, bool) {
    let mut w = Mask::ZERO;
    let mut bad = false;
    for c in pred_children(p) {
        let ev = sub_eval(fx, tb, mode, c);
        w |= ev.wrong;
        bad |= matches!(ev.obs, Obs::Bad { .. });
        let (dw, db) = descendants_wrong(fx, tb, mode, c);
        w |= dw;
        bad |= db;
    }
    (w, bad)
}

fn ids(mask: Mask) -> Vec<usize> {
    (0..NROWS).filter(|i| mask.has(*i)).map(|i| i + 1).collect()
}
fn class_of(t: Mask, f: Mask, n: Mask, i: usize) -> char {
    if t.has(i) {
        'T'
    } else if f.has(i) {
        'F'
    } else if n.has(i) {
        'N'
    } else {
        '?'
    }
}

/// Check one predicate on one table in one observation form.  Returns true if a violation was reported.
fn check_pred(fx: &mut Fx, rep: &mut Reporter, pass: &str, tb: usize, mode: usize, p: &Expr) -> bool {
    let ev = evaluate(fx, tb, mode, p);
    let compared = (ALL & !ev.skipped).count_ones() as u64;
    rep.count("rows_compared", compared);
    rep.count("model_error_rows_skipped", ev.skipped.count_ones() as u64);
    rep.count(if mode == 0 { "where_queries" } else { "select_list_queries" }, 1);
    let nontrivial = [ev.exp_t, ev.exp_f, ev.exp_n].iter().filter(|m| !m.is_zero()).count() >= 2;
    rep.case(vcore::util::hash_of(&(tb, mode, p)), nontrivial);
    let m = MODES[mode];
    if ev.wrong.is_zero() {
        rep.outcome(&format!("{m}:agrees"));
        return false;
    }
    let (dw, dbad) = descendants_wrong(fx, tb, mode, p);
    let case = |p: &Expr| json!({"pass": pass, "table": TABLES[tb], "mode": m, "sql": p.to_sql(), "pred": enc(p)});
    if let Obs::Bad { class, msg } = &ev.obs {
        if dbad {
            rep.pruned(1);
            rep.count("blamed_on_subexpression", 1);
            return false;
        }
        rep.outcome(&format!("{m}:{class}"));
        rep.violation("C14", m, &format!("C14/{m}/{}/{class}", shape(p, tb)), || case(p), "a row set / one truth value per row", msg);
        return true;
    }
    let blamed = ev.wrong & !dw;
    if blamed.is_zero() {
        rep.pruned(1);
        rep.count("blamed_on_subexpression", 1);
        rep.outcome(&format!("{m}:differs-in-subexpression-only"));
        return false;
    }
    let (ot, of, on) = match &ev.obs {
        Obs::Where { t } => (*t, ALL & !*t, Mask::ZERO),
        Obs::Sel { t, f, n } => (*t, *f, *n),
        Obs::Bad { .. } => unreachable!(),
    };
    let mut classes: BTreeMap<(char, char), Mask> = BTreeMap::new();
    for i in 0..NROWS {
        if blamed.has(i) {
            classes.entry((class_of(ev.exp_t, ev.exp_f, ev.exp_n, i), class_of(ot, of, on, i))).or_insert(Mask::ZERO).set(i);
        }
    }
    for ((e, o), mask) in classes {
        // in a WHERE clause an absent row is reported as F (FALSE and UNKNOWN are not distinguishable there)
        let sig = format!("C14/{m}/{}/{e}>{o}", shape(p, tb));
        rep.outcome(&format!("{m}:{e}>{o}"));
        let first = ids(mask)[0];
        let r = &fx.rows[first - 1];
        rep.violation(
            "C14",
            m,
            &sig,
            || case(p),
            &format!("{} on the rows with id {:?} (e.g. id {first}: a={} b={} c={})", e, ids(mask), r[1].show(), r[2].show(), r[3].show()),
            &format!("{} for these rows ({})", o, if mode == 0 { if o == 'T' { "row returned" } else { "row not returned" } } else { "value in the select list" }),
        );
    }
    true
}

// ---------------------------------------------------------------------------
// passes
// ---------------------------------------------------------------------------
struct Job<'a> {
    name: &'a str,
    tables: &'a [usize],
    modes: &'a [usize],
    explain: bool,
    /// B passes: leave out every (predicate, table) that contains a construct of a recorded finding
    skip_known_broken: bool,
}

struct Run<'a> {
    ctx: &'a Ctx,
    idx: u64,
    done_since_check: u32,
    expired: bool,
}
impl<'a> Run<'a> {
    fn one(&mut self, fx: &mut Fx, rep: &mut Reporter, job: &Job, p: &Expr) {
        self.idx += 1;
        if self.expired || !self.ctx.mine(self.idx) {
            return;
        }
        self.done_since_check += 1;
        if self.done_since_check >= 32 {
            self.done_since_check = 0;
            if self.ctx.expired() {
                self.expired = true;
                return;
            }
        }
        rep.count("predicates", 1);
        rep.count(&format!("pass.{}.predicates", job.name), 1);
        if job.name.starts_with("A1") {
            count_int_vs_float(fx, rep, p);
        }
        let mut ops = BTreeMap::new();
        count_ops(p, &mut ops);
        for (k, n) in ops {
            rep.count(&format!("op.{k}"), n);
        }
        for &tb in job.tables {
            if known_broken(p, tb) {
                rep.count("evaluations_with_known_broken_construct", job.modes.len() as u64);
                if job.skip_known_broken {
                    rep.count(&format!("pass.{}.skipped_known_broken", job.name), 1);
                    continue;
                }
            }
            for &mode in job.modes {
                check_pred(fx, rep, job.name, tb, mode, p);
            }
            if job.explain {
                let plan = sqlh::explain(fx.db.db(), &format!("SELECT id FROM {} WHERE {}", TABLES[tb], p.to_sql()));
                rep.count(&format!("plan.{}.{}", TABLES[tb], plan_class(&plan)), 1);
            }
        }
        rep.sample(|| json!({"pass": job.name, "sql": format!("SELECT id FROM t WHERE {}", p.to_sql()), "shape": shape(p, 0)}));
    }
    /// all trees of depth <= depth over `atoms` (+ NOT over every tree of the last depth if `outer_not`)
    fn trees(&mut self, fx: &mut Fx, rep: &mut Reporter, job: &Job, atoms: &[Expr], depth: usize, with_not: bool, outer_not: bool) {
        let was_expired = self.expired;
        let mut g = Gen::new(atoms, with_not);
        let mut total: u128 = 0;
        for d in 0..=depth {
            let n = g.level_len(d);
            total += n;
            for pos in 0..n {
                if self.expired {
                    break;
                }
                if self.ctx.mine(self.idx + 1) {
                    let e = g.make(d, pos).expect("index within level");
                    self.one(fx, rep, job, &e);
                } else {
                    self.idx += 1;
                }
            }
            if d < depth || outer_not {
                g.materialize(d);
            }
        }
        if outer_not {
            let last = g.levels[depth].clone();
            total += last.len() as u128;
            for x in last {
                self.one(fx, rep, job, &not(x));
            }
        }
        rep.bound(&format!("pass.{}", job.name), json!({"atoms": atoms.len(), "depth": depth, "connectives": if with_not { "NOT AND OR" } else { "AND OR" }, "outer_not": outer_not, "predicates": total.to_string(), "tables": job.tables.iter().map(|t| TABLES[*t]).collect::<Vec<_>>(), "forms": job.modes.iter().map(|m| MODES[*m]).collect::<Vec<_>>()}));
        if was_expired {
            rep.capped(&format!("pass {} not run (the deadline was hit in an earlier pass)", job.name));
        } else if self.expired {
            rep.capped(&format!("deadline inside pass {} (the passes before it are complete; see pass.{}.predicates for the number done)", job.name, job.name));
        }
    }
    /// pass L: every pattern of length <= maxp over {a,b,%,_} against every text of length <= maxt over {a,b}
    fn like_space(&mut self, fx: &mut Fx, rep: &mut Reporter, maxt: usize, maxp: usize) {
        let was_expired = self.expired;
        let texts = likespace::texts(maxt);
        let pats = likespace::patterns(maxp);
        rep.bound("pass.L-like-space", json!({"text_alphabet": "a b", "max_text_len": maxt, "texts": texts.len() - 1, "null_rows": 1, "pattern_alphabet": "a b % _", "max_pattern_len": maxp, "patterns": pats.len(), "operators": ["LIKE", "NOT LIKE"], "tables": likespace::LTABLES, "forms": MODES}));
        if let Err(e) = likespace::load(&fx.db, &texts) {
            if self.ctx.worker == 0 {
                rep.case(1, false);
                rep.violation("C14", "fixture", "C14/fixture/load-like-space", || json!({"likespace": true, "fixture": true, "maxt": maxt}), "the LIKE text tables load and read back", &e);
            }
            return;
        }
        'outer: for pat in &pats {
            for neg in [false, true] {
                self.idx += 1;
                if self.expired {
                    break 'outer;
                }
                if !self.ctx.mine(self.idx) {
                    continue;
                }
                if self.ctx.expired() {
                    self.expired = true;
                    break 'outer;
                }
                rep.count("like_space.patterns", 1);
                rep.count(if neg { "op.notlike" } else { "op.like" }, 1);
                for tb in 0..likespace::LTABLES.len() {
                    for mode in 0..MODES.len() {
                        likespace::check(&fx.db, rep, &texts, maxt, tb, mode, pat, neg, fx.plant.as_deref());
                    }
                    if !neg {
                        let plan = sqlh::explain(fx.db.db(), &format!("SELECT id FROM {} WHERE s LIKE {}", likespace::LTABLES[tb], lit_sql(&V::Text(pat.clone()))));
                        rep.count(&format!("plan.{}.{}", likespace::LTABLES[tb], plan_class(&plan)), 1);
                    }
                }
            }
        }
        if was_expired {
            rep.capped("pass L-like-space not run (the deadline was hit in an earlier pass)");
        } else if self.expired {
            rep.capped("deadline inside pass L-like-space");
        }
    }
    fn list(&mut self, fx: &mut Fx, rep: &mut Reporter, job: &Job, preds: &[Expr]) {
        let was_expired = self.expired;
        for p in preds {
            self.one(fx, rep, job, p);
        }
        rep.bound(&format!("pass.{}", job.name), json!({"predicates": preds.len(), "tables": job.tables.iter().map(|t| TABLES[*t]).collect::<Vec<_>>(), "forms": job.modes.iter().map(|m| MODES[*m]).collect::<Vec<_>>()}));
        if was_expired {
            rep.capped(&format!("pass {} not run (the deadline was hit in an earlier pass)", job.name));
        } else if self.expired {
            rep.capped(&format!("deadline inside pass {}", job.name));
        }
    }
}

fn plan_class(plan: &Option<String>) -> &'static str {
    match plan {
        None => "ExplainError",
        Some(p) => {
            if p.contains("SecondaryIndexScan") {
                "SecondaryIndexScan"
            } else if p.contains("IndexScan") {
                "IndexScan"
            } else if p.contains("TableScan") {
                "TableScan"
            } else {
                "Other"
            }
        }
    }
}

/// Constants offered to the refmodel atom enumerator: those of `Consts::c14()` plus -1 and the float
/// constants -0.5, -1.5, 1.5 (int-vs-float comparisons with a negative / positive fractional float whose
/// truncation equals the integer).  Order matters only for IN/BETWEEN, which take the first (0) and last (1.0).
fn consts() -> Consts {
    let mut k = Consts::c14();
    k.ints = vec![0, -1, 1, 2];
    k.floats = vec![0.5, -0.5, -1.5, 1.5, 1.0];
    k
}

const IVF_ORDERS: [&str; 3] = ["intcol-floatconst", "floatcol-intconst", "intcol-floatcol"];
const IVF_CLASSES: [&str; 6] = ["negfrac-trunc-eq-int", "negfrac-trunc-ne-int", "posfrac-trunc-eq-int", "posfrac-trunc-ne-int", "integral-eq-int", "integral-ne-int"];
/// vacuity evidence: for a comparison atom between an integer and a float operand, count per
/// (operand order, value class, operator) the rows on which that class occurs
fn count_int_vs_float(fx: &Fx, rep: &mut Reporter, p: &Expr) {
    let Expr::Cmp(op, x, y) = p else { return };
    let order = match (&**x, &**y) {
        (Expr::Col(c), Expr::Lit(V::Float(_))) if c.name == "a" => IVF_ORDERS[0],
        (Expr::Col(c), Expr::Lit(V::Int(_))) if c.name == "b" => IVF_ORDERS[1],
        (Expr::Col(c), Expr::Col(d)) if c.name == "a" && d.name == "b" => IVF_ORDERS[2],
        (Expr::Lit(V::Int(_)), Expr::Col(c)) if c.name == "b" => "intconst-floatcol",
        _ => return,
    };
    let mut seen: BTreeMap<&'static str, u64> = BTreeMap::new();
    for r in &fx.rows {
        let (Ok(xv), Ok(yv)) = (x.eval(r, &fx.schema), y.eval(r, &fx.schema)) else { continue };
        let (i, f) = match (&xv, &yv) {
            (V::Int(i), V::Float(f)) | (V::Float(f), V::Int(i)) => (*i, *f),
            _ => continue,
        };
        let trunc_eq = f.trunc() == i as f64;
        let class = if f.fract() == 0.0 {
            if trunc_eq { IVF_CLASSES[4] } else { IVF_CLASSES[5] }
        } else if f < 0.0 {
            if trunc_eq { IVF_CLASSES[0] } else { IVF_CLASSES[1] }
        } else if trunc_eq {
            IVF_CLASSES[2]
        } else {
            IVF_CLASSES[3]
        };
        *seen.entry(class).or_insert(0) += 1;
    }
    for (class, n) in seen {
        rep.count(&format!("intfloat.{order}.{class}.{}", op_name(*op)), n);
    }
}

/// atoms on the id column (primary key in `t`, plain column in `n`): index-eligible shapes
fn id_atoms() -> Vec<Expr> {
    let id = || col("id");
    vec![
        eq(id(), int(7)),
        eq(int(7), id()),
        eq(id(), int(200)),
        eq(id(), float(7.0)),
        ne(id(), int(7)),
        lt(id(), int(4)),
        le(id(), int(3)),
        gt(id(), int(120)),
        ge(id(), int(123)),
        eq(id(), null()),
        eq(id(), col("a")),
        lt(id(), col("a")),
        is_null(id()),
        is_not_null(id()),
        in_list(id(), vec![int(3), int(77)]),
        in_list(id(), vec![int(3), null()]),
        not_in_list(id(), vec![int(3), int(77)]),
        not_in_list(id(), vec![int(3), null()]),
        between(id(), int(10), int(14)),
        between(id(), null(), int(14)),
        not_between(id(), int(3), int(123)),
    ]
}

/// a small AND/OR-safe core for the deepest pass: one atom per operator family and column type
fn mini_core() -> Vec<Expr> {
    vec![
        gt(col("a"), int(0)),
        lt(col("a"), col("b")),
        is_null(col("a")),
        in_list(col("a"), vec![int(0), int(2)]),
        between(col("b"), float(0.5), float(1.0)),
        like(col("c"), text("a%")),
        eq(col("a"), int(1)),
        eq(col("c"), text("a")),
    ]
}

// ---------------------------------------------------------------------------
// L: the LIKE sub-space (every pattern x every text of a small alphabet)
// ---------------------------------------------------------------------------
/// Tables `lk(id INT PRIMARY KEY, s TEXT)` and `lx` (same, plus a secondary index on s) hold EVERY text of
/// length <= maxt over {a,b} plus one NULL; every pattern of length <= maxp over {a,b,%,_} is evaluated as
/// `s LIKE p` and `s NOT LIKE p` in both observation forms and compared per row with the recursive
/// reference matcher `refmodel::sql::expr::like_match`.  Because texts and patterns are complete over the
/// alphabet, every interplay of `%`, `_` and literals with repeated / overlapping text prefixes occurs
/// (e.g. a partial match of the tail behind `%` that fails right where the real match starts).
mod likespace {
    use super::*;

    pub const LTABLES: [&str; 2] = ["lk", "lx"];
    const ALPHA_T: [char; 2] = ['a', 'b'];
    const ALPHA_P: [char; 4] = ['a', 'b', '%', '_'];

    /// all strings of length <= maxlen over `alpha`, shortest first
    fn strings(alpha: &[char], maxlen: usize) -> Vec<String> {
        let mut out = vec![String::new()];
        let mut from = 0;
        for _ in 0..maxlen {
            let to = out.len();
            for i in from..to {
                for c in alpha {
                    let mut s = out[i].clone();
                    s.push(*c);
                    out.push(s);
                }
            }
            from = to;
        }
        out
    }
    /// row i (id i+1): every text, then one NULL
    pub fn texts(maxt: usize) -> Vec<Option<String>> {
        let mut v: Vec<Option<String>> = strings(&ALPHA_T, maxt).into_iter().map(Some).collect();
        v.push(None);
        v
    }
    pub fn patterns(maxp: usize) -> Vec<String> {
        strings(&ALPHA_P, maxp)
    }
    /// pattern class for the signature: runs of literals -> L, runs of % -> %, every _ kept
    pub fn pclass(p: &str) -> String {
        let mut s = String::new();
        for ch in p.chars() {
            let k = match ch {
                '%' => '%',
                '_' => '_',
                _ => 'L',
            };
            if k == '_' || !s.ends_with(k) {
                s.push(k);
            }
        }
        if s.is_empty() {
            s.push_str("empty");
        }
        s
    }
    /// coarse pattern class for the signature: every maximal run of literals / `_` -> X, runs of % -> %
    /// (`%X` suffix, `X%` prefix, `%X%` contains, `X%X`, `X` no wildcard sequence, ...)
    pub fn sigclass(p: &str) -> String {
        let mut s = String::new();
        for ch in p.chars() {
            let k = if ch == '%' { '%' } else { 'X' };
            if !s.ends_with(k) {
                s.push(k);
            }
        }
        if s.is_empty() {
            s.push_str("empty");
        }
        s
    }
    /// a matcher that commits to the first position where the tail behind a `%` starts to match and never
    /// reconsiders (vacuity evidence only: pairs on which it differs from the reference need backtracking)
    fn first_fit(t: &[char], p: &[char]) -> bool {
        match p.first() {
            None => t.is_empty(),
            Some('%') => {
                let rest = &p[1..];
                match rest.first() {
                    None => true,
                    Some('%') => first_fit(t, rest),
                    Some(c) => match (0..t.len()).find(|k| *c == '_' || t[*k] == *c) {
                        Some(k) => first_fit(&t[k..], rest),
                        None => false,
                    },
                }
            }
            Some('_') => !t.is_empty() && first_fit(&t[1..], &p[1..]),
            Some(c) => t.first() == Some(c) && first_fit(&t[1..], &p[1..]),
        }
    }

    pub fn load(db: &TestDb, texts: &[Option<String>]) -> Result<(), String> {
        for tb in LTABLES {
            for ddl in [format!("CREATE TABLE {tb}(id INT PRIMARY KEY, s TEXT)")].into_iter().chain(if tb == "lx" { Some("CREATE INDEX lxs ON lx(s)".to_string()) } else { None }) {
                let r = db.exec(&ddl);
                if !r.ok() {
                    return Err(format!("{ddl}: {}", r.show()));
                }
            }
            let rows: Vec<Vec<V>> = texts.iter().enumerate().map(|(i, t)| vec![V::Int(i as i64 + 1), t.as_ref().map(|s| V::Text(s.clone())).unwrap_or(V::Null)]).collect();
            for chunk in rows.chunks(32) {
                let vals: Vec<String> = chunk.iter().map(|r| format!("({})", r.iter().map(lit_sql).collect::<Vec<_>>().join(", "))).collect();
                let sql = format!("INSERT INTO {tb} VALUES {}", vals.join(", "));
                match db.exec(&sql) {
                    Res::Affected(n, _) if n as usize == chunk.len() => {}
                    o => return Err(format!("{}: {}", vcore::util::clip(&sql, 120), o.show())),
                }
            }
            match db.exec(&format!("SELECT * FROM {tb}")) {
                Res::Rows(got) => {
                    if refmodel::val::bag(&got) != refmodel::val::bag(&rows) {
                        return Err(format!("table {tb} does not read back as loaded: {}", vcore::util::clip(&refmodel::val::show_rows(&got), 300)));
                    }
                }
                o => return Err(format!("SELECT * FROM {tb}: {}", o.show())),
            }
        }
        Ok(())
    }

    fn bits(n: usize) -> u128 {
        if n >= 128 {
            u128::MAX
        } else {
            (1u128 << n) - 1
        }
    }
    fn ids(m: u128) -> Vec<usize> {
        (0..128).filter(|i| m >> i & 1 == 1).map(|i| i + 1).collect()
    }

    /// one (table, form, pattern, negated) evaluation; true = a violation was reported
    pub fn check(db: &TestDb, rep: &mut Reporter, texts: &[Option<String>], maxt: usize, tb: usize, mode: usize, pat: &str, neg: bool, plant: Option<&str>) -> bool {
        let n = texts.len();
        let all = bits(n);
        let pc: Vec<char> = pat.chars().collect();
        let (mut et, mut ef, mut en) = (0u128, 0u128, 0u128);
        let mut backtracking = 0u64;
        for (i, t) in texts.iter().enumerate() {
            match t {
                None => en |= 1 << i,
                Some(t) => {
                    let m = like_match(t, pat);
                    if m != first_fit(&t.chars().collect::<Vec<_>>(), &pc) {
                        backtracking += 1;
                    }
                    if m != neg {
                        et |= 1 << i
                    } else {
                        ef |= 1 << i
                    }
                }
            }
        }
        let m = MODES[mode];
        let opn = if neg { "notlike" } else { "like" };
        let pred = format!("(s {}LIKE {})", if neg { "NOT " } else { "" }, lit_sql(&V::Text(pat.to_string())));
        let sent = match plant {
            // harness self-test only: `_` sent as a literal the texts never contain
            Some("like_") => pred.replace('_', "c"),
            _ => pred.clone(),
        };
        let sql = if mode == 0 { format!("SELECT id FROM {} WHERE {}", LTABLES[tb], sent) } else { format!("SELECT id, {} FROM {} WHERE 1=1", sent, LTABLES[tb]) };
        let shape = format!("{opn}({},const:{})", if tb == 1 { "text_ixcol" } else { "text_col" }, sigclass(pat));
        let case = || json!({"likespace": true, "maxt": maxt, "table": LTABLES[tb], "mode": m, "pattern": pat, "neg": neg, "sql": sql});
        rep.count("like_space.queries", 1);
        rep.count("like_space.rows_compared", n as u64);
        rep.count("like_space.pairs_needing_backtracking", backtracking);
        if pclass(pat).len() <= 3 {
            rep.count(&format!("like_space.class.{}", pclass(pat)), 1);
        }
        rep.case(vcore::util::hash_of(&("likespace", tb, mode, pat, neg)), et != 0 && ef != 0);
        let bad = |rep: &mut Reporter, class: &str, msg: &str| {
            rep.outcome(&format!("{m}:{class}"));
            rep.violation("C14", m, &format!("C14/{m}/{shape}/{class}"), case, "a row set / one truth value per row", msg);
            true
        };
        let rows = match db.exec(&sql) {
            Res::Rows(r) => r,
            Res::Err(e) => return bad(rep, "error", &e),
            Res::Panic(e) => return bad(rep, "panic", &e),
            o => return bad(rep, "not-rows", &o.show()),
        };
        let (mut ot, mut of, mut on, mut seen) = (0u128, 0u128, 0u128, 0u128);
        for r in &rows {
            if r.len() != 1 + mode {
                return bad(rep, "column-count", &format!("row {}", refmodel::val::show_row(r)));
            }
            let id = match &r[0] {
                V::Int(i) if *i >= 1 && *i <= n as i64 => (*i - 1) as usize,
                o => return bad(rep, "unknown-id", &o.show()),
            };
            if seen >> id & 1 == 1 {
                return bad(rep, "duplicate-row", &format!("id {} returned twice", id + 1));
            }
            seen |= 1 << id;
            if mode == 0 {
                ot |= 1 << id;
            } else if r[1].is_null() {
                on |= 1 << id;
            } else if loosely_equal_bool(&r[1], &V::Bool(true)) {
                ot |= 1 << id;
            } else if loosely_equal_bool(&r[1], &V::Bool(false)) {
                of |= 1 << id;
            } else {
                return bad(rep, "not-a-truth-value", &format!("id {}: {}", id + 1, r[1].show()));
            }
        }
        if mode == 0 {
            of = all & !ot;
        } else if seen != all {
            return bad(rep, "row-count", &format!("{} of {n} rows returned with WHERE 1=1", rows.len()));
        }
        let wrong = if mode == 0 { ot ^ et } else { (ot ^ et) | (of ^ ef) | (on ^ en) };
        if wrong == 0 {
            rep.outcome(&format!("{m}:agrees"));
            return false;
        }
        let cls = |t: u128, f: u128, nn: u128, i: usize| if t >> i & 1 == 1 { 'T' } else if f >> i & 1 == 1 { 'F' } else if nn >> i & 1 == 1 { 'N' } else { '?' };
        let mut classes: BTreeMap<(char, char), u128> = BTreeMap::new();
        for i in 0..n {
            if wrong >> i & 1 == 1 {
                *classes.entry((cls(et, ef, en, i), cls(ot, of, on, i))).or_insert(0) |= 1 << i;
            }
        }
        for ((e, o), mask) in classes {
            rep.outcome(&format!("{m}:{e}>{o}"));
            let first = ids(mask)[0];
            let txt = texts[first - 1].as_ref().map(|s| format!("'{s}'")).unwrap_or("NULL".into());
            rep.violation(
                "C14",
                m,
                &format!("C14/{m}/{shape}/{e}>{o}"),
                case,
                &format!("{e} on the rows with id {:?} (e.g. id {first}: s={txt})", ids(mask)),
                &format!("{o} for these rows ({})", if mode == 0 { if o == 'T' { "row returned" } else { "row not returned" } } else { "value in the select list" }),
            );
        }
        true
    }
}

struct C14;

impl Check for C14 {
    fn specs(&self) -> Vec<Spec> {
        let mut s = Spec::new(
            "C14",
            "exploration",
            "a case is one (predicate, table, observation form): table = full cross product a{NULL,-1,0,1,2} x b{NULL,-1.5,-1.0,-0.5,0.5,1.0,2.0} x c{NULL,'','a','ab','b'} (175 rows) with id PRIMARY KEY (t), plain id (n), or PRIMARY KEY plus secondary indexes on a and c (x); form = `SELECT id FROM tb WHERE p` (returned id set vs rows where the model says TRUE) or `SELECT id, p FROM tb WHERE 1=1` (TRUE/FALSE/NULL per row). Predicates: every atom of refmodel atoms(schema, consts: ints 0,-1,1,2; floats 0.5,-0.5,-1.5,1.5,1.0) (comparisons col/const/NULL/col-col x 6 operators, IS [NOT] NULL, [NOT] IN with/without NULL, [NOT] BETWEEN with/without NULL bound, [NOT] LIKE) and its NOT, IS [NOT] NULL over every atom, 21 id-column atoms (index-eligible) alone, negated and AND/OR-combined with the core in both operand orders, all NOT/AND/OR trees to the stated depth over the 40-atom core (quick: depth<=1 + one outer NOT; thorough: depth<=1 over all atoms, depth<=2 over the core, time-capped), and the B passes = AND/OR trees over the atoms without the constructs of the recorded findings (quick: depth<=1 over all such atoms on t and x, depth<=2 over a 8-atom mini core on t and x; thorough: depth<=2 over the 25-atom safe core on t and x). Pass L (LIKE sub-space): tables lk(id PK, s TEXT) and lx (+ index on s) with every text of length <=5 (thorough 6) over {a,b} + one NULL row x every pattern of length <=4 (thorough 5) over {a,b,%,_} x {LIKE, NOT LIKE} x both forms, compared per row with the recursive reference matcher like_match. Distinct = distinct (predicate, table, form); non-trivial = the model's value is not the same for all 175 rows. Blame is per row: a row counts against p only if every proper boolean sub-expression of p agrees with the model on that row.",
        );
        s.assumptions = &[
            "oracle = refmodel::sql::expr::Expr::eval_truth (Kleene logic, cross-checked against SQLite); rows on which the model raises Overflow/DivZero/Type are skipped and counted",
            "select-list truth values are compared with loosely_equal_bool (0/1 and FALSE/TRUE are the same answer); a WHERE 1=1 is kept in the select-list form",
            "in the WHERE form FALSE and UNKNOWN are indistinguishable (row absent): an absent row is written F in signatures",
            "the table is loaded once per worker and only read; the load is verified through SELECT *",
        ];
        s.cap_quick_s = 90;
        s.cap_thorough_s = 1380;
        vec![s]
    }

    fn run(&self, ctx: &Ctx, rep: &mut Reporter) {
        let mut fx = match Fx::new(ctx) {
            Ok(f) => f,
            Err(e) => {
                if ctx.worker == 0 {
                    rep.case(0, false);
                    rep.violation("C14", "fixture", "C14/fixture/load", || json!({"fixture": true}), "the 175-row table loads and reads back", &e);
                }
                return;
            }
        };
        let k = consts();
        let all = atoms(&abc_schema(), &k);
        let core = core_atoms(&abc_schema(), &k);
        let safe_all: Vec<Expr> = all.iter().filter(|e| !known_broken(e, 1)).cloned().collect();
        let safe_core: Vec<Expr> = core.iter().filter(|e| !known_broken(e, 1)).cloned().collect();
        rep.bound("atoms", json!({"all": all.len(), "core": core.len(), "all_without_known_broken": safe_all.len(), "core_without_known_broken": safe_core.len(), "mini_core": mini_core().len(), "id_atoms": id_atoms().len()}));
        for c in ["predicates", "rows_compared", "where_queries", "select_list_queries", "op.cmp", "op.AND", "op.OR", "op.NOT", "op.in", "op.notin", "op.between", "op.notbetween", "op.like", "op.notlike", "op.isnull", "op.isnotnull", "plan.t.SecondaryIndexScan", "plan.x.SecondaryIndexScan", "plan.t.TableScan", "plan.n.TableScan"] {
            rep.expect_nonzero(c);
        }
        for order in IVF_ORDERS {
            for class in IVF_CLASSES {
                for op in CmpOp::ALL {
                    rep.expect_nonzero(&format!("intfloat.{order}.{class}.{}", op_name(op)));
                }
            }
        }
        for c in ["like_space.patterns", "like_space.queries", "like_space.pairs_needing_backtracking", "like_space.class.%L", "like_space.class.L%L", "like_space.class.%L%", "like_space.class._", "like_space.class.%_L"] {
            rep.expect_nonzero(c);
        }
        rep.count("model_error_rows_skipped", 0);
        let tabs3 = [0usize, 1, 2]; // PK table, plain table, table with secondary indexes on a and c
        let pk = [0usize];
        let pkx = [0usize, 2];
        let forms = [0usize, 1];
        let mut run = Run { ctx, idx: 0, done_since_check: 0, expired: false };
        let quick = ctx.quick();

        // ---- A: the full grammar -------------------------------------------------------------
        // A1: every atom and NOT atom, both tables, both forms, plans recorded
        run.trees(&mut fx, rep, &Job { name: "A1-atoms+NOT", tables: &tabs3, modes: &forms, explain: true, skip_known_broken: false }, &all, 0, true, true);
        // L: the LIKE sub-space (all patterns x all texts over a small alphabet), both forms, LIKE and NOT LIKE
        run.like_space(&mut fx, rep, ctx.tier.pick(5, 6), ctx.tier.pick(4, 5));
        // A2: IS [NOT] NULL over every atom
        let wrapped: Vec<Expr> = all.iter().flat_map(|a| [is_null(a.clone()), is_not_null(a.clone())]).collect();
        run.list(&mut fx, rep, &Job { name: "A2-isnull-of-atom", tables: &tabs3, modes: &forms, explain: false, skip_known_broken: false }, &wrapped);
        // A3: id atoms (index-eligible on t), alone, negated, and combined with the core in both operand orders
        let ida = id_atoms();
        let mut idp: Vec<Expr> = ida.clone();
        idp.extend(ida.iter().map(|x| not(x.clone())));
        for x in &ida {
            for y in core.iter().chain(ida.iter()) {
                idp.push(and(x.clone(), y.clone()));
                idp.push(and(y.clone(), x.clone()));
                idp.push(or(x.clone(), y.clone()));
                idp.push(or(y.clone(), x.clone()));
            }
        }
        run.list(&mut fx, rep, &Job { name: "A3-id-atoms", tables: &tabs3, modes: &forms, explain: true, skip_known_broken: false }, &idp);
        // A4: trees over the core (quick: depth<=1 + outer NOT) / over all atoms (thorough)
        if quick {
            run.trees(&mut fx, rep, &Job { name: "A4-core-depth1+NOT", tables: &tabs3, modes: &forms, explain: false, skip_known_broken: false }, &core, 1, true, true);
        } else {
            run.trees(&mut fx, rep, &Job { name: "A4-all-depth1+NOT", tables: &tabs3, modes: &forms, explain: false, skip_known_broken: false }, &all, 1, true, true);
        }
        // ---- B: without the constructs of the recorded findings ------------------------------------
        run.trees(&mut fx, rep, &Job { name: "B1-safe-all-depth1", tables: if quick { &pkx } else { &tabs3 }, modes: &forms, explain: false, skip_known_broken: true }, &safe_all, 1, false, false);
        if quick {
            run.trees(&mut fx, rep, &Job { name: "B2-mini-depth2", tables: &pkx, modes: &forms, explain: false, skip_known_broken: true }, &mini_core(), 2, false, false);
        } else {
            run.trees(&mut fx, rep, &Job { name: "B2-safe-core-depth2", tables: &pkx, modes: &forms, explain: false, skip_known_broken: true }, &safe_core, 2, false, false);
            // ---- A5: depth <= 2 over the whole core, NOT included (time-capped; simplest first) ----
            run.trees(&mut fx, rep, &Job { name: "A5-core-depth2", tables: &pk, modes: &forms, explain: false, skip_known_broken: false }, &core, 2, true, false);
        }
        rep.count("memoised_subexpression_evaluations", fx.memo.len() as u64);
    }

    fn replay(&self, ctx: &Ctx, case: &Value, rep: &mut Reporter) {
        let mut fx = match Fx::new(ctx) {
            Ok(f) => f,
            Err(e) => {
                rep.case(0, false);
                rep.violation("C14", "fixture", "C14/fixture/load", || json!({"fixture": true}), "the 175-row table loads and reads back", &e);
                return;
            }
        };
        if case["fixture"].as_bool() == Some(true) && case["likespace"].as_bool() != Some(true) {
            rep.case(0, false);
            return;
        }
        if case["likespace"].as_bool() == Some(true) {
            let maxt = case["maxt"].as_u64().unwrap_or(5) as usize;
            let texts = likespace::texts(maxt);
            if let Err(e) = likespace::load(&fx.db, &texts) {
                rep.case(1, false);
                rep.violation("C14", "fixture", "C14/fixture/load-like-space", || json!({"likespace": true, "fixture": true, "maxt": maxt}), "the LIKE text tables load and read back", &e);
                return;
            }
            if case["fixture"].as_bool() == Some(true) {
                rep.case(1, false);
                return;
            }
            let tb = likespace::LTABLES.iter().position(|t| Some(*t) == case["table"].as_str()).unwrap_or(0);
            let mode = MODES.iter().position(|t| Some(*t) == case["mode"].as_str()).unwrap_or(0);
            likespace::check(&fx.db, rep, &texts, maxt, tb, mode, case["pattern"].as_str().unwrap_or(""), case["neg"].as_bool().unwrap_or(false), fx.plant.as_deref());
            return;
        }
        let Some(p) = dec(&case["pred"]) else {
            rep.note("replay: predicate does not decode");
            return;
        };
        let tb = TABLES.iter().position(|t| Some(*t) == case["table"].as_str()).unwrap_or(0);
        let mode = MODES.iter().position(|t| Some(*t) == case["mode"].as_str()).unwrap_or(0);
        check_pred(&mut fx, rep, case["pass"].as_str().unwrap_or("replay"), tb, mode, &p);
    }
}

/// `c14 --sql "stmt;;stmt"`: run statements on the loaded fixture and print full results (development aid)
fn debug_sql(script: &str) {
    vcore::quiet_panics();
    let ctx = Ctx { property: "C14".into(), tier: vcore::Tier::Quick, seed: 0, worker: 0, workers: 1, scratch: std::path::PathBuf::from(format!("/dev/shm/turdb_verif/c14dbg_{}", std::process::id())), deadline: std::time::Instant::now() + std::time::Duration::from_secs(600), opts: BTreeMap::new() };
    let fx = Fx::new(&ctx).expect("fixture");
    for stmt in script.split(";;") {
        let s = stmt.trim();
        if s.is_empty() {
            continue;
        }
        match fx.db.exec(s) {
            Res::Rows(r) => {
                println!("{s}\n  => {} rows", r.len());
                for row in r.iter().take(200) {
                    println!("     {}", row.iter().map(|v| match v { V::Text(t) => t.clone(), o => o.show() }).collect::<Vec<_>>().join(" | "));
                }
            }
            o => println!("{s}\n  => {}", o.show()),
        }
    }
    drop(fx);
    let _ = std::fs::remove_dir_all(&ctx.scratch);
}

fn main() {
    let args: Vec<String> = std::env::args().collect();
    if args.len() == 3 && args[1] == "--sql" {
        debug_sql(&args[2]);
        return;
    }
    vcore::main(&C14)
}
